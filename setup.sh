#!/bin/bash
# Offline setup: make sure hypothesis is importable by /venv's python; install atheris (cp312 wheel) beside /verif.
set -u
cd "$(dirname "$0")"
PY=/venv/bin/python
$PY -c "import hypothesis" 2>/dev/null || /venv/bin/pip install --no-index --find-links /opt/veriftools/wheels hypothesis || exit 1
mkdir -p .deps
if ! PYTHONPATH=.deps $PY -c "import atheris" 2>/dev/null; then
  /venv/bin/pip install --no-index --find-links /opt/veriftools/wheels --target .deps atheris >/dev/null 2>&1 || echo "atheris not installable: coverage-guided campaigns degrade to Hypothesis-only (stated in evidence)"
fi
$PY -c "import hypothesis, bitarray, numpy; print('setup ok: hypothesis', hypothesis.__version__)"
