"""C12 — Hytera HSTRP / HRNP / HDAP messages are framed consistently and re-encode equally.

One Hypothesis strategy per implemented opcode (the opcodes that the ``from_bytes`` dispatch of RRS / LP / TMP / RCP
implements), fields in range only.  Every case is built from fields with the library constructors, serialised, and
 (R)  compared octet-wise with the independent frame reference vp/refs/hytera_ref.py (service octet with the reliable bit,
      opcode octets, length field in the protocol's endianness == payload octets present, checksum, 0x03, len(); for RRS / LP /
      TMP also the payload octets against the layout reference: field order, widths, zero-padded fixed-width GPS text),
 (RT) parsed back through HDAP.from_bytes: same class, same octets when serialised again, equal field dump,
and the same two clauses are evaluated for the PDU nested in HRNP(DATA) and in HSTRP with 0..4 options.
"""
from __future__ import annotations

import datetime
import enum

from vp.core import Ctx, Fail, HarnessError, SubCheck, Tally, call
from vp.refs import hytera_ref as ref

LEVEL = "exploration"
RULE = (
    "(a) deterministic boundary pass, both tiers, per opcode on two seeded backgrounds, one change at a time: every integer "
    "field of the PDU / HRNP header / HSTRP envelope at {min, min+1, max-1, max, top bit only} (+ 2^24-1, 2^24 for 32-bit ids, "
    "0xFF, 0x100 for 16-bit numbers), GPS fields at their edges, variable-length fields (text, short data, option data, "
    "alias, raw payload, config / settings lists) at 0/1/127/128/255/256/300 and at the lengths that put 0x00 / 0xFF into the "
    "low or high octet of the HDAP length field, the TMP option-length field and the HRNP total length (up to the 65516-"
    "octet payload that fills an HRNP packet), HDAP checksum steered to 0x00 / 0xFF and HRNP checksum steered to 0x0000 / "
    "0x0001 / 0xFFFE / 0x7E04 / 0x0303 / 0x0003 / 0x0300 / a second end-around carry (one octet / the packet number solved on the "
    "reference), HDAP checksum also steered to 0x03, 0x7E and the frame's own service octet, and to 0x03 while the last payload "
    "octet is 0x03 too (tail octet of an id / value / text / octet string set, another octet solved), HSTRP option "
    "lists: none, each type alone, the same option 2x / 6x, 16 options, option data of 0/1/127/128/255 octets; all 32 "
    "HSTRP type-bit combinations and all HRNP control opcodes in 'transport'; characters / octets that codecs and framers "
    "treat specially: TMP text with U+FEFF / U+FFFE / U+FFFD / U+FFFF / NUL / blanks / TAB / CR / LF / CRLF / characters whose "
    "UTF-16-LE image contains 03, 7E, 7E 04, '2B', the HDAP service octets / non-BMP characters - alone, at the start, in the "
    "middle, at the end, doubled, with option data behind; short data / option data / raw payload / alias / raw value / config / "
    "HSTRP option data with BOMs (FF FE, FE FF, EF BB BF), 00 00, the HDAP end octet, HRNP '7E 04', HSTRP '2B', HDAP service "
    "octets and a whole HDAP header - alone, at the start, at offset >= 12, near the end, repeated; constant fill; a short "
    "record repeated (the same specials are mixed into the Hypothesis strategies).  (b) "
    "Hypothesis, one strategy per implemented opcode (RRS 5, LP 2, TMP 8, RCP 17 incl. the pass-through 'UnknownService'), "
    "in-range fields only (radio ids 0..2^24-1, RCP ids 0..2^32-1, request ids 0..2^32-1, subnet 0..255, every defined enum "
    "member, UTF-16 text, option data 0..n octets, GPS: valid flag, time/date or the all-NUL form, ddmm.mmmm / dddmm.mmmm on the "
    "1/10000 grid, speed 0..999.99 knots, course 0..359); every case also carries HRNP header fields (version 0..4, block, "
    "source, destination, packet number) and an HSTRP envelope (version, sequence number, type bits, 0..4 options of every "
    "option type with 0..8 data octets, have_options == (k>0)); the oracle evaluates the bare PDU, PDU in HRNP(DATA) and PDU "
    "in HSTRP.  Sub-check 'transport': HRNP control packets without data (one third boundary-directed: packet number chosen "
    "so that the ones-complement sum needs a second end-around carry) and HSTRP datagrams without payload.  Distinct = "
    "hash of the whole case; non-trivial = any flag set (reliable / confirmed / option) or a variable-length field non-empty "
    "or >= 1 HSTRP option.  Near-twins (round 7): about half of the Hypothesis cases and every 5th boundary case of the PDU "
    "sub-checks carry 1..2 near-twins - the same opcode with ONE part changed: a variable-length field (status settings, "
    "broadcast config, alias, raw payload, text, short data, option data) emptied / shortened / extended / replaced / other key "
    "set / other order, option data None <-> empty <-> data, GPS time / date / speed / course absent <-> set, another HSTRP "
    "option list, a flag, one integer - which are built, serialised and parsed (bare / HRNP / HSTRP in turn, reference-wrapped) "
    "BEFORE the judged PDU and judged again after it.  Sub-check 'histories': 2..6 PDUs in one interpreter (a seeded base + "
    "near-twins of it, of each other, PDUs of other opcodes of the protocol; every variable key of every opcode forced in "
    "turn; Hypothesis: 1..3 independent draws of one opcode + 0..1 of a sibling opcode + 0..2 near-twins), each at a seeded "
    "level (bare / HRNP DATA / HSTRP with options), an unrelated operation between two items (repr of everything kept, "
    "refused truncated / cross-dispatched parse, default-constructed object, captured frame, RadioIP siblings in the other "
    "endianness), then every kept object re-judged in another order and in the original order, the item parsed again, and "
    "objects built with constructor defaults compared before / after the history."
)
ASSUMPTIONS = [
    "histories / near-twins: decoding, building or refusing one PDU must not change what another object - kept alive from an "
    "earlier parse, built earlier, or built later with constructor defaults - carries or serialises to; expected values of every "
    "object come from the generated fields of ITS item and the reference assembly, never from another library call.  Clause ids "
    "say which history produced a failure: '.._with_near_twins_parsed_first' / 'near_twin_..' / 'history_..' cases contain their "
    "history and replay on their own; '.._in_a_process_with_state_left_behind' and 'history_starts_with_default_constructed_"
    "objects_as_in_fresh_interpreter' mean an earlier case or prelude of the same process left state behind (that one fails its own "
    "clause; such a stored case need not fail when replayed alone).  Hypothesis does not shrink histories (shrinking replays "
    "candidates in the process the failure may have left dirty).  Items of histories and near-twins stay outside the open finding "
    "C12-gps-speed-field-overflow (speed 0 or d.d knots) and below 700 octets per field",
    "stability clauses: every object is serialised twice (same octets), the same octets are parsed twice (same fields), "
    "serialising must not change the field dump of the PDU, and the same PDU object is nested in two different HRNP and two "
    "different HSTRP wrappers (second wrapper = reference assembly of the unchanged inner octets; inner object and first "
    "wrappers unchanged afterwards)",
    "frame reference vp/refs/hytera_ref.py written from the frame descriptions / kaitai specs and validated against 59 "
    "captured byte strings of the repository's tests (selfcheck at start of every run)",
    "payload layouts of RRS / LP / TMP (field order, widths, big-endian numbers, zero-padded fixed-width GPS text, NUL fill "
    "for absent time / date / speed / azimuth) are compared with a layout reference written from the kaitai specs and 10 "
    "captures; RCP payloads have no independent layout and are covered by framing + round trip only",
    "TMP short-data opcodes (0xAE/0xAF/0xBE/0xBF) and the RCP opcodes 0x0852/0x8852 occur in no capture; their numeric values "
    "are taken from the vendor protocol numbering as reproduced in the library's enums",
    "domain restrictions (documented or demonstrably required by the callers): has_option == (option_data is not None); "
    "HSTRP have_options == (number of options > 0) and no heartbeat bit together with options (the library and the kaitai "
    "spec both define that heartbeats carry no options); RCP ZoneAndChannelOperationRequest payload is the documented 5 "
    "octets (operation, zone, channel), Reply 12 octets; broadcast_config_raw = count octet + count*2 octets; "
    "UnknownService opcodes are 16-bit values that are not a defined RCP opcode; GPS speed is a float, time without "
    "microseconds; HRNP objects are compared without the derived attribute checksum_correct (checked separately: True "
    "after parsing)",
]

_REF_VECTORS = ref.selfcheck()  # raises when the reference does not reproduce the captured vectors

# opcode numbering (kaitai specs + captures; see ASSUMPTIONS)
RRS_OPS = {"RadioRegistrationRequest": 0x03, "RadioRegistrationAnswer": 0x80, "RadioGoingOffline": 0x01,
           "RegistrationStatusCheckRequest": 0x02, "RegistrationStatusCheckAnswer": 0x82}
LP_OPS = {"StandardRequest": 0xA001, "StandardReport": 0xA002}
TMP_OPS = {"SendPrivateMessage": 0xA1, "SendPrivateMessageAck": 0xA2, "SendGroupMessage": 0xB1, "SendGroupMessageAck": 0xB2,
           "PrivateShortData": 0xAE, "PrivateShortDataAck": 0xAF, "GroupShortData": 0xBE, "GroupShortDataAck": 0xBF}
RCP_OPS = {"CallRequest": 0x0841, "CallReply": 0x8841, "RepeaterBroadcastTransmitStatus": 0xB845,
           "BroadcastMessageConfigurationRequest": 0x1847, "BroadcastMessageConfigurationReply": 0x8847,
           "RadioIDAndRadioIPQueryRequest": 0x0452, "RadioIDAndRadioIPQueryReply": 0x8452,
           "BroadcastStatusConfigurationRequest": 0x10C9, "BroadcastStatusConfigurationReply": 0x80C9,
           "SendTalkerAliasRequest": 0x0852, "SendTalkerAliasReply": 0x8852, "ZoneAndChannelOperationRequest": 0x00C4,
           "ZoneAndChannelOperationReply": 0x80C4, "StatusChangeNotificationRequest": 0x10C7,
           "StatusChangeNotificationReply": 0x80C7, "RadioStatusReport": 0xB0C8, "UnknownService": None}
OPS = {"RRS": RRS_OPS, "LP": LP_OPS, "TMP": TMP_OPS, "RCP": RCP_OPS}


# ------------------------------------------------------------------------------------------------- field comparison
#
# "Equal fields" is decided on the protocol fields, not on whatever an implementation keeps on its objects:
#  (a) every field the case GENERATED is looked up on the parsed object under the attribute name the constructor stores it
#      under (expected_pdu_fields / expected_hrnp_fields / expected_hstrp_fields, recursively for RadioIP / GPSData / packet
#      type / options / the nested PDU) and must equal the generated value;
#  (b) additionally every public attribute (instance attributes, slots, properties) that is a CONSTRUCTOR PARAMETER of the class
#      (inspect.signature(cls.__init__)), is present on BOTH the built and the parsed object and whose built value is not None
#      must be equal (flags, defaults of parameters the builder did not pass), recursively.
# Attributes that are None or absent on the built object (diagnostics such as the source octets of a parsed object), private
# names and callables are not fields.  An attribute missing on one side is skipped and noted (SKIPPED -> evidence classes),
# never a failure.

SKIPPED = set()  # "Class.attribute" names skipped because absent on one side; drained into the tally by the record functions


def _is_leaf(o) -> bool:
    return o is None or isinstance(o, (bool, int, float, str, bytes, bytearray, enum.Enum, datetime.date, datetime.time))


def public_attrs(o) -> dict:
    """public data attributes of an object: instance __dict__, __slots__ of every class in the MRO, properties"""
    names = set()
    d = getattr(o, "__dict__", None)
    if isinstance(d, dict):
        names |= {k for k in d if isinstance(k, str)}
    for cls in type(o).__mro__:
        slots = cls.__dict__.get("__slots__", ())
        names |= set((slots,) if isinstance(slots, str) else slots)
        names |= {k for k, v in cls.__dict__.items() if isinstance(v, property)}
    out = {}
    for n in sorted(n for n in names if not n.startswith("_")):
        try:
            v = getattr(o, n)
        except Exception:
            continue
        if not callable(v):
            out[n] = v
    return out


def dump(o):
    """Recursive, comparable dump of the public state of an object."""
    if o is None or isinstance(o, (bool, int, float, str)):
        return o
    if isinstance(o, (bytes, bytearray)):
        return {"hex": bytes(o).hex()}
    if isinstance(o, enum.Enum):
        return f"{type(o).__name__}.{o.name}"
    if isinstance(o, (datetime.date, datetime.time)):
        return o.isoformat()
    if isinstance(o, dict):
        return {"items": [[dump(k), dump(v)] for k, v in o.items()]}
    if isinstance(o, (list, tuple)):
        return [dump(x) for x in o]
    attrs = public_attrs(o)
    if attrs or hasattr(o, "__dict__"):
        return {"__class__": type(o).__name__, **{k: dump(v) for k, v in attrs.items()}}
    return repr(o)


def first_diff(a, b, path="$"):
    if isinstance(a, dict) and isinstance(b, dict):
        for k in sorted(set(a) | set(b)):
            if k not in a or k not in b:
                return (f"{path}.{k}", a.get(k, "<absent>"), b.get(k, "<absent>"))
            d = first_diff(a[k], b[k], f"{path}.{k}")
            if d:
                return d
        return None
    if isinstance(a, list) and isinstance(b, list):
        if len(a) != len(b):
            return (f"{path}.length", len(a), len(b))
        for i, (x, y) in enumerate(zip(a, b)):
            d = first_diff(x, y, f"{path}[{i}]")
            if d:
                return d
        return None
    if type(a) in (int, float, bool) and type(b) in (int, float, bool):
        return None if a == b else (path, a, b)
    return None if (type(a) is type(b) and a == b) else (path, a, b)


def ctor_params(cls) -> set:
    """names a caller can pass to the constructor: only these count as fields in the generic comparison, everything else an
    object carries is derived / diagnostic and is compared by explicit clauses only"""
    import inspect

    try:
        return {n for n in inspect.signature(cls.__init__).parameters if n != "self"}
    except (TypeError, ValueError):
        return set()


def field_dump(o):
    """dump restricted to constructor-parameter attributes (recursively) - the state a caller set"""
    if _is_leaf(o) or isinstance(o, (list, tuple, dict)):
        return dump(o)
    params = ctor_params(type(o))
    return {"__class__": type(o).__name__, **{k: field_dump(v) for k, v in public_attrs(o).items() if k in params}}


def compare_common(clause: str, parsed, built, path="$", ignore=()):
    """rule (b): constructor-parameter attributes present on both sides whose built value is not None"""
    pa, ba = public_attrs(parsed), public_attrs(built)
    params = ctor_params(type(built))
    for k, bv in ba.items():
        if k in ignore or bv is None or k not in params:
            continue
        if k not in pa:
            SKIPPED.add(f"{type(built).__name__}.{k}")
            continue
        pv = pa[k]
        if not _is_leaf(bv) and not isinstance(bv, (list, tuple, dict)) and not _is_leaf(pv) and not isinstance(pv, (list, tuple, dict)):
            compare_common(clause, pv, bv, f"{path}.{k}")
            continue
        d = first_diff(dump(pv), dump(bv), f"{path}.{k}")
        if d:
            raise Fail(clause, observed={"path": d[0], "parsed": d[1]}, expected={"path": d[0], "built": d[2]})


def check_generated(clause: str, obj, spec: dict, path="$"):
    """rule (a): spec maps attribute name -> generated value (dict = nested object, ("enum", member name), ("items", [[key member,
    value member]...]) for enum->enum dicts, ("options", [[type member, hex]...]), bytes, date / time, numbers, str, None)"""
    for attr, exp in spec.items():
        p = f"{path}.{attr}"
        try:
            val = getattr(obj, attr)
        except Exception:
            SKIPPED.add(f"{type(obj).__name__}.{attr}")
            continue
        if isinstance(exp, dict):
            if val is None:
                raise Fail(clause, observed={"path": p, "parsed": None}, expected={"path": p, "generated": "an object"})
            check_generated(clause, val, exp, p)
            continue
        try:
            if isinstance(exp, tuple) and exp[0] == "enum":
                got = val.name if isinstance(val, enum.Enum) else dump(val)
                want = exp[1]
            elif isinstance(exp, tuple) and exp[0] == "items":
                got, want = [[k.name, v.name] for k, v in val.items()], exp[1]
            elif isinstance(exp, tuple) and exp[0] == "options":
                got, want = [[c.name, bytes(d).hex()] for c, d in val], exp[1]
            elif isinstance(exp, (bytes, bytearray)):
                got, want = (bytes(val).hex() if isinstance(val, (bytes, bytearray)) else dump(val)), bytes(exp).hex()
            elif isinstance(exp, (datetime.date, datetime.time)):
                got, want = dump(val), exp.isoformat()
            elif exp is None:
                got, want = dump(val), None
            else:
                got, want = (val if type(val) in (int, float, bool, str) else dump(val)), exp
        except Exception as e:
            got, want = f"unreadable ({type(e).__name__})", dump(exp) if not isinstance(exp, tuple) else exp[1]
        if type(got) in (int, float, bool) and type(want) in (int, float, bool):
            ok = got == want
        else:
            ok = type(got) is type(want) and got == want
        if not ok:
            raise Fail(clause, observed={"path": p, "parsed": got}, expected={"path": p, "generated": want})


def _ip_spec(d):
    return None if d is None else {"subnet": d["subnet"], "radio_id": d["id"]}


def expected_pdu_fields(case) -> dict:
    """attribute name (as stored by the constructor the builder calls) -> generated value"""
    p, op, f = case["proto"], case["op"], case["f"]
    out = {"is_reliable": case["rel"]}
    if p == "RRS":
        out.update(opcode=("enum", op), radio_ip=_ip_spec(f["ip"]))
        if "result" in f:
            out["result"] = ("enum", f["result"])
        if "renew" in f:
            out["renew_time_seconds"] = f["renew"]
        if "state" in f:
            out["radio_state"] = ("enum", f["state"])
    elif p == "LP":
        out.update(specific_service=("enum", op), request_id=f["request_id"], radio_ip=_ip_spec(f["ip"]))
        if op == "StandardReport":
            g = f["gps"]
            out["result"] = ("enum", f["result"])
            out["gpsdata"] = {"data_valid": g["valid"], "greenwich_time": None if g["time"] is None else datetime.time(*g["time"]),
                              "greenwich_date": None if g["date"] is None else datetime.date(*g["date"]), "north_south": g["ns"],
                              "latitude": g["lat"] / 10000, "east_west": g["ew"], "longitude": g["lon"] / 10000, "speed_knots": g["speed"] / 100,
                              "direction": g["dir"]}
    elif p == "TMP":
        out.update(opcode=("enum", op), is_confirmed=f["confirmed"], has_option=f["option"] is not None,
                   option_data=None if f["option"] is None else bytes.fromhex(f["option"]), request_id=f["request_id"],
                   destination_ip=_ip_spec(f["dst"]), source_ip=_ip_spec(f.get("src")))
        if "text" in f:
            out["text_data"] = f["text"].encode("utf-16-le")
        if "short" in f:
            out["short_data"] = bytes.fromhex(f["short"])
        if "result" in f:
            out["result_code"] = ("enum", f["result"])
    else:
        out["opcode"] = ("enum", op)
        names = {"raw_opcode": "raw_opcode", "raw_payload": "raw_payload", "raw_value": "raw_value", "config": "broadcast_config_raw", "alias": "talker_alias_data"}
        for k, attr in names.items():
            if k in f:
                out[attr] = bytes.fromhex(f[k])
        for k, attr in {"call_type": "call_type", "result": "result", "mode": "repeater_mode", "status": "repeater_status", "service": "repeater_service_type",
                        "target": "radio_ip_id_target", "alias_format": "talker_alias_data_format", "status_target": "status_change_target"}.items():
            if k in f:
                out[attr] = ("enum", f[k])
        for k, attr in {"target_id": "target_id", "sender_id": "sender_id", "broadcast_type": "broadcast_type", "status_value": "status_change_value"}.items():
            if k in f:
                out[attr] = f[k]
        if "settings" in f:
            out["status_change_settings"] = ("items", [list(x) for x in f["settings"]])
    return out


def expected_hrnp_fields(h, opcode: str, inner) -> dict:
    return {"version": bytes([h["version"]]), "block_number": h["block"], "source": h["src"], "destination": h["dst"], "packet_number": h["pn"],
            "opcode": ("enum", opcode), "data": inner}


def expected_hstrp_fields(env, inner) -> dict:
    return {"version": env["version"], "sn": env["sn"], "pkt_type": dict(env["flags"]), "options": {"options": ("options", [list(o) for o in env["options"]])},
            "payload": inner}


def expect_equal_fields(clause: str, parsed, built, generated: dict, ignore=()):
    check_generated(clause, parsed, generated)
    compare_common(clause, parsed, built, ignore=ignore)


# -------------------------------------------------------------------------------------------------------- builders


def _ip(d):
    from okdmr.dmrlib.hytera.pdu.radio_ip import RadioIP

    return None if d is None else RadioIP(radio_id=d["id"], subnet=d["subnet"])


def build_gps(g):
    from okdmr.dmrlib.hytera.pdu.location_protocol import GPSData

    return GPSData(
        data_valid=g["valid"],
        greenwich_time=datetime.time(*g["time"]) if g["time"] is not None else b"\x00" * 6,
        greenwich_date=datetime.date(*g["date"]) if g["date"] is not None else b"\x00" * 6,
        north_south=g["ns"],
        latitude=g["lat"] / 10000,
        east_west=g["ew"],
        longitude=g["lon"] / 10000,
        speed_knots=g["speed"] / 100,
        direction=g["dir"],
    )


def build_pdu(case):
    p, op, rel, f = case["proto"], case["op"], case["rel"], case["f"]
    if p == "RRS":
        from okdmr.dmrlib.hytera.pdu import radio_registration_service as m

        kw = {}
        if "result" in f:
            kw["result"] = m.RRSResult[f["result"]]
        if "renew" in f:
            kw["renew_time_seconds"] = f["renew"]
        if "state" in f:
            kw["radio_state"] = m.RRSRadioState[f["state"]]
        return m.RadioRegistrationService(opcode=m.RRSTypes[op], is_reliable=rel, radio_ip=_ip(f["ip"]), **kw)
    if p == "LP":
        from okdmr.dmrlib.hytera.pdu import location_protocol as m

        kw = {}
        if op == "StandardReport":
            kw["result"] = m.LocationProtocolResultCodes[f["result"]].value
            kw["gpsdata"] = build_gps(f["gps"])
        return m.LocationProtocol(opcode=m.LocationProtocolSpecificService[op], request_id=f["request_id"], radio_ip=_ip(f["ip"]), is_reliable=rel, **kw)
    if p == "TMP":
        from okdmr.dmrlib.hytera.pdu import text_message_protocol as m

        kw = {}
        if "text" in f:
            kw["text_data"] = f["text"]
        if "short" in f:
            kw["short_data"] = bytes.fromhex(f["short"])
        if "result" in f:
            kw["result_code"] = m.TMPResultCodes[f["result"]]
        return m.TextMessageProtocol(
            opcode=m.TMPService[op], is_reliable=rel, is_confirmed=f["confirmed"], has_option=f["option"] is not None,
            option_data=None if f["option"] is None else bytes.fromhex(f["option"]), request_id=f["request_id"],
            destination_ip=_ip(f["dst"]), source_ip=_ip(f.get("src")), **kw,
        )
    if p == "RCP":
        from okdmr.dmrlib.etsi.layer3.elements.talker_alias_data_format import TalkerAliasDataFormat
        from okdmr.dmrlib.hytera.pdu import radio_control_protocol as m

        kw = {}
        if "raw_opcode" in f:
            kw["raw_opcode"] = bytes.fromhex(f["raw_opcode"])
        if "raw_payload" in f:
            kw["raw_payload"] = bytes.fromhex(f["raw_payload"])
        if "call_type" in f:
            kw["call_type"] = m.RCPCallType[f["call_type"]]
        if "target_id" in f:
            kw["target_id"] = f["target_id"]
        if "sender_id" in f:
            kw["sender_id"] = f["sender_id"]
        if "result" in f:
            kw["result"] = m.RCPResult[f["result"]]
        if "mode" in f:
            kw["repeater_mode"] = m.RepeaterMode[f["mode"]]
            kw["repeater_status"] = m.RepeaterStatus[f["status"]]
            kw["repeater_service_type"] = m.RepeaterServiceType[f["service"]]
        if "broadcast_type" in f:
            kw["broadcast_type"] = f["broadcast_type"]
        if "target" in f:
            kw["target"] = m.RadioIpIdTarget[f["target"]]
        if "raw_value" in f:
            kw["raw_value"] = bytes.fromhex(f["raw_value"])
        if "config" in f:
            kw["broadcast_config_raw"] = bytes.fromhex(f["config"])
        if "alias_format" in f:
            kw["talker_alias_format"] = TalkerAliasDataFormat[f["alias_format"]]
            kw["talker_alias_data"] = bytes.fromhex(f["alias"])
        if "settings" in f:
            kw["status_change_settings"] = {m.StatusChangeNotificationTargets[t]: m.StatusChangeNotificationSetting[s] for t, s in f["settings"]}
        if "status_target" in f:
            kw["status_change_target"] = m.StatusChangeNotificationTargets[f["status_target"]]
            kw["status_change_value"] = f["status_value"]
        return m.RadioControlProtocol(opcode=m.RCPOpcode[op], is_reliable=rel, **kw)
    raise HarnessError(f"unknown protocol {p}")


def expected_opcode_octets(case) -> bytes:
    p, op, f = case["proto"], case["op"], case["f"]
    if p == "RRS":
        return bytes([0x00, RRS_OPS[op]])
    if p == "LP":
        return LP_OPS[op].to_bytes(2, "big")
    if p == "TMP":
        return bytes([(0x80 if f["confirmed"] else 0) | (0x40 if f["option"] is not None else 0), TMP_OPS[op]])
    if op == "UnknownService":
        return bytes.fromhex(f["raw_opcode"])
    return RCP_OPS[op].to_bytes(2, "little")


def expected_payload(case):
    """payload octets from the layout reference (RRS, LP, TMP; kaitai specs + captures) or None where no independent layout
    is available (RCP; GPS speed outside the three-character field)"""
    p, op, f = case["proto"], case["op"], case["f"]
    if p == "RRS":
        return ref.rrs_payload(RRS_OPS[op], f["ip"]["subnet"], f["ip"]["id"], {"Success": 0, "OtherFailure": 1, "PasswordError": 2}.get(f.get("result"), 0),
                               f.get("renew", 0), {"Online": 0, "Offline": 1}.get(f.get("state"), 0))
    if p == "LP":
        if op == "StandardRequest":
            return ref.lp_payload(LP_OPS[op], f["request_id"], f["ip"]["subnet"], f["ip"]["id"])
        g = f["gps"]
        s = g["speed"]
        if s != 0 and not (s % 10 == 0 and s < 1000):
            return None
        date = None if g["date"] is None else (g["date"][2], g["date"][1], g["date"][0])
        gps = ref.gps_block(g["valid"], g["time"], date, g["ns"], g["lat"], g["ew"], g["lon"], None if s == 0 else f"{s // 100}.{(s // 10) % 10}", g["dir"])
        return ref.lp_payload(LP_OPS[op], f["request_id"], f["ip"]["subnet"], f["ip"]["id"], {"OK": 0, "PositionMethodFailure": 6, "FormatError": 105}[f["result"]], gps)
    if p == "TMP":
        if "text" in f:
            body = f["text"].encode("utf-16-le")
        elif "short" in f:
            body = bytes.fromhex(f["short"])
        else:
            body = bytes([TMP_RESULTS[f["result"]]])
        src = (f["src"]["subnet"], f["src"]["id"]) if "src" in f else None
        return ref.tmp_payload(TMP_OPS[op], f["request_id"], (f["dst"]["subnet"], f["dst"]["id"]), src, body, None if f["option"] is None else bytes.fromhex(f["option"]))
    return None


# text_message_protocol.ksy result_codes
TMP_RESULTS = {"OK": 0, "FAIL": 1, "INVALID_PARAMS": 3, "CHANNEL_BUSY": 4, "RX_ONLY": 5, "LOW_BATTERY": 6, "PLL_UNLOCK": 7, "PRIVATE_CALL_NO_ACK": 8,
               "REPEATER_WAKEUP_FAIL": 9, "NOCONTACT": 10, "TX_DENY": 11, "TX_INTERRUPTED": 12}


def build_hstrp(env, payload):
    from okdmr.dmrlib.hytera.pdu.hstrp import HSTRP, HSTRPOptions, HSTRPOptionType, HSTRPPacketType

    opts = HSTRPOptions()
    for name, data in env["options"]:
        opts.add_option(HSTRPOptionType[name], bytes.fromhex(data))
    return HSTRP(pkt_type=HSTRPPacketType(**env["flags"]), sn=env["sn"], options=opts, payload=payload, version=env["version"])


# ---------------------------------------------------------------------------------------------------------- oracle


def check_hdap_frame(case, frame: bytes, level: str):
    """(R) framing clauses of one serialised HDAP PDU against the reference"""
    p = case["proto"]
    if len(frame) < 7:
        raise Fail(f"{level}frame_at_least_7_octets", len(frame), ">=7")
    if frame[0] != (ref.SERVICE[p] | (0x80 if case["rel"] else 0)):
        raise Fail(f"{level}service_octet_with_reliable_bit", frame[0:1].hex(), "%02x" % (ref.SERVICE[p] | (0x80 if case["rel"] else 0)))
    want_op = expected_opcode_octets(case)
    if frame[1:3] != want_op:
        raise Fail(f"{level}opcode_octets", frame[1:3].hex(), want_op.hex())
    n_payload = len(frame) - 7
    if int.from_bytes(frame[3:5], ref.ENDIAN[p]) != n_payload:
        raise Fail(f"{level}length_field_equals_payload_octets", {"field": frame[3:5].hex(), "endian": ref.ENDIAN[p]}, n_payload)
    if frame[-2] != ref.hdap_checksum(frame[1:-2]):
        raise Fail(f"{level}checksum_reproduced", "%02x" % frame[-2], "%02x" % ref.hdap_checksum(frame[1:-2]))
    if frame[-1] != 0x03:
        raise Fail(f"{level}terminator_0x03", "%02x" % frame[-1], "03")
    if ref.hdap_frame(p, case["rel"], want_op, frame[5:-2]) != frame:
        raise Fail(f"{level}frame_equals_reference_assembly", frame.hex(), ref.hdap_frame(p, case["rel"], want_op, frame[5:-2]).hex())


def _roundtrip_twins(case):
    """near-twins riding on a single-PDU case (case["twins"]: PDU cases of the same opcode with another variable-length / optional
    part) are built, serialised and parsed - at the bare / HRNP / HSTRP level in turn, from reference-wrapped octets - BEFORE the
    judged PDU; the parsed objects are kept and judged again after it"""
    kept = []
    for j, tw in enumerate(case.get("twins") or []):
        level = LEVELS[j % 3]
        built = call(build_pdu, tw, clause="near_twin_build_no_exception")[1]
        frame = call(built.as_bytes, clause="near_twin_serialise_no_exception")[1]
        wire = _wire(tw, level, frame)
        outer, inner = _parse_level(level, wire, "near_twin_parse_no_exception")
        _expect_parsed("near_twin_parsed_before_the_judged_pdu", j, tw, level, outer, inner, wire)
        kept.append((tw, level, outer, inner, wire))
    return kept


def _twin_bucket(oracle):
    """failures of a case that carries near-twins get their own clause ids (".._with_near_twins_parsed_first"): the history that
    produced them is inside the case, so the stored case replays on its own; the same clause failing on a case without twins is
    either independent of any history or points at state left by an earlier case of the process"""
    import functools

    @functools.wraps(oracle)
    def wrapped(case):
        try:
            return oracle(case)
        except Fail as f:
            if case.get("twins") and "near_twin" not in f.clause:
                f.clause = f.clause + "_with_near_twins_parsed_first"
            raise

    return wrapped


def oracle_pdu(case):
    twins = _roundtrip_twins(case)
    _oracle_pdu(case)
    for j, (tw, level, outer, inner, wire) in enumerate(twins):
        _expect_parsed("near_twin_kept_while_the_judged_pdu_was_handled", j, tw, level, outer, inner, wire)


def _oracle_pdu(case):
    from okdmr.dmrlib.hytera.pdu.hdap import HDAP
    from okdmr.dmrlib.hytera.pdu.hrnp import HRNP, HRNPOpcodes
    from okdmr.dmrlib.hytera.pdu.hstrp import HSTRP

    # ---- bare PDU
    pdu = call(build_pdu, case, clause="build_no_exception")[1]
    built = field_dump(pdu)
    frame = call(pdu.as_bytes, clause="serialise_no_exception")[1]
    if not isinstance(frame, bytes):
        raise Fail("as_bytes_returns_bytes", type(frame).__name__, "bytes")
    frame_2 = call(pdu.as_bytes, clause="serialise_no_exception")[1]
    if frame_2 != frame:
        raise Fail("serialise_twice_same_octets", frame_2.hex(), frame.hex())
    _unchanged("serialising_leaves_the_pdu_unchanged", pdu, built)
    n = _reported_len(pdu, "serialise_no_exception", len(frame))
    if n != len(frame):
        raise Fail("len_equals_octets_produced", n, len(frame))
    check_hdap_frame(case, frame, "")
    want_payload = expected_payload(case)
    if want_payload is not None and frame[5:-2] != want_payload:
        raise Fail("payload_octets_equal_layout_reference", frame[5:-2].hex(), want_payload.hex())
    back = call(HDAP.from_bytes, frame, clause="parse_no_exception")[1]
    if type(back) is not type(pdu):
        raise Fail("parse_gives_same_class", type(back).__name__, type(pdu).__name__)
    again = call(back.as_bytes, clause="reserialise_no_exception")[1]
    if again != frame:
        raise Fail("reencode_equal_octets", again.hex(), frame.hex())
    expect_equal_fields("roundtrip_fields_equal", back, pdu, expected_pdu_fields(case))
    # fixed point must be stable: the same octets parse to the same fields again, the same parsed object serialises the same again
    back_2 = call(HDAP.from_bytes, frame, clause="parse_no_exception")[1]
    expect_equal_fields("parse_twice_same_fields", back_2, back, expected_pdu_fields(case))
    again_2 = call(back.as_bytes, clause="reserialise_no_exception")[1]
    if again_2 != again:
        raise Fail("reserialise_twice_same_octets", again_2.hex(), again.hex())

    # ---- nested in HRNP (DATA)
    h = case["hrnp"]
    hp = call(HRNP, data=pdu, opcode=HRNPOpcodes.DATA, source=h["src"], destination=h["dst"], block_number=h["block"],
              packet_number=h["pn"], version=h["version"], clause="hrnp_build_no_exception")[1]
    hb = call(hp.as_bytes, clause="hrnp_serialise_no_exception")[1]
    want = ref.hrnp_frame(h["version"], h["block"], ref.HRNP_OPCODES["DATA"], h["src"], h["dst"], h["pn"], frame)
    if hb[:8] != want[:8]:
        raise Fail("hrnp_header_octets", hb[:8].hex(), want[:8].hex())
    if hb[8:10] != want[8:10]:
        raise Fail("hrnp_length_field_equals_total_octets", hb[8:10].hex(), want[8:10].hex())
    if hb[12:] != frame:
        raise Fail("hrnp_carries_the_pdu_octets", hb[12:].hex(), frame.hex())
    if hb[10:12] != want[10:12]:
        raise Fail("hrnp_checksum_reproduced", hb[10:12].hex(), want[10:12].hex())
    if _reported_len(hp, "hrnp_serialise_no_exception", len(hb)) != len(hb):
        raise Fail("hrnp_len_equals_octets_produced", len(hp), len(hb))
    hback = call(HRNP.from_bytes, hb, clause="hrnp_parse_no_exception")[1]
    if getattr(hback, "checksum_correct", True) is not True:
        raise Fail("hrnp_checksum_verifies_after_parse", hback.checksum_correct, True)
    if type(hback.data) is not type(pdu):
        raise Fail("hrnp_parse_gives_same_class", type(hback.data).__name__, type(pdu).__name__)
    hagain = call(hback.as_bytes, clause="hrnp_reserialise_no_exception")[1]
    if hagain != hb:
        raise Fail("hrnp_reencode_equal_octets", hagain.hex(), hb.hex())
    expect_equal_fields("hrnp_roundtrip_fields_equal", hback, hp, expected_hrnp_fields(h, "DATA", expected_pdu_fields(case)), ignore=("checksum_correct",))

    # ---- nested in HSTRP with options
    env = case["hstrp"]
    sp = call(build_hstrp, env, pdu, clause="hstrp_build_no_exception")[1]
    sb = call(sp.as_bytes, clause="hstrp_serialise_no_exception")[1]
    opts = [(ref.HSTRP_OPTION_TYPES[name], bytes.fromhex(data)) for name, data in env["options"]]
    want = ref.hstrp_frame(env["version"], env["flags"], env["sn"], opts, frame)
    if sb[:6] != want[:6]:
        raise Fail("hstrp_header_octets", sb[:6].hex(), want[:6].hex())
    n_opt = len(ref.hstrp_options(opts))
    if sb[6 : 6 + n_opt] != want[6 : 6 + n_opt] or len(sb) != len(want):
        raise Fail("hstrp_option_chain", sb[6 : len(sb) - len(frame)].hex(), want[6 : 6 + n_opt].hex())
    if sb[6 + n_opt :] != frame:
        raise Fail("hstrp_carries_the_pdu_octets", sb[6 + n_opt :].hex(), frame.hex())
    if _reported_len(getattr(sp, "options", None), "hstrp_serialise_no_exception", n_opt) != n_opt:
        raise Fail("hstrp_options_len_equals_octets_produced", len(sp.options), n_opt)
    sback = call(HSTRP.from_bytes, sb, clause="hstrp_parse_no_exception")[1]
    if sback is None:
        raise Fail("hstrp_parse_gives_object", None, "HSTRP")
    if type(sback.payload) is not type(pdu):
        raise Fail("hstrp_parse_gives_same_class", type(sback.payload).__name__, type(pdu).__name__)
    sagain = call(sback.as_bytes, clause="hstrp_reserialise_no_exception")[1]
    if sagain != sb:
        raise Fail("hstrp_reencode_equal_octets", sagain.hex(), sb.hex())
    expect_equal_fields("hstrp_roundtrip_fields_equal", sback, sp, expected_hstrp_fields(env, expected_pdu_fields(case)))

    # ---- the same inner object in a second, different HRNP / HSTRP wrapper; wrappers and inner object stay as they were
    h2 = {"version": (h["version"] + 1) % 5, "block": h["block"] ^ 0xFF, "src": h["dst"], "dst": h["src"], "pn": h["pn"] ^ 0xFFFF}
    hp2 = call(HRNP, data=pdu, opcode=HRNPOpcodes.DATA, source=h2["src"], destination=h2["dst"], block_number=h2["block"],
               packet_number=h2["pn"], version=h2["version"], clause="hrnp_build_no_exception")[1]
    hb2 = call(hp2.as_bytes, clause="hrnp_serialise_no_exception")[1]
    want2 = ref.hrnp_frame(h2["version"], h2["block"], ref.HRNP_OPCODES["DATA"], h2["src"], h2["dst"], h2["pn"], frame)
    if hb2 != want2:
        raise Fail("hrnp_second_wrapper_of_same_pdu_equals_reference", hb2.hex(), want2.hex())
    for clause, fn, first in (("hrnp_serialise_twice_same_octets", hp.as_bytes, hb), ("hrnp_reserialise_twice_same_octets", hback.as_bytes, hb),
                              ("hstrp_serialise_twice_same_octets", sp.as_bytes, sb), ("hstrp_reserialise_twice_same_octets", sback.as_bytes, sb)):
        second = call(fn, clause=clause.replace("twice_same_octets", "no_exception"))[1]
        if second != first:
            raise Fail(clause, second.hex(), first.hex())
    env2 = dict(env, sn=env["sn"] ^ 0xFFFF, version=env["version"] ^ 0xFF, options=list(reversed(env["options"])))
    sb2 = call(call(build_hstrp, env2, pdu, clause="hstrp_build_no_exception")[1].as_bytes, clause="hstrp_serialise_no_exception")[1]
    want2 = ref.hstrp_frame(env2["version"], env2["flags"], env2["sn"], list(reversed(opts)), frame)
    if sb2 != want2:
        raise Fail("hstrp_second_wrapper_of_same_pdu_equals_reference", sb2.hex(), want2.hex())
    frame_3 = call(pdu.as_bytes, clause="serialise_no_exception")[1]
    if frame_3 != frame:
        raise Fail("inner_pdu_octets_unchanged_by_wrappers", frame_3.hex(), frame.hex())
    _unchanged("inner_pdu_fields_unchanged_by_wrappers", pdu, built)


oracle_pdu = _twin_bucket(oracle_pdu)


def _reported_len(obj, clause: str, default: int) -> int:
    """len(obj) when the class reports a length, else ``default`` (a class without __len__ is not a violation)"""
    if obj is None or not hasattr(type(obj), "__len__"):
        SKIPPED.add(f"{type(obj).__name__}.__len__")
        return default
    return call(len, obj, clause=clause)[1]


def _drain_skipped(sub: str, t):
    for name in sorted(SKIPPED):
        t.cls(sub, "skipped_attribute_absent_on_one_side." + name)
    SKIPPED.clear()


def _unchanged(clause: str, obj, before):
    d = first_diff(field_dump(obj), before)
    if d:
        raise Fail(clause, observed={"path": d[0], "now": d[1]}, expected={"path": d[0], "before": d[2]})


def oracle_transport(case):
    """HRNP control packets (no data) and HSTRP datagrams without application payload."""
    from okdmr.dmrlib.hytera.pdu.hrnp import HRNP, HRNPOpcodes
    from okdmr.dmrlib.hytera.pdu.hstrp import HSTRP

    if case["kind"] == "hrnp":
        h = case["hrnp"]
        hp = call(HRNP, data=None, opcode=HRNPOpcodes[h["opcode"]], source=h["src"], destination=h["dst"], block_number=h["block"],
                  packet_number=h["pn"], version=h["version"])[1]
        hb = call(hp.as_bytes)[1]
        want = ref.hrnp_frame(h["version"], h["block"], ref.HRNP_OPCODES[h["opcode"]], h["src"], h["dst"], h["pn"], b"")
        if hb != want:
            raise Fail("hrnp_control_equals_reference", hb.hex(), want.hex())
        if _reported_len(hp, "no_unexpected_exception", len(hb)) != len(hb):
            raise Fail("hrnp_len_equals_octets_produced", len(hp), len(hb))
        hback = call(HRNP.from_bytes, hb)[1]
        if getattr(hback, "checksum_correct", True) is not True:
            raise Fail("hrnp_checksum_verifies_after_parse", hback.checksum_correct, True)
        if call(hback.as_bytes)[1] != hb:
            raise Fail("hrnp_reencode_equal_octets", hback.as_bytes().hex(), hb.hex())
        expect_equal_fields("hrnp_roundtrip_fields_equal", hback, hp, expected_hrnp_fields(h, h["opcode"], None), ignore=("checksum_correct",))
        for clause, fn in (("hrnp_serialise_twice_same_octets", hp.as_bytes), ("hrnp_reserialise_twice_same_octets", hback.as_bytes)):
            if call(fn)[1] != hb:
                raise Fail(clause, fn().hex(), hb.hex())
    else:
        env = case["hstrp"]
        sp = call(build_hstrp, env, None)[1]
        sb = call(sp.as_bytes)[1]
        opts = [(ref.HSTRP_OPTION_TYPES[name], bytes.fromhex(data)) for name, data in env["options"]]
        want = ref.hstrp_frame(env["version"], env["flags"], env["sn"], opts, b"")
        if sb != want:
            raise Fail("hstrp_datagram_equals_reference", sb.hex(), want.hex())
        sback = call(HSTRP.from_bytes, sb)[1]
        if sback is None:
            raise Fail("hstrp_parse_gives_object", None, "HSTRP")
        if call(sback.as_bytes)[1] != sb:
            raise Fail("hstrp_reencode_equal_octets", sback.as_bytes().hex(), sb.hex())
        expect_equal_fields("hstrp_roundtrip_fields_equal", sback, sp, expected_hstrp_fields(env, None))
        for clause, fn in (("hstrp_serialise_twice_same_octets", sp.as_bytes), ("hstrp_reserialise_twice_same_octets", sback.as_bytes)):
            if call(fn)[1] != sb:
                raise Fail(clause, fn().hex(), sb.hex())


# ------------------------------------------------------------------------------------------------------ strategies


def _strategies():
    import random

    from hypothesis import strategies as st

    from okdmr.dmrlib.etsi.layer3.elements.talker_alias_data_format import TalkerAliasDataFormat
    from okdmr.dmrlib.hytera.pdu import location_protocol as lp
    from okdmr.dmrlib.hytera.pdu import radio_control_protocol as rcp
    from okdmr.dmrlib.hytera.pdu import radio_registration_service as rrs
    from okdmr.dmrlib.hytera.pdu import text_message_protocol as tmp

    def names(e, exclude=()):
        return st.sampled_from([m.name for m in e if m.name not in exclude])

    u8, u16, u24, u32 = st.integers(0, 255), st.integers(0, 0xFFFF), st.integers(0, 2**24 - 1), st.integers(0, 2**32 - 1)
    rid32 = st.one_of(u24, st.integers(2**24, 2**32 - 1), st.sampled_from([0, 1, 2**24 - 1, 2**24, 2**32 - 1]))
    hexb = lambda lo, hi: st.binary(min_size=lo, max_size=hi).map(bytes.hex)
    ip = st.fixed_dictionaries({"subnet": st.one_of(st.just(10), u8), "id": u24})
    S = {}

    # ---- RRS
    for op in RRS_OPS:
        f = {"ip": ip}
        if op == "RadioRegistrationAnswer":
            f.update(result=names(rrs.RRSResult), renew=st.integers(1, 0xFFFE))
        if op == "RegistrationStatusCheckAnswer":
            f.update(state=names(rrs.RRSRadioState))
        S[("RRS", op)] = st.fixed_dictionaries(f)

    # ---- LP
    lat = st.one_of(st.tuples(st.integers(0, 89), st.integers(0, 599999)).map(lambda t: t[0] * 1000000 + t[1]), st.just(90 * 1000000))
    lon = st.one_of(st.tuples(st.integers(0, 179), st.integers(0, 599999)).map(lambda t: t[0] * 1000000 + t[1]), st.just(180 * 1000000))
    speed = st.one_of(
        st.just(0),
        st.integers(1, 99).map(lambda k: k * 10),  # d.d knots: the three-character form seen in captures
        st.integers(1, 99).map(lambda k: k * 10),
        st.integers(100, 9999).map(lambda k: k * 10),  # >= 10 knots, one decimal
        st.integers(1, 99999),  # two decimals
    )
    gps = st.fixed_dictionaries({
        "valid": st.sampled_from(["A", "V"]),
        "time": st.one_of(st.none(), st.tuples(st.integers(0, 23), st.integers(0, 59), st.integers(0, 59)).map(list)),
        "date": st.one_of(st.none(), st.dates(min_value=datetime.date(2000, 1, 1), max_value=datetime.date(2099, 12, 31)).map(lambda d: [d.year, d.month, d.day])),
        "ns": st.sampled_from(["N", "S"]), "lat": lat, "ew": st.sampled_from(["E", "W"]), "lon": lon,
        "speed": speed, "dir": st.integers(0, 359),
    })
    S[("LP", "StandardRequest")] = st.fixed_dictionaries({"request_id": u32, "ip": ip})
    S[("LP", "StandardReport")] = st.fixed_dictionaries({"request_id": u32, "ip": ip, "result": names(lp.LocationProtocolResultCodes), "gps": gps})

    # ---- TMP
    marked = lambda mx: st.builds(lambda a, m, b: (a + bytes.fromhex(m) + b)[:mx].hex(), st.binary(max_size=16), st.sampled_from(SPECIAL_OCTETS), st.binary(max_size=8))
    option = st.one_of(st.none(), st.none(), st.just(""), hexb(1, 12), hexb(0, 40), marked(40))
    for op in TMP_OPS:
        f = {"confirmed": st.booleans(), "option": option, "request_id": u32, "dst": ip}
        if op not in ("SendGroupMessageAck", "GroupShortDataAck"):
            f["src"] = ip
        if op in ("SendPrivateMessage", "SendGroupMessage"):
            plain = st.one_of(st.text(max_size=40), st.text(alphabet=st.characters(min_codepoint=32, max_codepoint=126), max_size=120))
            f["text"] = st.one_of(plain, plain, st.builds(lambda a, c, b: a + c + b, st.text(max_size=8), st.sampled_from(SPECIAL_CHARS), st.text(max_size=8)),
                                  st.lists(st.sampled_from(SPECIAL_CHARS + ["a", "Z"]), max_size=8).map("".join))
        elif op in ("PrivateShortData", "GroupShortData"):
            f["short"] = st.one_of(hexb(0, 60), hexb(0, 60), marked(60))
        else:
            f["result"] = names(tmp.TMPResultCodes)
        S[("TMP", op)] = st.fixed_dictionaries(f)

    # ---- RCP
    defined = {m.value for m in rcp.RCPOpcode}
    result = names(rcp.RCPResult)
    call_type = names(rcp.RCPCallType)
    R = {
        "UnknownService": {"raw_opcode": u16.filter(lambda v: v not in defined).map(lambda v: v.to_bytes(2, "little").hex()), "raw_payload": st.one_of(hexb(0, 64), hexb(0, 64), marked(64))},
        "CallRequest": {"call_type": call_type, "target_id": rid32},
        "CallReply": {"result": result},
        "RepeaterBroadcastTransmitStatus": {"mode": names(rcp.RepeaterMode), "status": names(rcp.RepeaterStatus), "service": names(rcp.RepeaterServiceType),
                                            "call_type": call_type, "target_id": rid32, "sender_id": rid32},
        "BroadcastMessageConfigurationRequest": {"broadcast_type": st.one_of(st.integers(0, 7), u8)},
        "BroadcastMessageConfigurationReply": {"result": result},
        "RadioIDAndRadioIPQueryRequest": {"target": names(rcp.RadioIpIdTarget)},
        "RadioIDAndRadioIPQueryReply": {"result": result, "target": names(rcp.RadioIpIdTarget), "raw_value": hexb(4, 4)},
        "BroadcastStatusConfigurationRequest": {"config": st.one_of(st.integers(0, 6), u8).flatmap(lambda n: st.binary(min_size=2 * n, max_size=2 * n).map(lambda b, n=n: (bytes([n]) + b).hex()))},
        "BroadcastStatusConfigurationReply": {"result": result},
        "SendTalkerAliasRequest": {"call_type": call_type, "sender_id": rid32, "target_id": rid32, "alias_format": names(TalkerAliasDataFormat),
                                   "alias": st.one_of(hexb(0, 31), hexb(0, 255), hexb(255, 255), marked(255))},
        "SendTalkerAliasReply": {"result": result, "call_type": call_type, "sender_id": rid32, "target_id": rid32},
        "ZoneAndChannelOperationRequest": {"raw_payload": hexb(5, 5)},
        "ZoneAndChannelOperationReply": {"raw_payload": hexb(12, 12)},
        "StatusChangeNotificationRequest": {"settings": st.lists(st.tuples(names(rcp.StatusChangeNotificationTargets), names(rcp.StatusChangeNotificationSetting)).map(list),
                                                                 max_size=28, unique_by=lambda ts: ts[0])},
        "StatusChangeNotificationReply": {"result": result},
        "RadioStatusReport": {"status_target": names(rcp.StatusChangeNotificationTargets), "status_value": u16},
    }
    assert set(R) == set(RCP_OPS)
    for op, f in R.items():
        S[("RCP", op)] = st.fixed_dictionaries(f)

    # ---- envelopes
    hrnp = st.fixed_dictionaries({"version": st.integers(0, 4), "block": u8, "src": st.one_of(st.just(0x20), u8), "dst": st.one_of(st.just(0x10), u8), "pn": u16})
    natural = {"RTP": 0, "DeviceID": 4, "ChannelID": 1, "XPTSiteID": 1, "XPTIndex": 1, "XPTChannelType": 1}
    opt = st.sampled_from(sorted(natural)).flatmap(lambda nm: st.tuples(st.just(nm), st.one_of(hexb(natural[nm], natural[nm]), hexb(0, 8))).map(list))
    options = st.lists(opt, max_size=4)

    def envelope(with_heartbeat_only_without_options=True):
        def mk(opts, r, c, n, hb, a, sn, ver):
            return {"version": ver, "sn": sn, "options": opts,
                    "flags": {"have_options": len(opts) > 0, "is_reject": r, "is_close": c, "is_connect": n, "is_heartbeat": hb and not opts, "is_ack": a}}

        return st.builds(mk, options, st.booleans(), st.booleans(), st.booleans(), st.booleans(), st.booleans(), st.one_of(st.integers(0, 255), u16), st.one_of(st.just(0), u8))

    hstrp = envelope()

    def pdu_cases(proto, op, twins: bool = False):
        base = st.fixed_dictionaries({"proto": st.just(proto), "op": st.just(op), "rel": st.booleans(), "f": S[(proto, op)], "hrnp": hrnp, "hstrp": hstrp})
        if not twins:
            return base

        def add_twins(t):
            case, n, seed = t
            return with_twins(random.Random(seed), case, n)

        return st.tuples(base, st.sampled_from([0, 0, 0, 1, 1, 2]), st.integers(0, 2**32 - 1)).map(add_twins)

    hrnp_ctl = st.fixed_dictionaries({"version": st.integers(0, 4), "block": u8, "src": u8, "dst": u8, "pn": u16,
                                      "opcode": st.sampled_from([k for k in ref.HRNP_OPCODES if k != "DATA"])})

    def double_carry(args):
        """boundary-directed: choose the packet number so that the ones-complement sum needs a second end-around carry
        (sum = c*65536 + (65536 - c .. 65535)); computed with the reference only.  Falls back to the drawn packet number."""
        h, pick = args
        s0 = (0x7E00 | h["version"]) + ((h["block"] << 8) | ref.HRNP_OPCODES[h["opcode"]]) + ((h["src"] << 8) | h["dst"]) + 12
        targets = [(c << 16) + 0xFFFF - k - s0 for c in range(1, 5) for k in range(c)]
        targets = [t for t in targets if 0 <= t <= 0xFFFF]
        return dict(h, pn=targets[pick % len(targets)]) if targets else h

    hrnp_ctl = st.one_of(hrnp_ctl, hrnp_ctl, st.tuples(hrnp_ctl, st.integers(0, 9)).map(double_carry))
    transport = st.one_of(
        st.fixed_dictionaries({"kind": st.just("hrnp"), "hrnp": hrnp_ctl}),
        st.fixed_dictionaries({"kind": st.just("hstrp"), "hstrp": hstrp}),
    )
    return pdu_cases, transport


# ----------------------------------------------------------------------------------------------------- tallying


def speed_text_len(speed_hundredths: int) -> int:
    """number of characters of the shortest decimal text of the speed (the form '%03' formatting of a float gives)"""
    return len(format(speed_hundredths / 100, "03"))


def classify(case):
    p, op, f = case["proto"], case["op"], case["f"]
    cls = [f"{p}.{op}"]
    nt = bool(case["rel"] or case["hstrp"]["options"])
    if p == "TMP":
        cls.append("tmp_option_" + ("none" if f["option"] is None else "empty" if f["option"] == "" else "data"))
        nt = nt or f["confirmed"] or f["option"] is not None or bool(f.get("text") or f.get("short"))
        tx = f.get("text")
        if tx:
            if tx[0] in "\ufeff\ufffe":
                cls.append("text_starts_with_bom")
            elif any(c in tx for c in "\ufeff\ufffe\ufffd\x00\x03\u047e\u4232\r\n") or tx != tx.strip():
                cls.append("text_with_special_character")
    if p == "LP" and op == "StandardReport":
        s = f["gps"]["speed"]
        cls.append("gps_speed_" + ("zero" if s == 0 else "3_chars" if speed_text_len(s) == 3 else "over_3_chars"))
        cls.append("gps_time_" + ("nul" if f["gps"]["time"] is None else "set") + "_date_" + ("nul" if f["gps"]["date"] is None else "set"))
        nt = True
    if p == "RCP":
        nt = nt or any(f.get(k) for k in ("raw_payload", "alias", "settings")) or len(f.get("config", "00")) > 2
        if any(v >= 2**24 for k, v in f.items() if k in ("target_id", "sender_id")):
            cls.append("rcp_id_above_24_bit")
    cls.append(f"hstrp_options_{len(case['hstrp']['options'])}")
    if case.get("twins"):
        cls.append("near_twins_parsed_first")
    if case["rel"]:
        cls.append("reliable")
    blob = "".join(str(f.get(k) or "") for k in ("short", "option", "raw_payload", "alias"))
    if any(m in blob for m in ("7e04", "3242", "fffe", "efbbbf")):
        cls.append("octets_with_frame_marker_or_bom")
    return nt, cls


def record_pdu(sub):
    def rec(case, t: Tally):
        nt, cls = classify(case)
        t.case(sub, key=case, nontrivial=nt, cls=cls[0])
        for c in cls[1:]:
            t.cls(sub, c)
        _drain_skipped(sub, t)

    return rec


def record_transport(case, t: Tally):
    _drain_skipped("transport", t)
    if case["kind"] == "hrnp":
        h = case["hrnp"]
        t.case("transport", key=case, nontrivial=True, cls="hrnp." + h["opcode"])
        s = (0x7E00 | h["version"]) + ((h["block"] << 8) | ref.HRNP_OPCODES[h["opcode"]]) + ((h["src"] << 8) | h["dst"]) + h["pn"] + 12
        if (s & 0xFFFF) + (s >> 16) > 0xFFFF:
            t.cls("transport", "hrnp.checksum_needs_second_carry")
    else:
        env = case["hstrp"]
        t.case("transport", key=case, nontrivial=bool(env["options"]) or any(env["flags"].values()), cls=f"hstrp.options_{len(env['options'])}")


# ------------------------------------------------------------------------------ deterministic boundary pass (quick + thorough)
#
# Not left to Hypothesis' bias: for every opcode two seeded background cases; on each background, one at a time,
#   * every integer field (PDU fields, HRNP header, HSTRP envelope) at {min, min+1, max-1, max, top bit only} (+ 2^24-1 / 2^24
#     for 32-bit ids, 0xFF / 0x100 for 16-bit numbers), GPS fields at their own edges,
#   * every variable-length field at {0, 1, 127, 128, 255, 256, ...} and at the lengths that put 0x00 / 0xFF into the low or
#     the high octet of the HDAP length field, of the TMP option-length field and of the HRNP total-length field, up to the
#     largest PDU an HRNP packet can carry (HDAP payload 65516 octets),
#   * the HDAP checksum octet steered to 0x00 and 0xFF, the HRNP checksum steered to 0x0000 / 0x0001 / 0xFFFE and into the
#     double-carry class (one free octet / the packet number solved on the reference),
#   * HSTRP option lists: none, one of every type, the same option repeated, 16 options, option data of 0/1/127/128/255 octets.

EDGE_LEN = [255, 256, 257, 511, 512] + [t - 19 for t in (0xFF, 0x100, 0x1FF, 0x200)]  # HDAP payload lengths with 0x00 / 0xFF in the low octet of
#                                                                        the HDAP length field / of the HRNP total length (= payload + 19)
HUGE_LEN = [0xFEFF, 0xFF00, 0xFF00 - 19, 65516]  # ... in the high octet; 65516 = largest HDAP payload an HRNP packet can carry (total 0xFFFF)
HUGE_OPS = ("PrivateShortData", "SendPrivateMessageAck", "SendPrivateMessage", "UnknownService")  # one opcode per shape gets the 64 KiB cases


def _lens(op):
    return EDGE_LEN + (HUGE_LEN if op in HUGE_OPS else [])


PLAIN = [0, 1, 127, 128, 255, 256, 300]


def _enum_names():
    from okdmr.dmrlib.etsi.layer3.elements.talker_alias_data_format import TalkerAliasDataFormat
    from okdmr.dmrlib.hytera.pdu import location_protocol as lp
    from okdmr.dmrlib.hytera.pdu import radio_control_protocol as rcp
    from okdmr.dmrlib.hytera.pdu import radio_registration_service as rrs
    from okdmr.dmrlib.hytera.pdu import text_message_protocol as tmp

    n = lambda e: [m.name for m in e]
    return {"rrs_result": n(rrs.RRSResult), "rrs_state": n(rrs.RRSRadioState), "lp_result": n(lp.LocationProtocolResultCodes), "tmp_result": n(tmp.TMPResultCodes),
            "rcp_result": n(rcp.RCPResult), "call_type": n(rcp.RCPCallType), "mode": n(rcp.RepeaterMode), "status": n(rcp.RepeaterStatus),
            "service": n(rcp.RepeaterServiceType), "ip_target": n(rcp.RadioIpIdTarget), "alias_format": n(TalkerAliasDataFormat),
            "sc_target": n(rcp.StatusChangeNotificationTargets), "sc_setting": n(rcp.StatusChangeNotificationSetting),
            "rcp_defined": sorted(m.value for m in rcp.RCPOpcode)}


NATURAL_OPTION_LEN = {"RTP": 0, "DeviceID": 4, "ChannelID": 1, "XPTSiteID": 1, "XPTIndex": 1, "XPTChannelType": 1}


def _rand_envelopes(rng):
    opts = [[nm, rng.randbytes(NATURAL_OPTION_LEN[nm]).hex()] for nm in rng.sample(sorted(NATURAL_OPTION_LEN), rng.choice([0, 0, 1, 2, 3]))]
    hb = rng.random() < 0.2 and not opts
    hrnp = {"version": rng.randrange(5), "block": rng.randrange(256), "src": rng.randrange(256), "dst": rng.randrange(256), "pn": rng.randrange(65536)}
    hstrp = {"version": rng.choice([0, rng.randrange(256)]), "sn": rng.randrange(65536), "options": opts,
             "flags": {"have_options": bool(opts), "is_reject": rng.random() < 0.2, "is_close": rng.random() < 0.2, "is_connect": rng.random() < 0.2,
                       "is_heartbeat": hb, "is_ack": rng.random() < 0.3}}
    return hrnp, hstrp


def _rand_fields(rng, E, proto, op):
    ip = lambda: {"subnet": rng.choice([10, rng.randrange(256)]), "id": rng.randrange(2**24)}
    rhex = lambda lo, hi: rng.randbytes(rng.randint(lo, hi)).hex()
    rid = lambda: rng.choice([rng.randrange(2**24), rng.randrange(2**24, 2**32)])
    if proto == "RRS":
        f = {"ip": ip()}
        if op == "RadioRegistrationAnswer":
            f.update(result=rng.choice(E["rrs_result"]), renew=rng.randint(1, 0xFFFE))
        if op == "RegistrationStatusCheckAnswer":
            f.update(state=rng.choice(E["rrs_state"]))
        return f
    if proto == "LP":
        f = {"request_id": rng.randrange(2**32), "ip": ip()}
        if op == "StandardReport":
            f["result"] = rng.choice(E["lp_result"])
            f["gps"] = {"valid": rng.choice("AV"), "time": rng.choice([None, [rng.randrange(24), rng.randrange(60), rng.randrange(60)]]),
                        "date": rng.choice([None, [rng.randint(2000, 2099), rng.randint(1, 12), rng.randint(1, 28)]]), "ns": rng.choice("NS"),
                        "lat": rng.randrange(90) * 1000000 + rng.randrange(600000), "ew": rng.choice("EW"),
                        "lon": rng.randrange(180) * 1000000 + rng.randrange(600000), "speed": rng.choice([0, rng.randint(1, 99) * 10]), "dir": rng.randrange(360)}
        return f
    if proto == "TMP":
        f = {"confirmed": rng.random() < 0.5, "option": rng.choice([None, None, "", rhex(1, 12)]), "request_id": rng.randrange(2**32), "dst": ip()}
        if op not in ("SendGroupMessageAck", "GroupShortDataAck"):
            f["src"] = ip()
        if op in ("SendPrivateMessage", "SendGroupMessage"):
            f["text"] = "".join(rng.choice("abcXYZ 019éЖ中\U0001F600") for _ in range(rng.randrange(0, 24)))
        elif op in ("PrivateShortData", "GroupShortData"):
            f["short"] = rhex(0, 24)
        else:
            f["result"] = rng.choice(E["tmp_result"])
        return f
    res, ct = (lambda: rng.choice(E["rcp_result"])), (lambda: rng.choice(E["call_type"]))
    if op == "UnknownService":
        v = rng.randrange(65536)
        while v in E["rcp_defined"]:
            v = rng.randrange(65536)
        return {"raw_opcode": v.to_bytes(2, "little").hex(), "raw_payload": rhex(0, 24)}
    if op == "CallRequest":
        return {"call_type": ct(), "target_id": rid()}
    if op in ("CallReply", "BroadcastMessageConfigurationReply", "BroadcastStatusConfigurationReply", "StatusChangeNotificationReply"):
        return {"result": res()}
    if op == "RepeaterBroadcastTransmitStatus":
        return {"mode": rng.choice(E["mode"]), "status": rng.choice(E["status"]), "service": rng.choice(E["service"]), "call_type": ct(), "target_id": rid(), "sender_id": rid()}
    if op == "BroadcastMessageConfigurationRequest":
        return {"broadcast_type": rng.randrange(256)}
    if op == "RadioIDAndRadioIPQueryRequest":
        return {"target": rng.choice(E["ip_target"])}
    if op == "RadioIDAndRadioIPQueryReply":
        return {"result": res(), "target": rng.choice(E["ip_target"]), "raw_value": rng.randbytes(4).hex()}
    if op == "BroadcastStatusConfigurationRequest":
        n = rng.randrange(0, 5)
        return {"config": (bytes([n]) + rng.randbytes(2 * n)).hex()}
    if op == "SendTalkerAliasRequest":
        return {"call_type": ct(), "sender_id": rid(), "target_id": rid(), "alias_format": rng.choice(E["alias_format"]), "alias": rhex(0, 31)}
    if op == "SendTalkerAliasReply":
        return {"result": res(), "call_type": ct(), "sender_id": rid(), "target_id": rid()}
    if op == "ZoneAndChannelOperationRequest":
        return {"raw_payload": rng.randbytes(5).hex()}
    if op == "ZoneAndChannelOperationReply":
        return {"raw_payload": rng.randbytes(12).hex()}
    if op == "StatusChangeNotificationRequest":
        return {"settings": [[t, rng.choice(E["sc_setting"])] for t in rng.sample(E["sc_target"], rng.randrange(0, 6))]}
    if op == "RadioStatusReport":
        return {"status_target": rng.choice(E["sc_target"]), "status_value": rng.randrange(65536)}
    raise HarnessError(f"no background generator for {proto}.{op}")


def _bvals(lo: int, hi: int):
    vals = [lo, lo + 1, hi - 1, hi, 1 << (hi.bit_length() - 1)]
    if hi == 2**32 - 1:
        vals += [2**24 - 1, 2**24]
    if hi == 0xFFFF:
        vals += [0xFF, 0x100]
    return sorted({v for v in vals if lo <= v <= hi})


F_INT = {"request_id": (0, 2**32 - 1), "renew": (1, 0xFFFE), "target_id": (0, 2**32 - 1), "sender_id": (0, 2**32 - 1), "broadcast_type": (0, 255), "status_value": (0, 0xFFFF)}
ENV_INT = {("hrnp", "version"): (0, 4), ("hrnp", "block"): (0, 255), ("hrnp", "src"): (0, 255), ("hrnp", "dst"): (0, 255), ("hrnp", "pn"): (0, 0xFFFF),
           ("hstrp", "version"): (0, 255), ("hstrp", "sn"): (0, 0xFFFF)}
GPS_EDGES = {
    "lat": [0, 1, 599999, 1000000, 9599999, 10000000, 89599999, 90000000],
    "lon": [0, 1, 599999, 1000000, 9599999, 10000000, 99599999, 100000000, 179599999, 180000000],
    "speed": [0, 10, 90, 100, 990],  # NUL form, 0.1, 0.9, 1.0, 9.9 knots: everything the three-character field can hold at its edges
    "dir": [0, 1, 9, 10, 99, 100, 358, 359],
    "time": [None, [0, 0, 0], [23, 59, 59], [0, 0, 1], [9, 9, 9]],
    "date": [None, [2000, 1, 1], [2099, 12, 31], [2000, 2, 29], [2009, 9, 9], [2010, 10, 10]],
}


def _with(case, path, value):
    import copy

    c = copy.deepcopy(case)
    d = c
    for k in path[:-1]:
        d = d[k]
    d[path[-1]] = value
    return c


def _int_variants(case):
    f = case["f"]
    for k, (lo, hi) in F_INT.items():
        if k in f:
            for v in _bvals(lo, hi):
                yield "int", _with(case, ("f", k), v)
    for ipk in ("ip", "dst", "src"):
        if ipk in f:
            for v in _bvals(0, 255):
                yield "int", _with(case, ("f", ipk, "subnet"), v)
            for v in _bvals(0, 2**24 - 1):
                yield "int", _with(case, ("f", ipk, "id"), v)
    if "gps" in f:
        for k, vals in GPS_EDGES.items():
            for v in vals:
                yield "gps", _with(case, ("f", "gps", k), v)
        for ns, ew, valid in (("N", "E", "A"), ("S", "W", "V")):
            yield "gps", _with(_with(_with(case, ("f", "gps", "ns"), ns), ("f", "gps", "ew"), ew), ("f", "gps", "valid"), valid)
    for (env, k), (lo, hi) in ENV_INT.items():
        for v in _bvals(lo, hi):
            yield "envelope_int", _with(case, (env, k), v)
    for rel in (False, True):
        yield "flag", _with(case, ("rel",), rel)
    if "confirmed" in f:
        for conf in (False, True):
            for opt in (None, "", "00", "ff" * 3):
                yield "flag", _with(_with(case, ("f", "confirmed"), conf), ("f", "option"), opt)


# characters / octets that codecs and framers treat specially (ROUND5 A.2, A.4)
SPECIAL_CHARS = [
    "\ufeff", "\ufffe", "\ufffd", "\uffff", "\x00", " ", "  ", "\t", "\r", "\n", "\r\n",
    "\x03", "\u0300", "\u0303",  # UTF-16-LE images 03 00 / 00 03 / 03 03 (HDAP end octet)
    "~", "\u7e00", "\u7e7e", "\u047e",  # 7e 00 / 00 7e / 7e 7e / 7e 04 (HRNP header + version)
    "\u4232",  # 32 42 = "2B" (HSTRP header)
    "\x09", "\u0900", "\x89", "\u8909", "\x02", "\x08", "\x11", "\u9111",  # HDAP service octets, plain and with the reliable bit
    "\U0001F600", "\U0010FFFF",
]
SPECIAL_OCTETS = ["fffe", "feff", "efbbbf", "00", "0000", "03", "0303", "7e", "7e04", "7e0400", "3242", "324200", "02", "82", "08", "88", "09", "89", "11", "91",
                  "0980a1", "ff", "ffff"]


def special_texts():
    out = []
    for c in SPECIAL_CHARS:
        out += [c, c + "abc", "ab" + c + "cd", "abc" + c, c + c, c + "abc" + c]
    return out


def special_octets(rng, max_len: int, min_len: int = 0):
    """marker octets alone, at the start, in the middle (offset >= 12 where it fits), near the end; constant fill; a short record
    repeated"""
    out = []
    for h in SPECIAL_OCTETS:
        m = bytes.fromhex(h)
        fill = rng.randbytes(24)
        for v in (m, m + fill[:5], fill[:3] + m + fill[:3], fill[:13] + m + fill[:6], fill[:20] + m, m + fill[:9] + m, m * 4):
            if min_len <= len(v) <= max_len:
                out.append(v.hex())
    for v in (b"\x00" * 16, b"\xff" * 16, b"\x03" * 16, b"\x7e\x04" * 8, bytes.fromhex("0a000001") * 4, rng.randbytes(5) * 5):
        if min_len <= len(v) <= max_len:
            out.append(v.hex())
    return out


def _special_variants(rng, E, case):
    p, op, f = case["proto"], case["op"], case["f"]
    if "text" in f:
        for tx in special_texts():
            yield "text_special", _with(case, ("f", "text"), tx)
        for tx in ("\ufeffabc", "ab\ufeff", "\x00", "\u047e\x03"):  # ... also with option data behind the text
            yield "text_special", _with(_with(case, ("f", "text"), tx), ("f", "option"), "fffe")
    for k, mx, mn in (("short", 64, 0), ("option", 64, 0), ("raw_payload", 64, 0), ("alias", 64, 0)):
        if k in f and not (p == "RCP" and op.startswith("ZoneAndChannel")):
            for v in special_octets(rng, mx, mn):
                yield "octets_special", _with(case, ("f", k), v)
    if op == "ZoneAndChannelOperationRequest" or op == "ZoneAndChannelOperationReply":
        n = 5 if op.endswith("Request") else 12
        for v in special_octets(rng, n, 1):
            yield "octets_special", _with(case, ("f", "raw_payload"), (bytes.fromhex(v) + bytes(n))[:n].hex())
    if "raw_value" in f:
        for v in ("fffe0000", "0000fffe", "7e040003", "32420003", "03030303", "00000000", "ffffffff", "efbbbf00"):
            yield "octets_special", _with(case, ("f", "raw_value"), v)
    if "config" in f:
        for v in special_octets(rng, 16, 2):
            b = bytes.fromhex(v)
            b = b[: len(b) // 2 * 2]
            yield "octets_special", _with(case, ("f", "config"), (bytes([len(b) // 2]) + b).hex())
    # marker octets inside HSTRP option data
    for v in ("03", "7e04", "3242", "fffe", "0980", "0000"):
        c = _with(case, ("hstrp", "options"), [["DeviceID", v + "00"], ["ChannelID", v]])
        c["hstrp"]["flags"]["have_options"] = True
        c["hstrp"]["flags"]["is_heartbeat"] = False
        yield "octets_special", c


def _length_variants(rng, E, case):
    p, op, f = case["proto"], case["op"], case["f"]
    rb = lambda n: rng.randbytes(n).hex()
    fill = lambda n: (bytes([rng.randrange(256)]) * n).hex()  # long fields: one repeated octet keeps replay files readable
    if p == "TMP":
        if "text" in f:
            for n in [0, 1, 63, 64, 127, 128, 255, 256, 300, 122, 250]:  # 122 / 250 chars: HDAP length 0x0100 / 0x0200
                yield "length", _with(_with(case, ("f", "text"), "".join(rng.choice("aZ9 é中") for _ in range(n))), ("f", "option"), None)
            yield "length", _with(case, ("f", "text"), "\U0001F600" * 64)  # surrogate pairs only
            if op in HUGE_OPS:
                yield "length", _with(_with(case, ("f", "text"), "x" * ((65516 - 12) // 2)), ("f", "option"), None)
        if "short" in f:
            for n in PLAIN:
                yield "length", _with(case, ("f", "short"), rb(n))
            for L in _lens(op):
                yield "length", _with(_with(case, ("f", "short"), fill(L - 12)), ("f", "option"), None)
        fixed = 2 + 4 + 4 + (4 if "src" in f else 0) + (1 if "result" in f else len(bytes.fromhex(f["short"])) if "short" in f else len(f["text"].encode("utf-16-le")))
        for n in PLAIN:
            yield "length", _with(case, ("f", "option"), rb(n))
        if "result" in f:  # acknowledgements: the option-length field and the HDAP length field at their octet edges through the option data
            for L in _lens(op):
                yield "length", _with(case, ("f", "option"), fill(L - fixed))
            for n in [0xFF, 0x100, 0x1FF, 0x200] + ([0xFEFF, 0xFF00] if op in HUGE_OPS else []):
                yield "length", _with(case, ("f", "option"), fill(n))
    if p == "RCP":
        if op == "UnknownService":
            for n in PLAIN:
                yield "length", _with(case, ("f", "raw_payload"), rb(n))
            for L in _lens(op):
                yield "length", _with(case, ("f", "raw_payload"), fill(L))
        if "alias" in f:
            for n in [0, 1, 127, 128, 244, 245, 254, 255]:  # 244 / 245: HDAP length 0x00ff / 0x0100 (little-endian)
                yield "length", _with(case, ("f", "alias"), rb(n))
        if "config" in f:
            for n in [0, 1, 127, 128, 254, 255]:  # 127 -> length 0x00ff, 255 -> 0x01ff
                yield "length", _with(case, ("f", "config"), (bytes([n]) + rng.randbytes(2 * n)).hex())
        if "settings" in f:
            for n in [0, 1, 2, len(E["sc_target"]) - 1, len(E["sc_target"])]:
                yield "length", _with(case, ("f", "settings"), [[t, rng.choice(E["sc_setting"])] for t in rng.sample(E["sc_target"], n)])
            yield "length", _with(case, ("f", "settings"), [[t, E["sc_setting"][i % len(E["sc_setting"])]] for i, t in enumerate(E["sc_target"])])


def _option_variants(rng, case):
    names = sorted(NATURAL_OPTION_LEN)
    nat = lambda nm: [nm, rng.randbytes(NATURAL_OPTION_LEN[nm]).hex()]
    lists = [[]] + [[nat(nm)] for nm in names]
    for nm in names:
        o = nat(nm)
        lists += [[o, o], [o] * 6]
    lists.append([nat(names[i % len(names)]) for i in range(16)])
    lists.append([nat(nm) for nm in names] + [nat(nm) for nm in reversed(names)])
    for n in (0, 1, 127, 128, 255):
        lists.append([["DeviceID", rng.randbytes(n).hex()]])
        lists.append([["ChannelID", rng.randbytes(n).hex()], ["RTP", ""], ["XPTIndex", rng.randbytes(n).hex()]])
    for opts in lists:
        c = _with(case, ("hstrp", "options"), opts)
        c["hstrp"]["flags"]["have_options"] = bool(opts)
        if opts:
            c["hstrp"]["flags"]["is_heartbeat"] = False
        yield "options", c


def _reference_frame(case):
    """HDAP frame of a case: from the layout reference where there is one, else (RCP) serialised by the library"""
    want = expected_payload(case)
    if want is not None:
        return ref.hdap_frame(case["proto"], case["rel"], expected_opcode_octets(case), want)
    try:
        return build_pdu(case).as_bytes()
    except Exception:
        return None


def _get(case, path):
    cur = case
    for k in path:
        cur = cur[k]
    return cur


def _steer_candidates(case):
    """(path, kind) of payload octets that can take any value: low octet of integer fields, first octet of octet-string fields"""
    f = case["f"]
    out = [(("f", k), "int") for k in ("request_id", "target_id", "sender_id", "status_value", "broadcast_type") if k in f]
    out += [(("f", k, "id"), "int") for k in ("ip", "dst", "src") if k in f]
    out += [(("f", k), "hex") for k in ("raw_value", "raw_payload", "alias", "short", "option") if f.get(k)]
    if len(f.get("config", "")) > 2:
        out.append((("f", "config"), "hex_last"))
    return out


def _steered(case, path, kind, target: int):
    """case with one free octet changed so that the reference HDAP checksum octet equals ``target`` (None when it does not work out)"""
    frame = _reference_frame(case)
    if frame is None:
        return None
    delta = (frame[-2] - target) & 0xFF
    cur = _get(case, path)
    if kind == "int":
        new = (cur & ~0xFF) | ((cur + delta) & 0xFF)
    else:
        b = bytearray.fromhex(cur)
        i = -1 if kind == "hex_last" else 0
        b[i] = (b[i] + delta) & 0xFF
        new = b.hex()
    c = _with(case, path, new)
    fr = _reference_frame(c)
    return c if fr is not None and fr[-2] == target else None


def _tail_candidates(case):
    """cases whose LAST payload octet may become 0x03 (the HDAP end octet): low / high octet of every integer field, last octet of
    every octet-string field, a text ending in U+0300 (UTF-16-LE 00 03)"""
    f = case["f"]
    for k, (lo, hi) in F_INT.items():
        if k in f:
            bits = hi.bit_length() + (-hi.bit_length()) % 8
            for v in ((f[k] & ~0xFF) | 0x03, (f[k] & ((1 << (bits - 8)) - 1)) | (0x03 << (bits - 8))):
                if lo <= v <= hi:
                    yield _with(case, ("f", k), v)
    for ipk in ("ip", "dst", "src"):
        if ipk in f:
            yield _with(case, ("f", ipk, "id"), (f[ipk]["id"] & ~0xFF) | 0x03)
            yield _with(case, ("f", ipk, "subnet"), 0x03)
    for k in ("raw_value", "raw_payload", "alias", "short", "option", "config"):
        if f.get(k) and not (k == "config" and len(f[k]) <= 2):
            yield _with(case, ("f", k), f[k][:-2] + "03")
    for k in ("short", "option", "raw_payload", "alias"):
        if k in f and f[k] == "":
            yield _with(case, ("f", k), "03")
    if "text" in f:
        yield _with(case, ("f", "text"), f["text"] + "\u0300")
    if "status_value" in f:
        yield _with(case, ("f", "status_value"), 0x0300 | (f["status_value"] & 0xFF))


def _checksum_variants(case):
    """computed trailer fields at values that collide with delimiters"""
    frame = _reference_frame(case)
    cands = _steer_candidates(case)
    if frame is not None and cands:
        # HDAP checksum octet -> 0x00 / 0xFF / 0x03 (end octet) / 0x7E (HRNP header) / the frame's own service octet
        for target in (0x00, 0xFF, 0x03, 0x7E, frame[0]):
            for path, kind in cands:
                c = _steered(case, path, kind, target)
                if c is not None:
                    yield "hdap_checksum_" + ("service_octet" if target == frame[0] and target not in (0, 0xFF, 3, 0x7E) else f"{target:02x}"), c
                    break
        # ... and checksum == 0x03 with the last payload octet == 0x03 as well (stripping the end octet greedily eats payload)
        done = False
        for tail in _tail_candidates(case):
            fr = _reference_frame(tail)
            if fr is None or fr[-3] != 0x03 or len(fr) < 8:
                continue
            for path, kind in _steer_candidates(tail):
                c = _steered(tail, path, kind, 0x03)
                if c is not None:
                    fr2 = _reference_frame(c)
                    if fr2[-3] == 0x03 and fr2[-2] == 0x03:
                        yield "hdap_payload_tail_and_checksum_03", c
                        done = True
                        break
            if done:
                break
    # HRNP checksum word -> 0x0000 / 0x0001 / 0xFFFE / 0x7E04 (header + version) / 0x0303 / 0x0003 / 0x0300 and the double-carry class,
    # by solving the packet number on the reference
    if frame is not None:
        h = case["hrnp"]
        for target in ("double_carry", 0x0000, 0x0001, 0xFFFE, 0x7E04, 0x0303, 0x0003, 0x0300):
            for pn in _solve_pn(h, frame, target):
                yield f"hrnp_checksum_{target if isinstance(target, str) else '%04x' % target}", _with(case, ("hrnp", "pn"), pn)
                break


def _hrnp_raw_sum(h, data: bytes, pn: int, opcode: int = 0) -> int:
    pkt = bytes([0x7E, h["version"], h["block"], opcode, h["src"], h["dst"]]) + pn.to_bytes(2, "big") + (12 + len(data)).to_bytes(2, "big") + bytes(data)
    if len(pkt) % 2:
        pkt += b"\x00"
    return sum((pkt[i] << 8) | pkt[i + 1] for i in range(0, len(pkt), 2))


def _solve_pn(h, data: bytes, target, opcode: int = 0):
    """packet numbers for which the reference HRNP checksum equals ``target`` (or whose sum needs a second end-around carry)"""
    s0 = _hrnp_raw_sum(h, data, 0, opcode)
    if target == "double_carry":
        for c in range(1, 64):
            for k in range(c):
                pn = (c << 16) + 0xFFFF - k - s0
                if 0 <= pn <= 0xFFFF:
                    yield pn
        return
    folded = s0
    while folded > 0xFFFF:
        folded = (folded & 0xFFFF) + (folded >> 16)
    want = (~target) & 0xFFFF
    for pn in sorted({(want - folded) % 0xFFFF, (want - folded) % 0xFFFF + 0xFFFF, (want - folded) & 0xFFFF}):
        if 0 <= pn <= 0xFFFF and ref.hrnp_frame(h["version"], h["block"], opcode, h["src"], h["dst"], pn, data)[10:12] == target.to_bytes(2, "big"):
            yield pn


def boundary_cases_pdu(rng, E, proto, op):
    for bg in range(2):
        hrnp, hstrp = _rand_envelopes(rng)
        base = {"proto": proto, "op": op, "rel": bool(bg), "f": _rand_fields(rng, E, proto, op), "hrnp": hrnp, "hstrp": hstrp}
        yield "background", base
        yield from _int_variants(base)
        yield from _length_variants(rng, E, base)
        yield from _special_variants(rng, E, base)
        yield from _checksum_variants(base)
        yield from _option_variants(rng, base)


def boundary_cases_transport(rng, part: str = "hrnp+hstrp"):
    for opcode in [k for k in ref.HRNP_OPCODES if k != "DATA" and "hrnp" in part]:
        for bg in range(2):
            h, _ = _rand_envelopes(rng)
            base = {"kind": "hrnp", "hrnp": dict(h, opcode=opcode)}
            yield "background", base
            for (env, k), (lo, hi) in ENV_INT.items():
                if env == "hrnp":
                    for v in _bvals(lo, hi):
                        yield "envelope_int", _with(base, ("hrnp", k), v)
            for target in ("double_carry", 0x0000, 0x0001, 0xFFFE, 0x7E04, 0x0303, 0x0003, 0x0300):
                for pn in _solve_pn(h, b"", target, ref.HRNP_OPCODES[opcode]):
                    yield f"hrnp_checksum_{target if isinstance(target, str) else '%04x' % target}", _with(base, ("hrnp", "pn"), pn)
                    break
    for bits in range(32 if "hstrp" in part else 0):
        _, env = _rand_envelopes(rng)
        env["flags"].update(is_reject=bool(bits & 1), is_close=bool(bits & 2), is_connect=bool(bits & 4), is_ack=bool(bits & 8), is_heartbeat=bool(bits & 16) and not env["options"])
        base = {"kind": "hstrp", "hstrp": env}
        yield "background", base
        for k in ("version", "sn"):
            for v in _bvals(*ENV_INT[("hstrp", k)]):
                yield "envelope_int", _with(base, ("hstrp", k), v)
        if bits % 8 == 0:
            yield from _option_variants(rng, base)


def run_boundary(ctx: Ctx, sub: SubCheck, items, gen):
    """items: shard keys; gen(rng, item) yields (class label, case).  Distinct by construction (duplicates are dropped)."""
    E = _enum_names()

    def work(item, t: Tally):
        rng = ctx.rng("boundary", sub.name, item)
        trng = ctx.rng("boundary-twins", sub.name, item)
        seen = set()
        n_sampled = 0
        for label, case in gen(rng, E, item):
            import json

            k = json.dumps(case, sort_keys=True)
            if k in seen:
                continue
            seen.add(k)
            if "proto" in case and (label == "background" or len(seen) % 5 == 0):
                case = with_twins(trng, case, 1 + len(seen) % 2)
                if case.get("twins"):
                    t.cls(sub.name, "near_twins_parsed_first")
            ctx.run_case(sub.name, sub.oracle, case, t)
            nt = classify(case)[0] if "proto" in case else True
            t.case(sub.name, nontrivial=nt, cls=f"boundary.{label}")
            _drain_skipped(sub.name, t)
            if len(k) < 1500 and n_sampled < 1 and label not in ("background",):
                t.sample(sub.name, case)
                n_sampled += 1

    ctx.shards(work, items)
    ctx.tally.notes.append(f"{sub.name}: deterministic boundary pass (every integer field at min/min+1/max-1/max/top bit, length-field octet edges, steered checksums, option lists) runs before the Hypothesis search")


# ------------------------------------------------------------------------------------- histories (objects kept alive)
#
# Sub-check 'histories': a case is a short history in ONE interpreter, not one PDU.
#   phase 0  one object per (protocol, opcode) of the history is built with as few constructor arguments as serialising needs
#            (everything else left to the constructor defaults); its field dump and octets are noted,
#   phase 1  item after item: build from fields, serialise (framing / layout reference), wrap by the REFERENCE assembly at the
#            item's level (bare HDAP / HRNP DATA / HSTRP with the item's options), parse with the library, compare the fields
#            with the generated values, re-serialise; all objects are KEPT; between two items an unrelated operation runs
#            (repr of everything kept, a truncated / cross-dispatched parse that is refused, a default-constructed object of the
#            same opcode, an unrelated captured frame, RadioIP of the same four octets in the other endianness),
#   phase 2  in another order: every kept parsed object still serialises to ITS OWN octets and still carries ITS OWN generated
#            fields, every kept built object is unchanged; the item's octets are parsed once more (A, B, A again),
#   phase 3  the same in the original order, then the minimal objects of phase 0 are built again: same fields, same octets as
#            before the history and as in a fresh interpreter (noted when this module was imported); the objects of phase 0
#            themselves are unchanged.
# Items of one history are near-twins: the same opcode with a different variable-length / optional part (other key set, empty,
# shorter, longer, same length other content, option data None / empty / some, GPS time / date / speed / course absent or set,
# other HSTRP option list), plus items of other opcodes of the same protocol.

LEVELS = ("bare", "hrnp", "hstrp")
BETWEEN_OPS = ("nothing", "repr_everything", "refused_truncated_parse", "refused_cross_dispatch", "default_object", "captured_frame", "radio_ip_siblings")


def minimal_object(proto: str, op: str):
    """an object of the opcode built with as few constructor arguments as serialising needs; all other parameters keep the
    constructor defaults"""
    from okdmr.dmrlib.hytera.pdu.radio_ip import RadioIP

    if proto == "RRS":
        from okdmr.dmrlib.hytera.pdu import radio_registration_service as m

        return m.RadioRegistrationService(opcode=m.RRSTypes[op], radio_ip=RadioIP(radio_id=1))
    if proto == "LP":
        from okdmr.dmrlib.hytera.pdu import location_protocol as m

        kw = {}
        if op == "StandardReport":
            kw["gpsdata"] = build_gps({"valid": "A", "time": [1, 2, 3], "date": [2020, 2, 29], "ns": "N", "lat": 50000000, "ew": "E", "lon": 14000000, "speed": 10, "dir": 7})
        return m.LocationProtocol(opcode=m.LocationProtocolSpecificService[op], request_id=1, radio_ip=RadioIP(radio_id=1), **kw)
    if proto == "TMP":
        from okdmr.dmrlib.hytera.pdu import text_message_protocol as m

        kw = {"result_code": m.TMPResultCodes.OK} if op.endswith("Ack") else {}
        return m.TextMessageProtocol(opcode=m.TMPService[op], source_ip=RadioIP(radio_id=2), destination_ip=RadioIP(radio_id=1), **kw)
    if proto == "RCP":
        from okdmr.dmrlib.etsi.layer3.elements.talker_alias_data_format import TalkerAliasDataFormat
        from okdmr.dmrlib.hytera.pdu import radio_control_protocol as m

        kw = {}
        if op == "UnknownService":
            kw["raw_opcode"] = b"\x34\x12"
        if op in ("CallRequest", "RepeaterBroadcastTransmitStatus", "SendTalkerAliasRequest", "SendTalkerAliasReply"):
            kw["target_id"] = 1
        if op in ("RepeaterBroadcastTransmitStatus", "SendTalkerAliasRequest", "SendTalkerAliasReply"):
            kw["sender_id"] = 2
        if op == "RepeaterBroadcastTransmitStatus":
            kw.update(repeater_mode=list(m.RepeaterMode)[0], repeater_status=list(m.RepeaterStatus)[0], repeater_service_type=list(m.RepeaterServiceType)[0])
        if op == "RadioIDAndRadioIPQueryReply":
            kw["raw_value"] = b"\x00\x00\x00\x01"
        if op == "SendTalkerAliasRequest":
            kw["talker_alias_format"] = list(TalkerAliasDataFormat)[0]
        return m.RadioControlProtocol(opcode=m.RCPOpcode[op], **kw)
    raise HarnessError(f"unknown protocol {proto}")


def _observe_minimal(proto: str, op: str, obj=None):
    """(field dump, octets | exception type name) of a minimal object (a fresh one unless ``obj`` is given)"""
    o = minimal_object(proto, op) if obj is None else obj
    try:
        octets = o.as_bytes().hex()
    except Exception as e:  # an opcode whose defaults cannot be serialised: the type of the refusal is the observation
        octets = f"raises {type(e).__name__}"
    return {"fields": field_dump(o), "octets": octets}


def _transport_minimal():
    from okdmr.dmrlib.hytera.pdu.hrnp import HRNP
    from okdmr.dmrlib.hytera.pdu.hstrp import HSTRP, HSTRPOptions, HSTRPPacketType

    out = {}
    for name, fn in (("HSTRPOptions", HSTRPOptions), ("HSTRPPacketType", HSTRPPacketType), ("HRNP", HRNP), ("HSTRP", lambda: HSTRP(pkt_type=HSTRPPacketType(), sn=0))):
        o = fn()
        out[name] = {"fields": field_dump(o), "octets": o.as_bytes().hex()}
    return out


def _fresh_interpreter_baseline():
    """what minimal objects look like before this process used the library for anything else (taken at import of this module)"""
    try:
        base = {f"{p}.{op}": _observe_minimal(p, op) for p, ops in OPS.items() for op in ops}
        base.update(_transport_minimal())
        return base
    except Exception:
        return None  # constructors of another shape (a refactored tree): the fresh-interpreter clause is skipped, the before/after clause stays


_BASELINE = _fresh_interpreter_baseline()


def _as_fresh(name: str, obs):
    ref_ = (_BASELINE or {}).get(name)
    d = first_diff(obs, ref_) if ref_ is not None else None
    if d:
        return Fail("history_starts_with_default_constructed_objects_as_in_fresh_interpreter", observed={"opcode": name, "path": d[0], "now": d[1]},
                    expected={"path": d[0], "fresh_interpreter": d[2]})
    return None


def _wire(item, level: str, frame: bytes) -> bytes:
    """the PDU octets wrapped by the reference assembly (independent of the library)"""
    if level == "hrnp":
        h = item["hrnp"]
        return ref.hrnp_frame(h["version"], h["block"], ref.HRNP_OPCODES["DATA"], h["src"], h["dst"], h["pn"], frame)
    if level == "hstrp":
        env = item["hstrp"]
        return ref.hstrp_frame(env["version"], env["flags"], env["sn"], [(ref.HSTRP_OPTION_TYPES[n], bytes.fromhex(d)) for n, d in env["options"]], frame)
    return frame


def _parse_level(level: str, wire: bytes, clause: str):
    """(outer object, inner PDU)"""
    from okdmr.dmrlib.hytera.pdu.hdap import HDAP
    from okdmr.dmrlib.hytera.pdu.hrnp import HRNP
    from okdmr.dmrlib.hytera.pdu.hstrp import HSTRP

    if level == "hrnp":
        o = call(HRNP.from_bytes, wire, clause=clause)[1]
        return o, o.data
    if level == "hstrp":
        o = call(HSTRP.from_bytes, wire, clause=clause)[1]
        if o is None:
            raise Fail("hstrp_parse_gives_object", None, "HSTRP")
        return o, o.payload
    o = call(HDAP.from_bytes, wire, clause=clause)[1]
    return o, o


def _expect_parsed(tag: str, idx: int, item, level: str, outer, inner, wire: bytes):
    """a parsed object (kept or fresh) carries the generated fields of ITS item and serialises to ITS octets"""
    want_cls = type(build_pdu(item)).__name__ if inner is None else None
    if inner is None:
        raise Fail(f"{tag}_parse_gives_same_class", None, want_cls)
    try:
        check_generated(f"{tag}_fields_equal_generated", inner, expected_pdu_fields(item))
        if level == "hrnp":
            check_generated(f"{tag}_fields_equal_generated", outer, expected_hrnp_fields(item["hrnp"], "DATA", {}))
        if level == "hstrp":
            check_generated(f"{tag}_fields_equal_generated", outer, expected_hstrp_fields(item["hstrp"], {}))
    except Fail as f:
        f.observed = {"item": idx, **(f.observed if isinstance(f.observed, dict) else {"observed": f.observed})}
        raise
    out = call(outer.as_bytes, clause=f"{tag}_reserialise_no_exception")[1]
    if out != wire:
        raise Fail(f"{tag}_reencode_equal_octets", {"item": idx, "got": out.hex()}, wire.hex())


def _between(opname: str, kept, item, frame: bytes, wire: bytes, level: str):
    """an unrelated operation between two items: stimulus only, whatever it returns or raises is ignored"""
    from okdmr.dmrlib.hytera.pdu.hdap import HDAP
    from okdmr.dmrlib.hytera.pdu.location_protocol import LocationProtocol
    from okdmr.dmrlib.hytera.pdu.radio_control_protocol import RadioControlProtocol
    from okdmr.dmrlib.hytera.pdu.radio_ip import RadioIP
    from okdmr.dmrlib.hytera.pdu.radio_registration_service import RadioRegistrationService
    from okdmr.dmrlib.hytera.pdu.text_message_protocol import TextMessageProtocol

    steps = []
    if opname == "repr_everything":
        steps = [lambda o=o: (repr(o), str(o)) for k in kept for o in (k["built"], k["outer"], k["inner"])]
    elif opname == "refused_truncated_parse":
        steps = [lambda n=n: _parse_level(level, wire[:n], "x") for n in (len(wire) - 3, len(wire) // 2, 6, 0)] + [lambda: _parse_level(level, wire[:-2] + b"\x00\x00", "x")]
    elif opname == "refused_cross_dispatch":
        steps = [lambda c=c: c.from_bytes(frame) for c in (RadioControlProtocol, TextMessageProtocol, LocationProtocol, RadioRegistrationService)]
    elif opname == "default_object":
        steps = [lambda: (minimal_object(item["proto"], item["op"]).as_bytes(), repr(minimal_object(item["proto"], item["op"])))]
    elif opname == "captured_frame":
        cap = bytes.fromhex(ref.CAPTURED_HDAP[len(wire) % len(ref.CAPTURED_HDAP)])
        steps = [lambda: (HDAP.from_bytes(cap).as_bytes(), repr(HDAP.from_bytes(cap)))]
    elif opname == "radio_ip_siblings":
        for k in ("ip", "dst", "src"):
            d = item["f"].get(k)
            if d:
                four = bytes([d["subnet"]]) + d["id"].to_bytes(3, "big")
                steps += [lambda four=four: (repr(RadioIP.from_bytes(four, endian="little")), RadioIP.from_bytes(four[::-1]).as_ip(), RadioIP.from_ip(str(RadioIP.from_bytes(four)), endian="little"))]
    for st_ in steps:
        try:
            st_()
        except Exception:
            pass


def oracle_history(case):
    """see the comment above.  When the default-constructed objects of phase 0 do not look as in a fresh interpreter, an earlier
    history or prelude of this process left something behind: the history is still judged, but every clause it fails gets the
    suffix "_in_a_process_with_state_left_behind" (such a case need not fail when replayed alone; the history / prelude that left
    the state fails its own "after equals before" clause or is replayed from the _prelude tag), and a history that holds
    otherwise fails "history_starts_with_default_constructed_objects_as_in_fresh_interpreter"."""
    items, levels, between = case["items"], case["levels"], case["between"]
    kinds = sorted({(it["proto"], it["op"]) for it in items})
    dirty = None
    try:
        # ---- phase 0: minimal objects before anything is parsed
        minimal = {}
        for p, op in kinds:
            o = call(minimal_object, p, op, clause="build_no_exception")[1]
            minimal[(p, op)] = (o, _observe_minimal(p, op, o))
            dirty = dirty or _as_fresh(f"{p}.{op}", minimal[(p, op)][1])
        transport0 = _transport_minimal()
        for name, obs in transport0.items():
            dirty = dirty or _as_fresh(name, obs)
        _history_rest(case, items, levels, between, minimal, transport0)
    except Fail as f:
        if dirty is not None:
            f.clause += "_in_a_process_with_state_left_behind"
        raise
    if dirty is not None:
        raise dirty


def _history_rest(case, items, levels, between, minimal, transport0):
    # ---- phase 1
    kept = []
    for idx, item in enumerate(items):
        level = levels[idx]
        built = call(build_pdu, item, clause="build_no_exception")[1]
        before = field_dump(built)
        frame = call(built.as_bytes, clause="serialise_no_exception")[1]
        check_hdap_frame(item, frame, "history_")
        want_payload = expected_payload(item)
        if want_payload is not None and frame[5:-2] != want_payload:
            raise Fail("history_payload_octets_equal_layout_reference", {"item": idx, "got": frame[5:-2].hex()}, want_payload.hex())
        wire = _wire(item, level, frame)
        outer, inner = _parse_level(level, wire, "parse_no_exception")
        if type(inner) is not type(built):
            raise Fail("history_parse_gives_same_class", {"item": idx, "got": type(inner).__name__}, type(built).__name__)
        _expect_parsed("history_first_parse", idx, item, level, outer, inner, wire)
        kept.append({"item": item, "level": level, "built": built, "before": before, "frame": frame, "wire": wire, "outer": outer, "inner": inner})
        _between(BETWEEN_OPS[between[idx] % len(BETWEEN_OPS)], kept, item, frame, wire, level)
    # ---- phases 2 and 3
    for phase, order in (("after_other_pdus_were_parsed", case["order"]), ("second_pass", list(range(len(items))))):
        for idx in order:
            k = kept[idx]
            _expect_parsed(f"history_kept_object_{phase}", idx, k["item"], k["level"], k["outer"], k["inner"], k["wire"])
            again = call(k["built"].as_bytes, clause="serialise_no_exception")[1]
            if again != k["frame"]:
                raise Fail(f"history_built_object_{phase}_same_octets", {"item": idx, "got": again.hex()}, k["frame"].hex())
            _unchanged(f"history_built_object_{phase}_unchanged", k["built"], k["before"])
            if phase == "after_other_pdus_were_parsed":
                outer, inner = _parse_level(k["level"], k["wire"], "parse_no_exception")
                _expect_parsed("history_parsed_again_after_other_pdus", idx, k["item"], k["level"], outer, inner, k["wire"])
                k["outer2"], k["inner2"] = outer, inner
            else:
                _expect_parsed("history_parsed_again_second_pass", idx, k["item"], k["level"], k["outer2"], k["inner2"], k["wire"])
    # ---- minimal objects afterwards
    for (p, op), (o, was) in minimal.items():
        for clause, now in (("history_default_constructed_object_kept_unchanged", _observe_minimal(p, op, o)),
                            ("history_default_constructed_object_after_equals_before", _observe_minimal(p, op))):
            d = first_diff(now, was)
            if d:
                raise Fail(clause, observed={"opcode": f"{p}.{op}", "path": d[0], "now": d[1]}, expected={"path": d[0], "before_the_history": d[2]})
    transport1 = _transport_minimal()
    for name in transport1:
        d = first_diff(transport1[name], transport0[name])
        if d:
            raise Fail("history_default_constructed_object_after_equals_before", observed={"opcode": name, "path": d[0], "now": d[1]}, expected={"path": d[0], "before_the_history": d[2]})


# ---- near-twins of a PDU case: the same opcode with another variable-length / optional part

VARIABLE_KEYS = ("settings", "config", "alias", "raw_payload", "text", "short", "option")
_E_CACHE = []


def _E():
    if not _E_CACHE:
        _E_CACHE.append(_enum_names())
    return _E_CACHE[0]


def near_twin(rng, case, force=None):
    """(label, variant of the case): ONE part changed - a variable-length field emptied / shortened / extended / replaced, option
    data None <-> empty <-> data, GPS time / date / speed / course absent <-> set, another HSTRP option list, a flag, one integer"""
    E = _E()
    p, op, f = case["proto"], case["op"], case["f"]
    cands = [k for k in VARIABLE_KEYS if k in f and not (op.startswith("ZoneAndChannel") and k == "raw_payload")]
    moves = [("variable", k) for k in cands] * 3 + [("hstrp_options", None), ("flag", None), ("int", None)]
    if "gps" in f:
        moves += [("gps", None)] * 3
    if op.startswith("ZoneAndChannel"):
        moves += [("fixed_octets", None)] * 2
    kind, k = force or moves[rng.randrange(len(moves))]
    if kind == "variable":
        cur = f[k]
        if k == "settings":
            tg, stt = E["sc_target"], E["sc_setting"]
            have = [t for t, _ in cur]
            rest = [t for t in tg if t not in have]
            choices = {
                "emptied": [],
                "shorter": cur[: len(cur) // 2],
                "other_key_set": [[t, rng.choice(stt)] for t in rng.sample(rest, min(len(rest), max(1, len(cur))))],
                "superset": cur + [[t, rng.choice(stt)] for t in rng.sample(rest, min(len(rest), 2))],
                "same_keys_other_values": [[t, stt[(stt.index(v) + 1) % len(stt)]] for t, v in cur],
                "same_keys_other_order": list(reversed(cur)),
                "one_key": [[rng.choice(tg), rng.choice(stt)]],
            }
        elif k == "config":
            n = bytes.fromhex(cur)[0] if cur else 0
            mk = lambda m: (bytes([m]) + rng.randbytes(2 * m)).hex()
            choices = {"emptied": "00", "shorter": mk(n // 2), "longer": mk(min(255, n + 2)), "same_length_other_content": mk(n), "one_entry": mk(1)}
        elif k == "text":
            choices = {"emptied": "", "shorter": cur[: len(cur) // 2], "longer": cur + "".join(rng.choice("abcé中") for _ in range(1 + rng.randrange(6))),
                       "same_length_other_content": "".join(rng.choice("xyzЖ") for _ in cur), "one_char": rng.choice(["a", "﻿", "\x00"])}
        else:  # hex octet strings; option data may also be absent
            b = bytes.fromhex(cur) if cur else b""
            mx = 255 if k == "alias" else 64
            choices = {"emptied": "", "shorter": b[: len(b) // 2].hex(), "longer": (b + rng.randbytes(1 + rng.randrange(6)))[:mx].hex(),
                       "same_length_other_content": rng.randbytes(len(b)).hex(), "one_octet": rng.choice(["00", "03", "ff"])}
            if k == "option":
                choices["absent"] = None
        choices = {n: v for n, v in choices.items() if v != cur}
        if not choices:
            return "identical", case
        name = sorted(choices)[rng.randrange(len(choices))]
        return f"{k}_{name}", _with(case, ("f", k), choices[name])
    if kind == "gps":
        g = f["gps"]
        name, key, val = rng.choice([("time_absent", "time", None), ("time_set", "time", [rng.randrange(24), rng.randrange(60), rng.randrange(60)]),
                                     ("date_absent", "date", None), ("date_set", "date", [2000 + rng.randrange(100), 1 + rng.randrange(12), 1 + rng.randrange(28)]),
                                     ("speed_absent", "speed", 0), ("speed_set", "speed", 10 * rng.randint(1, 99)), ("course_absent", "dir", 0), ("course_set", "dir", rng.randint(1, 359))])
        return ("identical" if g[key] == val else f"gps_{name}"), _with(case, ("f", "gps", key), val)
    if kind == "fixed_octets":
        return "raw_payload_same_length_other_content", _with(case, ("f", "raw_payload"), rng.randbytes(len(f["raw_payload"]) // 2).hex())
    if kind == "hstrp_options":
        nm = rng.choice(sorted(NATURAL_OPTION_LEN))
        cur = case["hstrp"]["options"]
        opts = rng.choice([[], cur[: len(cur) // 2], cur + [[nm, rng.randbytes(NATURAL_OPTION_LEN[nm]).hex()]], [[n, rng.randbytes(len(d) // 2).hex()] for n, d in cur], [[nm, ""]]])
        c = _with(case, ("hstrp", "options"), opts)
        c["hstrp"]["flags"]["have_options"] = bool(opts)
        if opts:
            c["hstrp"]["flags"]["is_heartbeat"] = False
        return ("identical" if opts == cur else "hstrp_options_changed"), c
    if kind == "flag":
        if "confirmed" in f and rng.random() < 0.5:
            return "flag_flipped", _with(case, ("f", "confirmed"), not f["confirmed"])
        return "flag_flipped", _with(case, ("rel",), not case["rel"])
    ints = [(("f", k2), F_INT[k2]) for k2 in F_INT if k2 in f] + [(("f", k2, "id"), (0, 2**24 - 1)) for k2 in ("ip", "dst", "src") if k2 in f]
    ints += [(("hrnp", "pn"), (0, 0xFFFF)), (("hstrp", "sn"), (0, 0xFFFF))]
    path, (lo, hi) = ints[rng.randrange(len(ints))]
    cur = _get(case, path)
    new = rng.choice([v for v in (lo, hi, min(hi, cur + 1), max(lo, cur - 1), rng.randint(lo, hi)) if v != cur] or [cur])
    return ("identical" if new == cur else "one_integer_changed"), _with(case, path, new)


def with_twins(rng, case, n: int):
    """the single-PDU case with n near-twins attached (none when the case is large or inside the open GPS speed finding)"""
    if n <= 0 or not _small(case):
        return case
    tw = [t for t in (near_twin(rng, case)[1] for _ in range(n)) if _small(t)]
    return dict(case, twins=tw) if tw else case


def _small(case) -> bool:
    """items of histories: moderate sizes, and outside the open finding C12-gps-speed-field-overflow (the 'lp' sub-check keeps
    generating and tallying those speeds)"""
    f = case["f"]
    if "gps" in f and f["gps"]["speed"] != 0 and speed_text_len(f["gps"]["speed"]) != 3:
        return False
    return all(len(f.get(k) or "") <= 700 for k in ("short", "option", "raw_payload", "alias", "config", "text"))


def build_history(rng, base, n_twins: int, others=(), force=None):
    """history = the base case, n near-twins of it (or of each other) and ``others`` (cases of other opcodes), in seeded order"""
    items, labels = [base], []
    for j in range(n_twins):
        src = items[rng.randrange(len(items))] if rng.random() < 0.3 else base
        label, tw = near_twin(rng, src, force)
        tw["hrnp"] = dict(tw["hrnp"], pn=(tw["hrnp"]["pn"] + 1 + j) & 0xFFFF)
        labels.append(label)
        items.insert(rng.randrange(len(items) + 1), tw)
    for o in others:
        items.insert(rng.randrange(len(items) + 1), o)
    n = len(items)
    order = list(range(n))
    rng.shuffle(order)
    return {"items": items, "levels": [LEVELS[rng.randrange(3)] for _ in range(n)], "between": [rng.randrange(len(BETWEEN_OPS)) for _ in range(n)], "order": order}, labels


def history_classes(case):
    items = case["items"]
    cls = [f"history_of_{len(items)}"]
    ops = {(it["proto"], it["op"]) for it in items}
    cls.append("one_opcode" if len(ops) == 1 else "several_opcodes")
    for lv in sorted(set(case["levels"])):
        cls.append(f"level.{lv}")
    for b in sorted({BETWEEN_OPS[x % len(BETWEEN_OPS)] for x in case["between"]}):
        cls.append(f"between.{b}")
    for i, a in enumerate(items):
        for b in items[:i]:
            if (a["proto"], a["op"]) != (b["proto"], b["op"]):
                continue
            for k in VARIABLE_KEYS:
                if k in a["f"] and a["f"][k] != b["f"][k]:
                    x, y = a["f"][k], b["f"][k]
                    if not x or not y:
                        cls.append(f"same_opcode.{k}.empty_or_absent_vs_present")
                    elif len(x) != len(y):
                        cls.append(f"same_opcode.{k}.different_length")
                    else:
                        cls.append(f"same_opcode.{k}.same_length_other_content")
            if "gps" in a["f"] and any((a["f"]["gps"][k] in (None, 0)) != (b["f"]["gps"][k] in (None, 0)) for k in ("time", "date", "speed", "dir")):
                cls.append("same_opcode.gps.absent_vs_present_part")
            if a["hstrp"]["options"] != b["hstrp"]["options"]:
                cls.append("same_opcode.other_hstrp_option_list")
    return sorted(set(cls))


def drv_histories(ctx: Ctx, sub: SubCheck):
    import random

    from hypothesis import strategies as st

    E = _E()
    pdu_cases, _ = _strategies()
    pairs = [(p, op) for p, ops in OPS.items() for op in ops]
    variable_ops = {("RCP", "StatusChangeNotificationRequest"), ("RCP", "BroadcastStatusConfigurationRequest"), ("RCP", "SendTalkerAliasRequest"), ("RCP", "UnknownService"),
                    ("LP", "StandardReport")} | {("TMP", op) for op in TMP_OPS}

    # (a) deterministic: per opcode, seeded base + near-twins (every variable key forced once: A then B and B then A both occur
    # through the seeded insertion position), with and without PDUs of other opcodes of the same protocol around them
    def work(item, t: Tally):
        p, op = item
        rng = ctx.rng("histories", p, op)
        reps = ctx.pick(6, 60) * (3 if (p, op) in variable_ops else 1)
        for r in range(reps):
            hrnp, hstrp = _rand_envelopes(rng)
            base = {"proto": p, "op": op, "rel": bool(r % 2), "f": _rand_fields(rng, E, p, op), "hrnp": hrnp, "hstrp": hstrp}
            keys = [k for k in VARIABLE_KEYS if k in base["f"] and not op.startswith("ZoneAndChannel")]
            force = ("variable", keys[r % len(keys)]) if keys and r % 3 != 2 else None
            others = []
            if r % 4 == 3:
                op2 = rng.choice(sorted(OPS[p]))
                h2, s2 = _rand_envelopes(rng)
                others.append({"proto": p, "op": op2, "rel": False, "f": _rand_fields(rng, E, p, op2), "hrnp": h2, "hstrp": s2})
            case, labels = build_history(rng, base, 1 + r % 3, others, force)
            ctx.run_case(sub.name, oracle_history, case, t)
            t.case(sub.name, nontrivial=True, cls=f"deterministic.{p}.{op}")
            for c in history_classes(case) + [f"twin.{x}" for x in labels]:
                t.cls(sub.name, c)
            _drain_skipped(sub.name, t)
        t.sample(sub.name, case)

    ctx.shards(work, pairs)

    # (b) Hypothesis: 2..4 independently drawn PDUs of one opcode (Hypothesis likes empty lists / strings: empty vs non-empty
    # variable parts are frequent), or of 2 opcodes of one protocol, plus 0..2 near-twins
    def rec(case, t: Tally):
        t.case(sub.name, key=case, nontrivial=True, cls=f"{case['items'][0]['proto']}.{case['items'][0]['op']}")
        for c in history_classes(case):
            t.cls(sub.name, c)
        _drain_skipped(sub.name, t)

    def strat(p, op):
        sibs = sorted(OPS[p])

        def build(tp):
            own, other_op_cases, n_tw, seed = tp
            rng = random.Random(seed)
            own = [c for c in own if _small(c)]
            if not own:
                return {"items": []}
            case, _ = build_history(rng, own[0], n_tw, list(own[1:]) + [c for c in other_op_cases if _small(c)])
            return case

        other = st.sampled_from(sibs).flatmap(lambda o: st.lists(pdu_cases(p, o), max_size=1))
        return st.tuples(st.lists(pdu_cases(p, op), min_size=1, max_size=3), other, st.sampled_from([0, 1, 1, 2]), st.integers(0, 2**32 - 1)).map(build).filter(lambda c: len(c["items"]) >= 2)

    def hyp(item, t: Tally):
        p, op = item
        n = ctx.pick(12, 1200) * (3 if (p, op) in variable_ops else 1)
        # not shrunk: shrinking replays candidates in the process the first failure may have left dirty, and drifts to histories that
        # fail only there; the first failing history of a process is judged in a clean one and replays on its own
        ctx.hypothesis(sub.name, strat(p, op), oracle_history, n, tally=t, shard=f"{p}.{op}", record=rec, shrink=False)

    ctx.shards(hyp, pairs)
    ctx.tally.extra["fresh_interpreter_baseline_available"] = _BASELINE is not None


# ------------------------------------------------------------------------------------------------------------ preludes
#
# Calls the framework runs between the two judgements of a case (stimulus only; vp/core.py "Preludes"): near-twins of the judged
# PDU through every entry point and nesting (build, serialise, reference-wrapped parse at all three levels, repr), rightly refused
# variants of the same octets (truncated, end octet / checksum damaged, dispatched to the wrong protocol class), a default-
# constructed object of the same opcode, the RadioIP octets through the sibling constructors in both endiannesses.


def _op_roundtrip(a):
    """a = a PDU case: build, serialise, parse at every level from reference-wrapped octets, serialise and repr everything"""
    pdu = build_pdu(a)
    frame = pdu.as_bytes()
    objs = [pdu]
    for level in LEVELS:
        try:
            outer, inner = _parse_level(level, _wire(a, level, frame), "x")
            objs += [outer, inner]
        except BaseException:
            pass
    for o in objs:
        for fn in (lambda: o.as_bytes(), lambda: repr(o), lambda: len(o)):
            try:
                fn()
            except BaseException:
                pass


def _op_refused(a):
    """a = {"case": PDU case, "how": ...}: damaged octets of the same PDU through the parsers"""
    from okdmr.dmrlib.hytera.pdu.location_protocol import LocationProtocol
    from okdmr.dmrlib.hytera.pdu.radio_control_protocol import RadioControlProtocol
    from okdmr.dmrlib.hytera.pdu.radio_registration_service import RadioRegistrationService
    from okdmr.dmrlib.hytera.pdu.text_message_protocol import TextMessageProtocol

    case, how = a["case"], a["how"]
    frame = build_pdu(case).as_bytes()
    for level in LEVELS:
        wire = _wire(case, level, frame)
        bad = {"truncated": wire[: max(0, len(wire) - 1 - a.get("n", 2))], "half": wire[: len(wire) // 2], "end_octet": wire[:-1] + b"\x00",
               "checksum": wire[:-2] + bytes([wire[-2] ^ 0x55]) + wire[-1:], "length_field": wire[:-4] if len(wire) > 12 else wire[:3]}.get(how, wire[:5])
        try:
            outer, inner = _parse_level(level, bad, "x")
            outer.as_bytes(), repr(outer)
        except BaseException:
            pass
    if how == "cross_dispatch":
        for c in (RadioControlProtocol, TextMessageProtocol, LocationProtocol, RadioRegistrationService):
            try:
                repr(c.from_bytes(frame))
            except BaseException:
                pass


def _op_minimal(a):
    o = minimal_object(a["proto"], a["op"])
    try:
        repr(o)
    finally:
        o.as_bytes()


def _op_radio_ip(a):
    from okdmr.dmrlib.hytera.pdu.radio_ip import RadioIP

    four = bytes.fromhex(a["four"])
    for fn in (lambda: repr(RadioIP.from_bytes(four, endian="little")), lambda: RadioIP.from_bytes(four[::-1]).as_ip(), lambda: RadioIP.from_bytes(four).as_bytes("little"),
               lambda: RadioIP.from_ip(str(RadioIP.from_bytes(four)), endian="little").as_bytes(), lambda: RadioIP(radio_id=four[1:], subnet=four[0]).as_bytes()):
        try:
            fn()
        except BaseException:
            pass


def _op_transport(a):
    """a = a 'transport' case: build, serialise, parse, repr; then the same octets truncated"""
    from okdmr.dmrlib.hytera.pdu.hrnp import HRNP, HRNPOpcodes
    from okdmr.dmrlib.hytera.pdu.hstrp import HSTRP

    if a["kind"] == "hrnp":
        h = a["hrnp"]
        o = HRNP(data=None, opcode=HRNPOpcodes[h["opcode"]], source=h["src"], destination=h["dst"], block_number=h["block"], packet_number=h["pn"], version=h["version"])
        cls = HRNP
    else:
        o, cls = build_hstrp(a["hstrp"], None), HSTRP
    b = o.as_bytes()
    for data in (b, b[:-1], b[:7], b + b"\x00"):
        try:
            back = cls.from_bytes(data)
            back.as_bytes(), repr(back)
        except BaseException:
            pass


PRELUDE_OPS = {"roundtrip": _op_roundtrip, "refused": _op_refused, "minimal": _op_minimal, "radio_ip": _op_radio_ip, "transport": _op_transport}


def prelude_for(sub, case, rng):
    try:
        if sub == "transport":
            calls = []
            if case["kind"] == "hstrp":
                env = case["hstrp"]
                nm = rng.choice(sorted(NATURAL_OPTION_LEN))
                for opts in ([], env["options"][:1], env["options"] + [[nm, rng.randbytes(NATURAL_OPTION_LEN[nm]).hex()]]):
                    e2 = dict(env, options=opts, flags=dict(env["flags"], have_options=bool(opts), is_heartbeat=env["flags"]["is_heartbeat"] and not opts))
                    calls.append({"x": "transport", "a": {"kind": "hstrp", "hstrp": e2}})
            else:
                h = case["hrnp"]
                calls.append({"x": "transport", "a": {"kind": "hrnp", "hrnp": dict(h, pn=h["pn"] ^ 0xFFFF)}})
                calls.append({"x": "transport", "a": {"kind": "hrnp", "hrnp": dict(h, opcode=rng.choice([k for k in ref.HRNP_OPCODES if k != "DATA"]))}})
            return calls
        base = case["items"][rng.randrange(len(case["items"]))] if sub == "histories" else case
        if not _small(base):
            return [{"x": "minimal", "a": {"proto": base["proto"], "op": base["op"]}}]
        calls = []
        for _ in range(2):
            label, tw = near_twin(rng, base)
            if _small(tw):
                calls.append({"x": "roundtrip", "a": tw})
        calls.append({"x": "refused", "a": {"case": base, "how": rng.choice(["truncated", "half", "end_octet", "checksum", "length_field", "cross_dispatch"]), "n": rng.randrange(0, 6)}})
        calls.append({"x": "minimal", "a": {"proto": base["proto"], "op": base["op"]}})
        for k in ("ip", "dst", "src"):
            d = base["f"].get(k)
            if d:
                calls.append({"x": "radio_ip", "a": {"four": (bytes([d["subnet"]]) + d["id"].to_bytes(3, "big")).hex()}})
                break
        if "raw_value" in base["f"]:
            calls.append({"x": "radio_ip", "a": {"four": base["f"]["raw_value"]}})
        calls.append({"x": "roundtrip", "a": base})
        return calls
    except (KeyError, IndexError, TypeError, ValueError):
        return []


# ------------------------------------------------------------------------------------------------------ drivers


BUDGET = {"RRS": (240, 16000), "LP": (960, 80000), "TMP": (320, 32000), "RCP": (200, 20000)}  # Hypothesis cases per opcode (quick, thorough)


def make_driver(proto: str):
    def drv(ctx: Ctx, sub: SubCheck):
        pdu_cases, _ = _strategies()
        ops = list(OPS[proto])
        run_boundary(ctx, sub, ops, lambda rng, E, op: boundary_cases_pdu(rng, E, proto, op))
        per_op = ctx.pick(*BUDGET[proto])
        split = -(-32 // len(ops))  # about 32 shards per protocol: balanced over 16 workers
        items = [(op, j) for op in ops for j in range(split)]

        def work(item, t: Tally):
            op, j = item
            ctx.hypothesis(sub.name, pdu_cases(proto, op, twins=True), sub.oracle, max(1, per_op // split), tally=t, shard=f"{op}/{j}", record=record_pdu(sub.name))

        ctx.shards(work, items)
        ctx.tally.extra["reference_vectors_reproduced"] = _REF_VECTORS

    return drv


def drv_transport(ctx: Ctx, sub: SubCheck):
    _, transport = _strategies()
    # two items: the pass runs in forked workers like everything else (a single item would run in the parent process, and
    # whatever its cases and preludes leave behind would be inherited by every later worker)
    run_boundary(ctx, sub, ["hrnp", "hstrp"], lambda rng, E, item: boundary_cases_transport(rng, item))

    def work(i, t: Tally):
        ctx.hypothesis(sub.name, transport, oracle_transport, ctx.pick(150, 10000), tally=t, shard=i, record=record_transport)

    ctx.shards(work, list(range(8)))


SUBCHECKS = [
    SubCheck("rrs", oracle_pdu, make_driver("RRS"), "RRS PDUs (5 opcodes): framing vs reference, round trip, nested in HRNP and HSTRP"),
    SubCheck("lp", oracle_pdu, make_driver("LP"), "LP StandardRequest / StandardReport with GPS data: framing, round trip, nestings"),
    SubCheck("tmp", oracle_pdu, make_driver("TMP"), "TMP / short-data PDUs (8 opcodes x reliable x confirmed x option data): framing, round trip, nestings"),
    SubCheck("rcp", oracle_pdu, make_driver("RCP"), "RCP PDUs (16 opcodes + unknown-service pass-through), little-endian: framing, round trip, nestings"),
    SubCheck("transport", oracle_transport, drv_transport, "HRNP control packets and HSTRP datagrams without application payload vs reference + round trip"),
    SubCheck("histories", oracle_history, drv_histories, "histories in one interpreter: parse A, unrelated operation, parse near-twins B.. of the same opcode (other / empty / shorter variable part), "
             "then every kept object still carries and serialises its own PDU, A parses the same again, default-constructed objects are as before"),
]


# ------------------------------------------------------------------------------------------- known-finding predicates

_ROUNDTRIP_CLAUSES = {"parse_no_exception", "reencode_equal_octets", "roundtrip_fields_equal"}


def gps_speed_not_3_chars(case, fail) -> bool:
    """LP StandardReport whose speed is > 0 and whose shortest decimal text is not exactly three characters (>= 10 knots or
    more than one decimal): GPSData.as_bytes writes 4..6 characters into the 3-character field, so the parse/re-encode
    clauses of the *bare* PDU fail.  Framing clauses (length, checksum, ...) are not covered by this predicate."""
    if case.get("proto") != "LP" or case.get("op") != "StandardReport":
        return False
    s = case["f"]["gps"]["speed"]
    return s > 0 and speed_text_len(s) != 3 and fail.clause in _ROUNDTRIP_CLAUSES


PREDICATES = {"gps_speed_not_3_chars": gps_speed_not_3_chars}
