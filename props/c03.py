"""C03 — layer-2/3 PDUs and information elements survive encode-decode with every field.

Sub-checks
  build      (a) per PDU variant (declarative table VARIANTS: constructor, per-field strategy, fields compared): build from
             in-range field values -> as_bits has the fixed length -> from_bits gives back every field the variant's wire
             format carries (compared with the *input* values) -> as_bits of the decoded object equals the first bits.
  build_boundary  (a) deterministic boundary pass per variant (not left to Hypothesis' bias): every boundary value of every field
             ({0, 1, max-1, max, top bit only, all ones below it}; every member of every enum field; all-zero / all-ones /
             alternating bit and byte strings, empty / 1 / 7 / 8 / 9-bit user data; most negative / most positive raw GPS
             values, +-1 around zero, first / last quantisation step) one field at a time over two seeded backgrounds, all
             pairs of ordered fields at (max, max), (0, max), (max, 0), all fields at min / max, the full product of the
             boundary lists where it is small, and computed check values steered to {0, 1, max-1, max, top bit, below top}.
             Dedicated codes: every free-form integer field takes every member value of every enum the variant carries and
             every explicit value such a member stands for (vp/refs/elements_ref.DEDICATED: UDP ports 5016 / 5017 for SPID /
             DPID 1 / 2; +-1, decoys) while the identifier is at its escape member, wide fields pairwise (source and
             destination together), string fields in their first / last 8 / 16 bits; small integer fields of one variant at
             equal and adjacent values; every value of every field of <= 8 bits one at a time.
  decode     (b) arbitrary right-length bit strings (about half of them steered into implemented opcodes / formats / zero
             check fields): documented rejection, or the serialisation is a fixed point of decode-then-encode.
  decode_boundary (b) deterministic pass per decoder: all-zero / all-ones / alternating strings, every implemented opcode /
             format (and inner enum / zero check field template) with zero, one and seeded random fill, and every single-bit
             flip of the zero- and one-filled strings (every reserved bit set / cleared one at a time, every opcode and enum
             field at distance one from its constants); UDP/IPv4 at the lengths around its 40 / 56 / 72-bit exact fits;
             identifier at its escape member with the explicit field(s) carrying every dedicated value (+-1, decoys, member
             values), singly and together, at the exact-fit length and longer.
  interleaved     two-phase batches (history independence): per variant and enum element of its layout "unusual then ordinary"
             histories (build the ordinary PDU, decode it with the enum bits patched to an unlisted in-range / listed /
             member-less value, build again ...), and random batches of 2..4 builds / decodes per PDU class whose enum
             octets differ; phase 2 serialises the kept objects in another order, phase 3 executes every op again: every
             outcome equals the first one; enum fields of built PDUs sit at the layout's positions with the member's value;
             afterwards every element enum still maps value -> member -> bits.
             A further part draws batches across all classes (a CSBK built between two full-LC decodes, from_bytes next to
             from_bits, elements between PDUs).
  retained   objects that are kept: X is decoded (or built) and kept, near-twins of X are created one at a time, and after every
             one of them X must still serialise to its first bits and carry its first field values (every other kept object
             whose reachable state changed in any way is judged too; at the end all kept objects, and X created afresh).  No
             knowledge of "neglected" bits is used: (1) per decoder, every accepted template string with zero / one fill and the
             plain patterns x every single-bit flip through the same decoder (UDP/IPv4: also cut / extended to every length
             around the exact fits); (2) per word length one *family* case set: one seeded fill R (and all-zero) read by every
             from_bits entry point with every implemented opcode forced, plus every aligned 8 / 4-bit window of R read by the
             element decoders (service options, FSN) - all kept - and then R with every single bit flipped through EVERY entry
             point of the family (from_bits, from_bytes, typed, 77-bit / 10-octet forms) with every opcode, and every flipped
             window through the element decoders, so that each kept object meets every object of its own and of every other
             family that agrees with it in all bits but one; (3) per variant, X built from seeded fields (kept as built and
             as decoded) x twins with one field at a time replaced by its boundary values (built, and built-then-decoded) and
             decodes of every single-bit flip of its serialisation; (4) Hypothesis-drawn X with 1..6 twins of 1..3 flipped
             positions through any decoder of that length.
  decode_atheris  (thorough) the same decoders and oracle under a coverage-guided Atheris campaign (vp/c03_atheris.py).
  elements   (c) every value 0..2^w-1 of every w<=8-bit element type against vp/refs/elements_ref.py.
  sync       the ten SYNC constants + random 48-bit values (SyncPatterns; not part of the w<=8 exhaustive claim).
"""
from __future__ import annotations

import importlib
import math
import os
from fractions import Fraction

from bitarray import bitarray
from bitarray.util import int2ba

from vp.core import REPO, Ctx, Fail, SubCheck, Tally, call, exc_klass
from vp.refs import elements_ref

LEVEL = "exploration"
RULE = (
    "(a) build: Hypothesis draws, per PDU variant of a declarative table (9 CSBK opcodes, 5 data-header formats, 7 FLCOs x "
    "96/77-bit form, 2 short-LC opcodes, PI header, rate 1/2, 3/4, 1 x 4 block types, UDP/IPv4 header with 0/1/2 extended "
    "headers, slot type, EMB, service options, FSN), one in-range value per field the variant's wire format carries "
    "(integers over the full bit width, booleans as bool or 0/1, enum fields as defined members only, check fields 0 = "
    "'compute' or an arbitrary non-zero value, GPS coordinates on the wire grid n*360/2^25 and off-grid); a case is "
    "(variant, field values), distinct by hash, non-trivial when >= 2 fields other than the variant's opcode/format selector "
    "differ from zero/false/empty/all-zero-bits; CSBK, data header, full LC and UDP/IPv4 cases are also taken through "
    "as_bytes/from_bytes. "
    "build_boundary: deterministic enumeration per variant - every boundary value of every field ({0,1,max-1,max,top bit, "
    "all ones below top}, every enum member, all-zero/all-ones/alternating strings, extreme and +-1-around-zero raw GPS values, "
    "exact-fit lengths) one field at a time over two seeded backgrounds, all pairs of ordered fields at (max,max),(0,max),(max,0), "
    "small full products, computed check values steered to their extremes through the affine structure of the CRCs, and "
    "'dedicated code' collisions (free-form fields carrying every enum member value of the same PDU and every explicit value "
    "an identifier member stands for, e.g. UDP ports 5016/5017 in an extended header with SPID/DPID at the escape value, "
    "singly and together; equal/adjacent values of small integer fields); distinct by hash. decode_boundary: deterministic enumeration per decoder - all-zero, all-ones, alternating, every implemented "
    "opcode/format template with zero/one/random fill and every single-bit flip of the zero- and one-filled strings, plus "
    "escape-identifier strings whose explicit fields carry every dedicated value. "
    "interleaved: batches {ops, order} of 2..6 builds / decodes of one PDU class that differ in their enum-valued bits "
    "(listed members, unlisted in-range values of every fold range, values without member), deterministic 'unusual then "
    "ordinary' histories per (variant, enum element) plus Hypothesis-drawn batches; distinct by hash, all non-trivial. "
    "retained: cases {kept objects X (decode / build ops), twins derived from an X by flipping single bits / cutting windows / "
    "resizing / forcing another family's opcode / replacing one field}: deterministic enumeration per decoder (accepted template "
    "strings x every single-bit flip), per word length (one seeded fill through every entry point and opcode of every family of "
    "that length plus the element decoders on every aligned window, all kept, x every single-bit flip through every entry point), "
    "per variant (seeded fields x one field replaced, x every single-bit flip of the serialisation) plus Hypothesis-drawn cases; "
    "distinct by hash; non-trivial = X accepted and >= 1 twin created. "
    "Preludes (vp/core.py): between two judgements of a case the module runs the case's object through repr / str / as_bytes, "
    "re-decodes its serialisation through every decoder of that length, decodes near-twins, makes the calls the decoder has to "
    "refuse (wrong lengths, wrong containers, unimplemented opcodes), and sends element values through every element of that width. "
    "Representation variants: bit-string fields are handed over as big-endian, little-endian (same bit sequence) and frozen "
    "bitarrays; decoders also receive frozenbitarrays. "
    "(b) decode: per decoder, bit strings of the right length, one third to one half uniform, the rest with opcode / "
    "format / inner enum / check-field bits forced to implemented values; distinct by hash, non-trivial = strings the "
    "decoder accepts (rejected ones are tallied by exception type); thorough adds an Atheris campaign on the same decoders "
    "whose corpus entries and findings are re-judged in-process. (c) elements: complete enumeration of all 2^w values of "
    "every element type with w <= 8 (each (element, value) pair is a distinct non-trivial case). sync: the 10 SYNC "
    "constants, all 480 values one bit away from a constant, plus random 48-bit values."
)
ASSUMPTIONS = [
    "in-range = the ranges documented in the constructors' docstrings / the bit widths written by as_bits; byte/bit string "
    "fields have exactly the length the wire format carries (raw_data 8 bytes, broadcast_params 38 bits, bit_padding 8 bits, "
    "talker alias 6/7 bytes, rate data 6..24 bytes by block type, FLC check 24 or 5 bits)",
    "a zero check field (crc/parity) means 'compute it' in this API (pinned by the repository's tests): for a zero input the "
    "value computed at construction time is the expected field value after the round trip",
    "documented rejections of the decoders: ValueError raised by the enum machinery (undefined element value), KeyError / "
    "NotImplementedError raised by an explicit raise statement of the PDU decoder (opcode / format without implementation), "
    "AssertionError from the explicit length asserts of the UDP/IPv4 header decoder only",
    "element tables in vp/refs/elements_ref.py were written from ETSI TS 102 361-1 §9.3, -2 §7.2, -3 §7.2.4, -4 annex B; a "
    "value the library defines beyond those tables is accepted as defined",
    "GPS longitude in [-180, 180), latitude in [-90, 90); tolerance for off-grid floats: strictly less than one quantisation "
    "step (45/2^22 degrees), exact equality for on-grid values; judged in exact rational arithmetic",
    "integrity indicators (crc_ok, crc9_ok, fec_parity_ok, emb_parity_ok) are not compared here (property C04)",
    "fields are compared through the explicit per-variant field list only (constructor parameters, plus the two derived "
    "udp_*_port_original attributes by their own clause); further public / diagnostic attributes of the objects are ignored",
    "containers: a little-endian bitarray holding the same bit sequence is in the domain of the bit-string *fields* that the "
    "library only concatenates / slices (check fields of the full LC, short-LC addresses, broadcast parameters, bit padding, "
    "user data, service-options reserved bits) but not of the decoders (from_bits of every PDU reads another number out of "
    "its slices on the unchanged tree - probed for all 33 entry points) nor of fields that go through tobytes()/ba2int "
    "(raw_data, rate data, dbsn); frozenbitarray is accepted by every decoder",
    "ENUM_POS (props/c03.py) gives the bit positions of the identifier / enum elements from the ETSI PDU layouts; the clause "
    "built on it applies to PDUs built from defined members only",
]

# ======================================================================================================================
# library access (lazy: the module is imported before the library location is asserted)

ENUMS = {
    "CsbkOpcodes": "okdmr.dmrlib.etsi.layer2.elements.csbk_opcodes",
    "FeatureSetIDs": "okdmr.dmrlib.etsi.layer2.elements.feature_set_ids",
    "DataPacketFormats": "okdmr.dmrlib.etsi.layer2.elements.data_packet_formats",
    "DataTypes": "okdmr.dmrlib.etsi.layer2.elements.data_types",
    "DefinedDataFormats": "okdmr.dmrlib.etsi.layer2.elements.defined_data_formats",
    "FLCOs": "okdmr.dmrlib.etsi.layer2.elements.flcos",
    "FullMessageFlag": "okdmr.dmrlib.etsi.layer2.elements.full_message_flag",
    "LCSS": "okdmr.dmrlib.etsi.layer2.elements.lcss",
    "PreemptionPowerIndicator": "okdmr.dmrlib.etsi.layer2.elements.preemption_power_indicator",
    "ResynchronizeFlag": "okdmr.dmrlib.etsi.layer2.elements.resynchronize_flag",
    "SAPIdentifier": "okdmr.dmrlib.etsi.layer2.elements.sap_identifier",
    "SARQ": "okdmr.dmrlib.etsi.layer2.elements.sarq",
    "SLCOs": "okdmr.dmrlib.etsi.layer2.elements.slcos",
    "SupplementaryFlag": "okdmr.dmrlib.etsi.layer2.elements.supplementary_flag",
    "UDTFormat": "okdmr.dmrlib.etsi.layer2.elements.udt_format",
    "ActivityID": "okdmr.dmrlib.etsi.layer3.elements.activity_id",
    "AdditionalInformationField": "okdmr.dmrlib.etsi.layer3.elements.additional_information_field",
    "AnnouncementType": "okdmr.dmrlib.etsi.layer3.elements.announcement_type",
    "AnswerResponse": "okdmr.dmrlib.etsi.layer3.elements.answer_response",
    "ChannelTimingOpcode": "okdmr.dmrlib.etsi.layer3.elements.channel_timing_opcode",
    "DynamicIdentifier": "okdmr.dmrlib.etsi.layer3.elements.dynamic_identifier",
    "IPAddressIdentifier": "okdmr.dmrlib.etsi.layer3.elements.ip_address_identifier",
    "PositionError": "okdmr.dmrlib.etsi.layer3.elements.position_error",
    "RandomAccessServiceFunction": "okdmr.dmrlib.etsi.layer3.elements.random_access_service_function",
    "ReasonCode": "okdmr.dmrlib.etsi.layer3.elements.reason_code",
    "SourceType": "okdmr.dmrlib.etsi.layer3.elements.source_type",
    "TalkerAliasDataFormat": "okdmr.dmrlib.etsi.layer3.elements.talker_alias_data_format",
    "UDPPortIdentifier": "okdmr.dmrlib.etsi.layer3.elements.udp_port_identifier",
    "UDTOptionFlag": "okdmr.dmrlib.etsi.layer3.elements.udt_option_flag",
    "Rate12DataTypes": "okdmr.dmrlib.etsi.layer2.pdu.rate12_data",
    "Rate34DataTypes": "okdmr.dmrlib.etsi.layer2.pdu.rate34_data",
    "Rate1DataTypes": "okdmr.dmrlib.etsi.layer2.pdu.rate1_data",
}
CLASSES = {
    "CSBK": "okdmr.dmrlib.etsi.layer2.pdu.csbk",
    "DataHeader": "okdmr.dmrlib.etsi.layer2.pdu.data_header",
    "FullLinkControl": "okdmr.dmrlib.etsi.layer2.pdu.full_link_control",
    "ShortLinkControl": "okdmr.dmrlib.etsi.layer2.pdu.short_link_control",
    "PIHeader": "okdmr.dmrlib.etsi.layer2.pdu.pi_header",
    "Rate12Data": "okdmr.dmrlib.etsi.layer2.pdu.rate12_data",
    "Rate34Data": "okdmr.dmrlib.etsi.layer2.pdu.rate34_data",
    "Rate1Data": "okdmr.dmrlib.etsi.layer2.pdu.rate1_data",
    "SlotType": "okdmr.dmrlib.etsi.layer2.pdu.slot_type",
    "EmbeddedSignalling": "okdmr.dmrlib.etsi.layer2.pdu.embedded_signalling",
    "UDPIPv4CompressedHeader": "okdmr.dmrlib.etsi.layer3.pdu.udp_ipv4_compressed_header",
    "ServiceOptions": "okdmr.dmrlib.etsi.layer3.elements.service_options",
    "FragmentSequenceNumber": "okdmr.dmrlib.etsi.layer2.elements.fragment_sequence_number",
    "SyncPatterns": "okdmr.dmrlib.etsi.layer2.elements.sync_patterns",
}
_LIB = {}


def lib(name):
    if name not in _LIB:
        mod = ENUMS.get(name) or CLASSES[name]
        _LIB[name] = getattr(importlib.import_module(mod), name)
    return _LIB[name]


def members(enum_name, exclude=()):
    return [m.name for m in lib(enum_name) if m.name not in exclude]


# ======================================================================================================================
# field kinds: JSON value <-> library value <-> JSON-normalised observation

SO_BOOLS = ["is_emergency", "is_privacy", "is_broadcast", "is_open_voice_call_mode"]


def to_lib(kind, v):
    """JSON case value -> the object handed to the constructor"""
    if kind in ("int", "bool", "coord", "crc_int"):
        return v
    if kind.startswith("enum:"):
        return lib(kind[5:])[v] if isinstance(v, str) else v  # ints stay ints (Union[Enum, int] parameters)
    if kind in ("bits", "crc_bits"):
        return None if v is None else make_bits(v)
    if kind == "bytes":
        return bytes.fromhex(v)
    if kind in ("bytes|bits", "int|bits", "int|bytes", "crc8"):
        if isinstance(v, int):
            return v
        tag, _, body = v.partition(":")
        return bytes.fromhex(body) if tag == "hex" else bitarray(body)
    if kind == "so":
        return lib("ServiceOptions")(**{k: (bitarray(x) if k == "reserved" else x) for k, x in v.items()})
    if kind == "fsn":
        return v if isinstance(v, int) else lib("FragmentSequenceNumber")(v["fsn"])
    raise AssertionError(f"unknown kind {kind}")


def make_bits(v):
    """'0101' -> big-endian bitarray; 'le:0101' -> little-endian bitarray holding the same bit sequence; 'fz:0101' ->
    frozenbitarray (representation variants of the same word: the expected value is always the bit sequence)"""
    from bitarray import frozenbitarray

    tag, sep, body = v.partition(":")
    if not sep:
        return bitarray(v)
    return bitarray(body, endian="little") if tag == "le" else frozenbitarray(body)


def _b(x):
    return bool(x) if isinstance(x, bool) or x in (0, 1) else repr(x)


def expected(kind, v):
    """JSON case value -> JSON-normalised value the decoded object must carry"""
    if kind in ("int", "coord", "crc_int"):
        return v
    if kind == "bool":
        return bool(v)
    if kind.startswith("enum:"):
        return v if isinstance(v, str) else lib(kind[5:])(v).name
    if kind in ("bits", "crc_bits"):
        return v if v is None else (v.partition(":")[2] if ":" in v else v)
    if kind == "bytes":
        return v
    if kind == "bytes|bits":
        tag, _, body = v.partition(":")
        return body if tag == "hex" else bitarray(body).tobytes().hex()
    if kind == "int|bits":
        return v if isinstance(v, int) else int(v.partition(":")[2], 2)
    if kind == "int|bytes":
        return v if isinstance(v, int) else int(v.partition(":")[2], 16)
    if kind == "crc8":
        return format(v, "08b") if isinstance(v, int) else v.partition(":")[2]
    if kind == "so":
        return {k: (x if k in ("reserved", "priority_level") else bool(x)) for k, x in sorted(v.items())}
    if kind == "fsn":
        return v if isinstance(v, int) else v["fsn"]
    raise AssertionError(f"unknown kind {kind}")


def observed(kind, o):
    """library attribute value -> JSON-normalised observation"""
    import enum

    if o is None:
        return None
    if kind in ("int", "crc_int", "int|bits", "int|bytes"):
        return int(o) if isinstance(o, int) else repr(o)
    if kind == "coord":
        return o if isinstance(o, (int, float)) else repr(o)
    if kind == "bool":
        return _b(o)
    if kind.startswith("enum:"):
        return o.name if isinstance(o, enum.Enum) else repr(o)
    if kind in ("bits", "crc_bits", "crc8"):
        return o.to01() if isinstance(o, bitarray) else repr(o)
    if kind in ("bytes", "bytes|bits"):
        return bytes(o).hex() if isinstance(o, (bytes, bytearray)) else repr(o)
    if kind == "so":
        if not isinstance(o, lib("ServiceOptions")):
            return repr(o)
        d = {k: _b(getattr(o, k)) for k in SO_BOOLS}
        d["priority_level"] = o.priority_level
        d["reserved"] = o.reserved.to01() if isinstance(o.reserved, bitarray) else repr(o.reserved)
        return dict(sorted(d.items()))
    if kind == "fsn":
        return o.value if isinstance(o, lib("FragmentSequenceNumber")) else repr(o)
    raise AssertionError(f"unknown kind {kind}")


def zero_like(v):
    return v is None or v == 0 or v is False or v == "" or (isinstance(v, str) and set(v.partition(":")[2] or v) <= {"0"})


GRID = Fraction(45, 2**22)  # 360/2^25 == 180/2^24 degrees


def coord_equal(exp, obs):
    """on-grid: exact; off-grid: |obs-exp| strictly below one quantisation step (exact rational arithmetic)"""
    if not isinstance(obs, (int, float)) or isinstance(obs, bool) or (isinstance(obs, float) and not math.isfinite(obs)):
        return False
    e, o = Fraction(exp), Fraction(obs)
    if (e / GRID).denominator == 1:
        return o == e
    return abs(o - e) < GRID


# ======================================================================================================================
# (a) declarative variant table


class G:
    """Generator of one field: Hypothesis strategy (sampled search) + deterministic boundary values `bnd` + the two extremes
    `ext` (fields with an order) + a seeded sampler `rnd(rng)` (backgrounds of the boundary pass) + the bit width `nbits`
    (fields with a bit structure: used to steer computed check values).  All values are plain JSON."""

    def __init__(self, strat, bnd, rnd, ext=None, nbits=None, core=None):
        self.strat, self.rnd, self.ext, self.nbits = strat, rnd, ext, nbits
        self.bnd = self._dedup(bnd)  # one-field-at-a-time pass
        self.core = self.bnd if core is None else self._dedup(core)  # compact list used for full products

    @staticmethod
    def _dedup(values):
        out = []
        for b in values:
            if not any(b == x and type(b) is type(x) for x in out):
                out.append(b)
        return out

    def map(self, fn):
        return G(self.strat.map(fn), [fn(b) for b in self.bnd], lambda r, s=self: fn(s.rnd(r)),
                 None if self.ext is None else (fn(self.ext[0]), fn(self.ext[1])), self.nbits, [fn(b) for b in self.core])


def ONE(*gs):
    from hypothesis import strategies as st

    return G(st.one_of(*[g.strat for g in gs]), [b for g in gs for b in g.bnd], lambda r: gs[r.randrange(len(gs))].rnd(r), gs[0].ext, gs[0].nbits,
             [b for g in gs for b in g.core])


def CH(values, ordered=False):
    """a choice among listed values: every one of them is a boundary value"""
    from hypothesis import strategies as st

    values = list(values)
    return G(st.sampled_from(values), values, lambda r: values[r.randrange(len(values))], (values[0], values[-1]) if ordered else None)


class Fld:
    def __init__(self, attr, kind, gen=None, kw="=", check=False, expect=None, const=False):
        self.const = const  # the variant's own opcode / format selector (not counted as a varied field)
        self.attr = attr  # attribute of the object compared after the round trip (None: constructor argument only)
        self.kind = kind
        self.gen = gen  # G of JSON values (None: not generated, compare only)
        self.strat = gen.strat if gen is not None else None
        self.kw = attr if kw == "=" else kw  # constructor keyword (None: compare only)
        self.check = check  # check field: a zero-like input means "library computes it"
        self.expect = expect  # optional f -> expected JSON value (overrides the input value)


class Variant:
    def __init__(self, name, cls, fields, nbits, decode=("from_bits",)):
        self.name, self.cls, self.fields, self._nbits, self.decode_spec = name, cls, fields, nbits, decode

    def nbits(self, f):
        return self._nbits(f) if callable(self._nbits) else self._nbits

    def decode(self, bits):
        c = lib(self.cls)
        if self.decode_spec[0] == "from_bits":
            return c.from_bits(bits)
        if self.decode_spec[0] == "from_bits_typed":
            return c.from_bits_typed(bits, lib(self.decode_spec[1])[self.decode_spec[2]])
        raise AssertionError(self.decode_spec)

    def strategy(self):
        from hypothesis import strategies as st

        d = {f.kw: f.strat for f in self.fields if f.kw is not None and f.strat is not None}
        return st.fixed_dictionaries(d).map(lambda f, n=self.name: {"variant": n, "f": f})


_VARIANTS = None


def variants():
    global _VARIANTS
    if _VARIANTS is None:
        _VARIANTS = _build_variants()
    return _VARIANTS


def _build_variants():
    from hypothesis import strategies as st

    V = {}

    def add(v):
        assert v.name not in V
        V[v.name] = v

    def ubnd(n):
        """{0, 1, max-1, max, top bit only, all ones below the top bit}; every value when the field has <= 4 bits"""
        if n <= 4:
            return list(range(1 << n))
        m = (1 << n) - 1
        return [0, 1, m - 1, m, 1 << (n - 1), (1 << (n - 1)) - 1]

    def alt(n):
        return [int(("01" * n)[:n], 2), int(("10" * n)[:n], 2)] if n >= 2 else []

    def U(n):
        """n-bit field: Hypothesis' boundary/small-biased integers mixed with uniformly distributed values"""
        m = (1 << n) - 1
        if n <= 8:
            strat = st.integers(0, m)
        else:
            k = (n + 7) // 8
            uni = st.binary(min_size=k, max_size=k).map(lambda b, n=n: int.from_bytes(b, "big") & ((1 << n) - 1))
            strat = st.one_of(st.integers(0, m), uni)
        # fields of up to 8 bits (counts, lengths, sequence numbers ...) take every value in the one-field-at-a-time pass
        return G(strat, list(range(1 << n)) if n <= 8 else ubnd(n), lambda r, n=n: r.getrandbits(n) if n else 0, (0, m), n, ubnd(n))

    B = CH([False, True], ordered=True)
    B01 = G(st.sampled_from([False, True, 0, 1]), [False, True, 0, 1], lambda r: [False, True, 0, 1][r.randrange(4)], (False, True))

    def EN(name, exclude=()):
        return CH(members(name, exclude))

    def EN_INT(name, exclude=()):
        """defined members only, handed over either as member or as its integer value"""
        E = lib(name)
        return ONE(CH(members(name, exclude)), CH([E[n].value for n in members(name, exclude)]))

    def BITS(n):
        """bit string of exactly n bits; boundary: the integer boundaries plus the two alternating patterns"""
        if n == 0:
            return CH([""])
        g = U(n)
        return G(g.strat, g.bnd + alt(n), g.rnd, g.ext, n, g.core + alt(n)).map(lambda v, n=n: format(v, f"0{n}b"))

    def CBITS(n):
        """BITS(n) handed over in one of three containers: big-endian bitarray, little-endian bitarray with the same bit
        sequence, frozenbitarray (fields the library only concatenates / slices / compares)"""
        g = BITS(n)
        if n == 0:
            return g
        le, fz = g.map(lambda b: "le:" + b), g.map(lambda b: "fz:" + b)
        return G(st.one_of(g.strat, g.strat, le.strat, fz.strat), g.bnd + le.core + fz.core, lambda r, g=g: ["", "", "le:", "fz:"][r.randrange(4)] + g.rnd(r),
                 g.ext, n, g.core + le.core[:2] + fz.core[:2])

    def HEX(n):
        g = U(8 * n)
        return G(st.binary(min_size=n, max_size=n).map(lambda b: int.from_bytes(b, "big")), g.bnd + alt(8 * n), g.rnd, g.ext, 8 * n).map(
            lambda v, n=n: format(v, f"0{2 * n}x"))

    def CRCINT(n):
        m = (1 << n) - 1
        return G(st.one_of(st.just(0), st.integers(1, m)), ubnd(n), lambda r, m=m: 0 if r.random() < 0.5 else r.randint(1, m), (0, m), n)

    def just(kind, value, attr, kw="="):
        return Fld(attr, kind, CH([value]), kw=kw, const=True)

    def so_dict(v, ints=False):
        """8-bit service-options value -> constructor arguments (wire order E, P, R, R, B, OVCM, priority(2))"""
        b = [(v >> (7 - i)) & 1 for i in range(8)]
        cv = (lambda x: x) if ints else bool
        return {"is_emergency": cv(b[0]), "is_privacy": cv(b[1]), "reserved": f"{b[2]}{b[3]}", "is_broadcast": cv(b[4]),
                "is_open_voice_call_mode": cv(b[5]), "priority_level": 2 * b[6] + b[7]}

    SO = G(st.fixed_dictionaries({"is_emergency": B01.strat, "is_privacy": B01.strat, "is_broadcast": B01.strat, "is_open_voice_call_mode": B01.strat,
                                  "priority_level": U(2).strat, "reserved": BITS(2).strat}),
           [so_dict(v) for v in range(256)] + [so_dict(v, ints=True) for v in (0, 255, 0xAA, 0x55)],
           lambda r: so_dict(r.getrandbits(8), ints=r.random() < 0.3), (so_dict(0), so_dict(255)))

    # ------------------------------------------------------------------------------------------------ CSBK (96 bits)
    def csbk(name, opcode, fields, with_last_block=True):
        common = [
            just("enum:CsbkOpcodes", opcode, "csbko"),
            Fld("last_block", "bool", B01),
            Fld("protect_flag", "bool", B01),
            Fld("feature_set", "enum:FeatureSetIDs", EN("FeatureSetIDs"), kw="manufacturers_feature_set_id"),
            Fld("crc", "crc_int", CRCINT(16), check=True),
        ]
        add(Variant("csbk." + name, "CSBK", common + fields, 96))

    csbk("bs_dwn_act", "BSOutboundActivation", [Fld("bs_address", "int", U(24)), Fld("source_address", "int", U(24))])
    csbk("uu_v_req", "UnitToUnitVoiceServiceRequest",
         [Fld("service_options", "so", SO), Fld("target_address", "int", U(24)), Fld("source_address", "int", U(24))])
    csbk("uu_ans_rsp", "UnitToUnitVoiceServiceAnswerResponse",
         [Fld("service_options", "so", SO), Fld("answer_response", "enum:AnswerResponse", EN("AnswerResponse")),
          Fld("target_address", "int", U(24)), Fld("source_address", "int", U(24))])
    csbk("nack_rsp", "NegativeAcknowledgementResponse",
         [Fld("additional_information_field", "enum:AdditionalInformationField", EN("AdditionalInformationField")),
          Fld("source_type", "enum:SourceType", EN("SourceType")),
          Fld("service_type", "enum:CsbkOpcodes", EN("CsbkOpcodes")),
          Fld("reason_code", "enum:ReasonCode", EN("ReasonCode")),
          Fld("source_address", "int", U(24)), Fld("target_address", "int", U(24))])
    csbk("pre_csbk", "PreambleCSBK",
         [Fld("csbk_content_follows_preambles", "bool", B01), Fld("target_address_is_individual", "bool", B01),
          Fld("blocks_to_follow", "int", U(8)), Fld("target_address", "int", U(24)), Fld("source_address", "int", U(24))])
    csbk("ct_csbk", "ChannelTimingCSBK",
         [Fld("sync_age", "int", U(11)), Fld("generation", "int", U(5)), Fld("leader_identifier", "int", U(20)),
          Fld("new_leader", "int", CH([0, 1, False, True]), expect=lambda f: int(f["new_leader"])),
          Fld("leader_dynamic_identifier", "enum:DynamicIdentifier", EN_INT("DynamicIdentifier")),
          Fld("channel_timing_opcode", "enum:ChannelTimingOpcode", EN_INT("ChannelTimingOpcode")),
          Fld("source_identifier", "int", U(20)),
          Fld("source_dynamic_identifier", "enum:DynamicIdentifier", EN_INT("DynamicIdentifier"))])
    csbk("hytera_ipsc_sync", "HyteraIPSCSync",
         [Fld("raw_data", "bytes|bits", ONE(HEX(8).map(lambda h: "hex:" + h), BITS(64).map(lambda b: "bits:" + b)))])
    csbk("c_aloha", "AlohaPDUsForRandomAccessProtocol",
         [Fld("tsccas_support", "bool", B), Fld("site_timeslot_synchronized", "bool", B), Fld("document_version_control", "int", U(3)),
          Fld("tscc_is_offset_timing", "bool", B), Fld("ts_active_connection", "bool", B), Fld("aloha_mask", "int", U(5)),
          Fld("service_function", "enum:RandomAccessServiceFunction", EN_INT("RandomAccessServiceFunction")),
          Fld("nrand_wait", "int", U(4)), Fld("tscc_reg_required", "bool", B), Fld("tscc_backoff", "int", U(4)),
          Fld("system_identity_code", "int", U(16)), Fld("target_address", "int", U(24))])
    csbk("c_bcast", "AnnouncementPDUsWithoutResponse",
         [Fld("announcement_type", "enum:AnnouncementType", EN("AnnouncementType")), Fld("broadcast_params", "bits", CBITS(38)),
          Fld("tscc_reg_required", "bool", B), Fld("tscc_backoff", "int", U(4)), Fld("system_identity_code", "int", U(16))])

    # ------------------------------------------------------------------------------------------------ data headers (96 bits)
    _c16 = G(st.integers(1, 0xFFFF), ubnd(16)[1:], lambda r: r.randint(1, 0xFFFF), (1, 0xFFFF), 16).map(lambda v: format(v, "016b"))
    CRC16B = ONE(CH([None, "0" * 16]), _c16, G(_c16.strat.map(lambda b: "fz:" + b), ["fz:" + b for b in _c16.core[:2]], lambda r: "fz:" + _c16.rnd(r), None, 16))

    def dh(name, dpf, fields):
        common = [
            just("enum:DataPacketFormats", dpf, "data_packet_format", kw="dpf"),
            Fld("crc", "crc_bits", CRC16B, check=True),
            Fld("sap_identifier", "enum:SAPIdentifier", EN("SAPIdentifier")),
            Fld("llid_destination", "int", U(24)),
            Fld("llid_source", "int", U(24)),
        ]
        add(Variant("dh." + name, "DataHeader", common + fields, 96))

    FSN = ONE(U(4), U(4).map(lambda v: {"fsn": v}))
    F_FLAG = Fld("full_message_flag", "enum:FullMessageFlag", EN("FullMessageFlag"))
    dh("confirmed", "DataPacketConfirmed",
       [Fld("is_group", "bool", B01), Fld("is_response_requested", "bool", B01), Fld("pad_octet_count", "int", U(5)), F_FLAG,
        Fld("blocks_to_follow", "int", U(7)), Fld("resynchronize_flag", "enum:ResynchronizeFlag", EN("ResynchronizeFlag")),
        Fld("send_sequence_number", "int", U(3)), Fld("fragment_sequence_number", "fsn", FSN)])
    dh("unconfirmed", "DataPacketUnconfirmed",
       [Fld("is_group", "bool", B01), Fld("is_response_requested", "bool", B01), Fld("pad_octet_count", "int", U(5)), F_FLAG,
        Fld("blocks_to_follow", "int", U(7)), Fld("fragment_sequence_number", "fsn", FSN)])
    dh("response", "ResponsePacket",
       [Fld("is_response_requested", "bool", B01), F_FLAG, Fld("blocks_to_follow", "int", U(7)), Fld("response_class", "int", U(2)),
        Fld("response_type", "int", U(3)), Fld("response_status", "int", U(3))])
    dh("short_data_defined", "ShortDataDefined",
       [Fld("is_group", "bool", B01), Fld("is_response_requested", "bool", B01), Fld("appended_blocks", "int", U(6)),
        Fld("defined_data_format", "enum:DefinedDataFormats", EN("DefinedDataFormats")), Fld("sarq", "enum:SARQ", EN("SARQ")), F_FLAG,
        Fld("bit_padding", "bits", CBITS(8))])
    dh("udt", "UnifiedDataTransport",
       [Fld("is_group", "bool", B01), Fld("is_response_requested", "bool", B01), Fld("is_emergency", "bool", B01),
        Fld("udt_option_flag", "enum:UDTOptionFlag", EN("UDTOptionFlag")), Fld("udt_format", "enum:UDTFormat", EN("UDTFormat")),
        Fld("pad_nibbles_count", "int", U(5)), Fld("appended_blocks", "int", U(2)),
        Fld("supplementary_flag", "enum:SupplementaryFlag", EN("SupplementaryFlag")), Fld("udt_opcode", "enum:CsbkOpcodes", EN("CsbkOpcodes"))])

    # ------------------------------------------------------------------------------------------------ full LC (96 / 77 bits)
    step = 360 / 2**25

    def coord(nmin, nmax, lim, grid):
        """grid=True: on-grid k*step (exact in binary64).  grid=False: off-grid (k + i/2^20)*step (also exact, so the class is what
        it says; k = nmax gives values within one step below the upper bound) or an arbitrary float of the half-open range.
        Boundary values: the most negative / most positive raw values and their neighbours, +-1 around zero; off-grid: the first
        and last quantisation step of the range and both sides of zero at 1/2^20, 1/2 and 1-1/2^20 of a step, the largest float
        below the upper bound, the smallest positive / negative floats."""
        n = st.one_of(st.sampled_from([nmin, nmax, nmax - 1, 0, -1, 1]), st.integers(nmin, nmax), U(24).strat.map(lambda v: nmin + v % (nmax - nmin + 1)))
        if grid:
            ks = [nmin, nmin + 1, -2, -1, 0, 1, 2, nmax - 1, nmax, 1 << 22, -(1 << 22)]
            return G(n.map(lambda k: k * step), [k * step for k in ks], lambda r: r.randint(nmin, nmax) * step, (nmin * step, nmax * step))
        num = st.one_of(st.sampled_from([1, 2**19 - 1, 2**19, 2**19 + 1, 2**20 - 1]), U(20).strat.map(lambda v: v or 1))
        off = st.tuples(n, num).map(lambda a: (a[0] + a[1] / 2**20) * step)
        edge = st.tuples(st.sampled_from([nmax, nmin, -1, 0]), num).map(lambda a: (a[0] + a[1] / 2**20) * step)  # last / first step, around zero
        top = math.nextafter(float(lim), 0.0)
        bnd = [(k + i / 2**20) * step for k in (nmax, nmax - 1, nmin, -1, 0, 1) for i in (1, 2**19 - 1, 2**19, 2**19 + 1, 2**20 - 1)]
        bnd += [top, -float(lim), 5e-324, -5e-324, float(lim) / 2 + 1e-9]
        return G(st.one_of(off, off, edge, st.floats(-float(lim), float(lim), exclude_max=True, allow_nan=False)), bnd,
                 lambda r: (r.randint(nmin, nmax - 1) + r.randint(1, 2**20 - 1) / 2**20) * step, (-float(lim), top))

    def flc(name, flco, fields):
        for crclen in (24, 5):
            common = [
                Fld("protect_flag", "bool", B01),
                just("enum:FLCOs", flco, "full_link_control_opcode", kw="flco"),
                Fld("feature_set_id", "enum:FeatureSetIDs", EN("FeatureSetIDs"), kw="fid"),
                Fld("crc", "bits", CBITS(crclen)),
            ]
            add(Variant(f"flc.{name}.{72 + crclen}", "FullLinkControl", common + fields, 72 + crclen))

    flc("grp_v_ch_usr", "GroupVoiceChannelUser", [Fld("service_options", "so", SO), Fld("group_address", "int", U(24)), Fld("source_address", "int", U(24))])
    flc("uu_v_ch_usr", "UnitToUnitVoiceChannelUser", [Fld("service_options", "so", SO), Fld("target_address", "int", U(24)), Fld("source_address", "int", U(24))])
    for gname, grid in (("gps_info", True), ("gps_info_offgrid", False)):
        flc(gname, "GPSInfo",
            [Fld("position_error", "enum:PositionError", EN("PositionError")), Fld("longitude", "coord", coord(-(2**24), 2**24 - 1, 180, grid)),
             Fld("latitude", "coord", coord(-(2**23), 2**23 - 1, 90, grid))])
    flc("ta_header", "TalkerAliasHeader",
        [Fld("talker_alias_data_format", "enum:TalkerAliasDataFormat", EN("TalkerAliasDataFormat")), Fld("talker_alias_data_length", "int", U(5)),
         Fld("talker_alias_data_msb", "bool", B01), Fld("talker_alias_data", "bytes", HEX(6))])
    for i in (1, 2, 3):
        flc(f"ta_block{i}", f"TalkerAliasBlock{i}", [Fld("talker_alias_data", "bytes", HEX(7))])

    # ------------------------------------------------------------------------------------------------ short LC (36 bits)
    CRC8 = ONE(CRCINT(8), CRCINT(8).map(lambda v: "bits:" + format(v, "08b")))
    add(Variant("slc.null", "ShortLinkControl", [just("enum:SLCOs", "NullMessage", "slco"), Fld("crc_8bit", "crc8", CRC8, check=True)], 36))
    add(Variant("slc.activity", "ShortLinkControl",
                [just("enum:SLCOs", "ActivityUpdate", "slco"), Fld("crc_8bit", "crc8", CRC8, check=True),
                 Fld("ts1_activity_id", "enum:ActivityID", EN("ActivityID")), Fld("ts2_activity_id", "enum:ActivityID", EN("ActivityID")),
                 Fld("ts1_address", "bits", CBITS(8)), Fld("ts2_address", "bits", CBITS(8))], 36))

    # ------------------------------------------------------------------------------------------------ PI header (96 bits)
    add(Variant("pi_header", "PIHeader", [Fld("data", "bytes", HEX(10)), Fld("crc", "crc_int", G(st.just(0), [0], lambda r: 0, None, 16), check=True)], 96))

    # ------------------------------------------------------------------------------------------------ rate 1/2, 3/4, 1 data
    def DATA(n):
        return ONE(HEX(n).map(lambda h: "hex:" + h), BITS(8 * n).map(lambda b: "bits:" + b))

    CRC32 = ONE(U(32), HEX(4).map(lambda h: "hex:" + h))
    DBSN = ONE(U(7), BITS(7).map(lambda b: "bits:" + b))
    for cls, tcls, total in (("Rate12Data", "Rate12DataTypes", 12), ("Rate34Data", "Rate34DataTypes", 18), ("Rate1Data", "Rate1DataTypes", 24)):
        for tname, conf, last in (("Unconfirmed", 0, 0), ("Confirmed", 1, 0), ("UnconfirmedLastBlock", 0, 1), ("ConfirmedLastBlock", 1, 1)):
            n = total - 2 * conf - 4 * last
            fields = [
                Fld("data", "bytes|bits", DATA(n)),
                Fld("packet_type", f"enum:{tcls}", CH([tname, "Undefined"]), expect=lambda f, t=tname: t),
            ]
            if conf:
                fields += [Fld("dbsn", "int|bits", DBSN), Fld("crc9", "crc_int", CRCINT(9), check=True)]
            if last:
                fields += [Fld("crc32", "int|bytes", CRC32)]
            add(Variant(f"{cls.lower()}.{tname}", cls, fields, 8 * total, decode=("from_bits_typed", tcls, tname)))
        add(Variant(f"{cls.lower()}.Unconfirmed.from_bits", cls,
                    [Fld("data", "bytes|bits", DATA(total)), Fld("packet_type", f"enum:{tcls}", None, kw=None, expect=lambda f: "Unconfirmed")], 8 * total))

    # ------------------------------------------------------------------------------------------------ UDP/IPv4 compressed header
    PORT_NZ = ONE(G(st.integers(1, 127), [1, 2, 3, 4, 63, 64, 93, 94, 95, 96, 126, 127], lambda r: r.randint(1, 127), (1, 127), None),
                  CH(members("UDPPortIdentifier", exclude=("InExtendedHeader",))))
    PORT_Z = CH([0, "InExtendedHeader"])

    def _pat(n):
        return [("0" * n), ("1" * n), ("01" * n)[:n], ("10" * n)[:n]]

    # user data: whole octets or any bit count; boundary: empty (the header fits exactly), one bit, 7/8/9 bits, long strings
    UDATA = G(st.one_of(st.integers(0, 24).flatmap(lambda k: BITS(8 * k).strat), st.integers(0, 70).flatmap(lambda k: BITS(k).strat)),
              [""] + [p_ for n_ in (1, 7, 8, 9, 16, 70, 192) for p_ in _pat(n_)] + ["le:" + _pat(16)[2], "fz:" + _pat(16)[3], "le:" + "1" * 9, "fz:1"],
              lambda r: ["", "", "le:", "fz:"][r.randrange(4)] + format(r.getrandbits(8 * k), f"0{8 * k}b") if (k := r.randint(0, 24)) else "", ("", "1" * 192))

    # explicit port of an extended header: any 16-bit value, with a share of the ports that have an identifier of their own
    # (and their neighbours / other application ports) - see vp/refs/elements_ref.DEDICATED
    _xp = elements_ref.dedicated_values("UDPPortIdentifier") + elements_ref.EXPLICIT_DECOYS["UDPPortIdentifier"]
    XPORT = G(st.one_of(U(16).strat, U(16).strat, st.sampled_from(_xp)), U(16).bnd, U(16).rnd, (0, 0xFFFF), 16, U(16).core)

    def port_original(key):
        return lambda f: f[key] if isinstance(f[key], int) else lib("UDPPortIdentifier")[f[key]].value

    for name, sp, dp, next_ in (("ext0", PORT_NZ, PORT_NZ, 0), ("ext1_src", PORT_Z, PORT_NZ, 1), ("ext1_dst", PORT_NZ, PORT_Z, 1), ("ext2", PORT_Z, PORT_Z, 2)):
        fields = [
            Fld("ipv4_identification", "int", U(16)),
            Fld("source_ip_address_id", "enum:IPAddressIdentifier", EN_INT("IPAddressIdentifier")),
            Fld("destination_ip_address_id", "enum:IPAddressIdentifier", EN_INT("IPAddressIdentifier")),
            Fld("udp_source_port_id", "enum:UDPPortIdentifier", sp),
            Fld("udp_destination_port_id", "enum:UDPPortIdentifier", dp),
            Fld("udp_source_port_original", "int", None, kw=None, expect=port_original("udp_source_port_id")),
            Fld("udp_destination_port_original", "int", None, kw=None, expect=port_original("udp_destination_port_id")),
            Fld("user_data", "bits", UDATA),
            Fld("extended_header_1", "int", XPORT if next_ >= 1 else CH([None])),
            Fld("extended_header_2", "int", XPORT if next_ >= 2 else CH([None])),
        ]
        add(Variant("udp." + name, "UDPIPv4CompressedHeader", fields, lambda f, k=next_: 40 + 16 * k + len(f["user_data"].partition(":")[2] if ":" in f["user_data"] else f["user_data"])))

    # ------------------------------------------------------------------------------------------------ slot type, EMB, small classes
    add(Variant("slot_type", "SlotType",
                [Fld("colour_code", "int", U(4)), Fld("data_type", "enum:DataTypes", EN_INT("DataTypes")),
                 Fld("fec_parity", "crc_int", CRCINT(12), kw="parity", check=True)], 20))
    add(Variant("emb", "EmbeddedSignalling",
                [Fld("colour_code", "int", U(4)),
                 Fld("preemption_and_power_control_indicator", "enum:PreemptionPowerIndicator", CH([0, 1], ordered=True)),
                 Fld("link_control_start_stop", "enum:LCSS", EN_INT("LCSS")),
                 Fld("emb_parity", "crc_int", CRCINT(9), check=True)], 16))
    add(Variant("service_options", "ServiceOptions",
                [Fld(k, "bool", B01) for k in SO_BOOLS] + [Fld("priority_level", "int", U(2)), Fld("reserved", "bits", CBITS(2))], 8))
    add(Variant("fsn", "FragmentSequenceNumber", [Fld("value", "int", U(4))], 4))
    return V


def _diffpos(a, b):
    return {"len": [len(a), len(b)], "differing_positions": [i for i in range(min(len(a), len(b))) if a[i] != b[i]][:40]}


def oracle_build(case):
    """case = {variant, f: {constructor keyword: JSON value}}"""
    v = variants()[case["variant"]]
    f = case["f"]
    kwargs = {fl.kw: to_lib(fl.kind, f[fl.kw]) for fl in v.fields if fl.kw is not None and fl.kw in f}
    _, p = call(lib(v.cls), **kwargs)
    _, bits = call(p.as_bits)
    if not isinstance(bits, bitarray):
        raise Fail("serialises_to_bits", repr(bits), "bitarray", klass=v.name)
    n = v.nbits(f)
    if len(bits) != n:
        raise Fail("fixed_length", len(bits), n, klass=v.name)
    first = bitarray(bits)
    _, q = call(v.decode, bitarray(bits))
    if q is None or not isinstance(q, lib(v.cls)):
        raise Fail("decode_returns_object", repr(q), v.cls, klass=v.name)
    _compare_fields(v, f, p, q, "roundtrip_fields_equal")
    _, bits2 = call(q.as_bits)
    if not isinstance(bits2, bitarray) or bits2 != first:
        raise Fail("roundtrip_bits_equal", _diffpos(bits2, first) if isinstance(bits2, bitarray) else repr(bits2), "identical bits", klass=v.name)
    # byte interface (CSBK, data header, full LC, UDP/IPv4 header): same statement through as_bytes / from_bytes, where the
    # PDU is a whole number of octets (the 77-bit full LC travels as 10 octets, from_bytes strips the 3 pad bits)
    if v.decode_spec[0] == "from_bits" and v.cls in BYTE_CLASSES and (n % 8 == 0 or (v.cls == "FullLinkControl" and n == 77)):
        _, by = call(p.as_bytes)
        if not isinstance(by, (bytes, bytearray)) or len(by) != (n + 7) // 8:
            raise Fail("fixed_length_bytes", repr(by), (n + 7) // 8, klass=v.name)
        _, qb = call(lib(v.cls).from_bytes, bytes(by))
        if qb is None or not isinstance(qb, lib(v.cls)):
            raise Fail("decode_returns_object", repr(qb), v.cls, klass=v.name + ".from_bytes")
        _compare_fields(v, f, p, qb, "roundtrip_fields_equal_via_bytes")
        _, by2 = call(qb.as_bytes)
        if by2 != by:
            raise Fail("roundtrip_bytes_equal", repr(by2), repr(by), klass=v.name)


BYTE_CLASSES = ("CSBK", "DataHeader", "FullLinkControl", "UDPIPv4CompressedHeader")


def _compare_fields(v, f, p, q, clause):
    for fl in v.fields:
        if fl.attr is None:
            continue
        given = f.get(fl.kw) if fl.kw is not None else None
        if fl.expect is not None:
            exp = fl.expect(f)
        elif fl.check and zero_like(given):
            exp = observed(fl.kind, getattr(p, fl.attr))  # value the library computed at construction time
        elif fl.kind == "crc8" and isinstance(given, int):
            # an integer check value is stored as 8 bits in the library's own bit order (LSB first since the crc_ok repair,
            # MSB first before): the statement only asks that the decoded field equals the built one - and the built one
            # must still be the given number in one of the two orders
            exp = observed(fl.kind, getattr(p, fl.attr))
            if exp not in (format(given, "08b"), format(given, "08b")[::-1]):
                raise Fail("constructor_keeps_field", exp, format(given, "08b") + " (either bit order)", klass=f"{v.name}.{fl.attr}")
        else:
            exp = expected(fl.kind, given)
        if not hasattr(q, fl.attr):
            raise Fail(clause, "attribute missing", exp, klass=f"{v.name}.{fl.attr}")
        obs = observed(fl.kind, getattr(q, fl.attr))
        same = coord_equal(exp, obs) if fl.kind == "coord" else (obs == exp and type(obs) is type(exp))
        if not same:
            raise Fail(clause, obs, exp, klass=f"{v.name}.{fl.attr}")


def _nontrivial_fields(case):
    const = {fl.kw for fl in variants()[case["variant"]].fields if fl.const}
    return sum(0 if (k in const or zero_like(x)) else 1 for k, x in case["f"].items())


def _coord_class(x, lim):
    if (Fraction(x) / GRID).denominator == 1:
        return "on_grid"
    return "off_grid_top_step" if Fraction(x) > lim - GRID else "off_grid"


def _record_build(sub):
    def rec(c, t: Tally):
        t.case(sub, key=c, nontrivial=_nontrivial_fields(c) >= 2, cls=c["variant"])
        if ".gps_info" in c["variant"]:
            t.cls(sub, "gps:longitude:" + _coord_class(c["f"]["longitude"], 180))
            t.cls(sub, "gps:latitude:" + _coord_class(c["f"]["latitude"], 90))

    return rec


def drv_build(ctx: Ctx, sub: SubCheck):
    names = list(variants())
    parts = ctx.pick(2, 4)  # several independently seeded runs per variant: evens out the 16 workers
    n = ctx.pick(340, 5000) // parts

    def work(item, t: Tally):
        name, part = item
        v = variants()[name]
        ctx.hypothesis(sub.name, v.strategy(), oracle_build, n, tally=t, shard=f"{name}#{part}",
                       record=_record_build(sub.name))

    ctx.shards(work, [(name, part) for part in range(parts) for name in names])
    ctx.tally.extra["build_variants"] = len(names)


# ---------------------------------------------------------------------------------------------- deterministic boundary pass


def _jkey(o):
    import json

    return json.dumps(o, sort_keys=True)


def toggle_json(kind, v, i, nbits):
    """flip bit i (0 = least significant / last) of a JSON field value with a bit structure; None when the form has none"""
    if isinstance(v, bool) or v is None or isinstance(v, (dict, float)):
        return None
    if isinstance(v, int):
        return v ^ (1 << i)
    tag, sep, body = v.partition(":")
    if not sep:
        tag, body = ("hex" if kind == "bytes" else "bits"), v
    if tag == "hex":
        out = format(int(body, 16) ^ (1 << i), f"0{len(body)}x")
    else:
        out = format(int(body, 2) ^ (1 << i), f"0{len(body)}b")
    return (tag + ":" + out) if sep else out


def _check_value(v, f):
    """the check value the library computes for case fields f (driver-side steering aid, never part of a judgement)"""
    chk = [fl for fl in v.fields if fl.check][0]
    kwargs = {fl.kw: to_lib(fl.kind, f[fl.kw]) for fl in v.fields if fl.kw is not None and fl.kw in f}
    o = observed(chk.kind, getattr(lib(v.cls)(**kwargs), chk.attr))
    return o if isinstance(o, int) else int(o, 2)


def boundary_cases(v, rng):
    """Deterministic cases of one variant (labelled): every boundary value of every field, one field at a time over two seeded
    backgrounds; all pairs of ordered fields at (max, max), (0, max), (max, 0); all fields at their minimum / maximum; the full
    product of the boundary lists when it is small; computed check values steered to their extremes."""
    import itertools

    gens = [(fl, fl.gen) for fl in v.fields if fl.kw is not None and fl.gen is not None]
    bgs = [{fl.kw: g.rnd(rng) for fl, g in gens} for _ in range(2)]
    varied = [(fl, g) for fl, g in gens if not fl.const]
    out = []
    for fl, g in varied:
        for b in g.bnd:
            for bg in bgs:
                out.append(("one_field", dict(bg, **{fl.kw: b})))
    ordered = [(fl, g) for fl, g in varied if g.ext is not None]
    for (f1, g1), (f2, g2) in itertools.combinations(ordered, 2):
        for a, b in ((1, 1), (0, 1), (1, 0)):
            for bg in bgs:
                out.append(("pair", dict(bg, **{f1.kw: g1.ext[a], f2.kw: g2.ext[b]})))
    for side in (0, 1):
        for bg in bgs:
            out.append(("all_extreme", dict(bg, **{fl.kw: g.ext[side] for fl, g in ordered})))
    size = 1
    for fl, g in varied:
        size *= len(g.core)
    if size <= 3000:
        for combo in itertools.product(*[g.core for fl, g in varied]):
            out.append(("product", dict(bgs[0], **{fl.kw: b for (fl, g), b in zip(varied, combo)})))
    out.extend(_dedicated_code_cases(v, bgs, varied))
    out.extend(_check_extreme_cases(v, bgs))
    seen, res = set(), []
    for label, f in out:
        k = _jkey(f)
        if k not in seen:
            seen.add(k)
            res.append((label, {"variant": v.name, "f": f}))
    return res


def set_window(kind, v, pos, width, code):
    """write `code` into `width` bits of a JSON bit/byte-string value, `pos` bits from its first bit; None if it does not fit"""
    if not isinstance(v, str):
        return None
    tag, sep, body = v.partition(":")
    if not sep:
        tag, body = ("hex" if kind == "bytes" else "bits"), v
    n = 4 * len(body) if tag == "hex" else len(body)
    if n < pos + width or code >> width or not body:
        return None
    val = int(body, 16 if tag == "hex" else 2)
    shift = n - pos - width
    val = (val & ~(((1 << width) - 1) << shift)) | (code << shift)
    out = format(val, f"0{len(body)}x") if tag == "hex" else format(val, f"0{n}b")
    return (tag + ":" + out) if sep else out


def _variant_codes(v):
    """(codes, meanings): the integer values of all members of every identifier / enum element the variant carries (values
    that have a dedicated code elsewhere in the same PDU), and the explicit values those members stand for according to
    vp/refs/elements_ref.DEDICATED with their +-1 neighbours and the decoy values of the same kind."""
    import enum

    codes, meanings, decoys = set(), set(), set()
    for fl in v.fields:
        if fl.kind.startswith("enum:"):
            name = fl.kind[5:]
            codes.update(m.value for m in lib(name) if isinstance(m.value, int) and not isinstance(m.value, bool) and m.value >= 0)
            meanings.update(elements_ref.dedicated_values(name))
            decoys.update(elements_ref.EXPLICIT_DECOYS.get(name, []))
    return sorted(codes), sorted(meanings), sorted(decoys)


def _dedicated_code_cases(v, bgs, varied):
    """A free-form field holding a value that has a dedicated code elsewhere in the same PDU: every free-form integer field
    takes every member value of every enum the variant carries and every explicit value such a member stands for (+-1, plus
    decoys); wide free-form fields take the explicit values pairwise (source and destination together); bit / byte string
    fields take them in their first and last 8 / 16 bits; small integer fields of one variant take equal and adjacent values
    (length-like fields against each other).  The variant table already puts the identifier at its escape member where an
    explicit field exists (udp.ext1_src / ext1_dst / ext2)."""
    import itertools

    codes, meanings, decoys = _variant_codes(v)
    out = []
    free_int = [(fl, g) for fl, g in varied if not fl.check and g.nbits and fl.kind in ("int", "int|bits", "int|bytes")]
    for fl, g in free_int:
        for c in dict.fromkeys(codes + meanings + decoys):
            if c >> g.nbits:
                continue
            for bg in bgs:
                out.append(("dedicated_code", dict(bg, **{fl.kw: c})))
    wide = [(fl, g) for fl, g in free_int if g.nbits >= 16]
    for (f1, g1), (f2, g2) in itertools.combinations(wide, 2):
        for m1 in meanings:
            for m2 in meanings:
                if not (m1 >> g1.nbits or m2 >> g2.nbits):
                    for bg in bgs:
                        out.append(("dedicated_code_pair", dict(bg, **{f1.kw: m1, f2.kw: m2})))
    strings = [(fl, g) for fl, g in varied if not fl.check and fl.kind in ("bits", "bytes", "bytes|bits")]
    for fl, g in strings:
        for c in dict.fromkeys(codes + meanings):
            width = 8 if c < 256 else 16
            for bg in bgs:
                base = bg[fl.kw]
                n = (4 if (fl.kind == "bytes" or str(base).startswith("hex:")) else 1) * len(str(base).partition(":")[2] or str(base))
                for pos in (0, n - width):
                    w = set_window(fl.kind, base, pos, width, c) if pos >= 0 else None
                    if w is not None:
                        out.append(("dedicated_code_in_string", dict(bg, **{fl.kw: w})))
    small = [(fl, g) for fl, g in free_int if g.nbits <= 8]
    for (f1, g1), (f2, g2) in itertools.combinations(small, 2):
        top = min((1 << g1.nbits), (1 << g2.nbits)) - 1
        for a in dict.fromkeys([0, 1, 2, top // 2, top - 1, top]):
            for da, db in ((0, 0), (0, 1), (1, 0)):
                if a + da <= (1 << g1.nbits) - 1 and a + db <= (1 << g2.nbits) - 1:
                    for bg in bgs:
                        out.append(("equal_or_adjacent_pair", dict(bg, **{f1.kw: a + da, f2.kw: a + db})))
    return out


def _check_extreme_cases(v, bgs):
    """Cases whose *computed* check value (CRC / parity generated by the library for a zero input) is 0, 1, max-1, max, the top
    bit only, or all ones below it.  CRCs are affine over GF(2): the effect of every single-bit toggle of the other fields on the
    computed value is measured through the library, and the combination that reaches the target is found by elimination.
    Pure steering - whether a target was hit is re-measured and only labels the case."""
    chks = [fl for fl in v.fields if fl.check and fl.gen is not None and fl.gen.nbits]
    if not chks:
        return []
    chk = chks[0]
    n = chk.gen.nbits
    out = []
    zero = {"crc_int": 0, "crc_bits": None, "crc8": 0}[chk.kind]
    for bg in bgs:
        base = dict(bg, **{chk.kw: zero})
        try:
            c0 = _check_value(v, base)
            basis = {}  # pivot bit -> (delta, set of toggles)
            for fl in v.fields:
                if fl is chk or fl.const or fl.gen is None or fl.kw is None or not fl.gen.nbits or len(basis) == n:
                    continue
                for i in range(fl.gen.nbits):
                    t = toggle_json(fl.kind, base[fl.kw], i, fl.gen.nbits)
                    if t is None:
                        break
                    d, togs = _check_value(v, dict(base, **{fl.kw: t})) ^ c0, {(fl.kw, i)}
                    while d:
                        pv = d.bit_length() - 1
                        if pv not in basis:
                            basis[pv] = (d, togs)
                            break
                        d, togs = d ^ basis[pv][0], togs ^ basis[pv][1]
                    if len(basis) == n:
                        break
            m = (1 << n) - 1
            for target in dict.fromkeys([0, 1, m - 1, m, 1 << (n - 1), (1 << (n - 1)) - 1]):
                d, togs = target ^ c0, set()
                while d:
                    pv = d.bit_length() - 1
                    if pv not in basis:
                        break
                    d, togs = d ^ basis[pv][0], togs ^ basis[pv][1]
                if d:
                    continue
                f = dict(base)
                kinds = {fl.kw: fl for fl in v.fields if fl.kw}
                for kw, i in sorted(togs):
                    f[kw] = toggle_json(kinds[kw].kind, f[kw], i, kinds[kw].gen.nbits)
                hit = _check_value(v, f) == target
                out.append(("check_extreme_hit" if hit else "check_extreme_miss", f))
                if hit and target and chk.kind != "crc8":  # the same PDU with the extreme value handed in explicitly
                    out.append(("check_extreme_given", dict(f, **{chk.kw: target if chk.kind == "crc_int" else format(target, f"0{n}b")})))
        except Exception:
            out.append(("check_extreme_steering_failed", base))
    return out


def drv_build_boundary(ctx: Ctx, sub: SubCheck):
    def work(name, t: Tally):
        v = variants()[name]
        for label, case in boundary_cases(v, ctx.rng("boundary", name)):
            ctx.run_case(sub.name, oracle_build, case, t)
            t.case(sub.name, key=case, nontrivial=_nontrivial_fields(case) >= 2, cls=f"{label}")
            t.cls(sub.name, f"variant:{name}")

    ctx.shards(work, list(variants()))


# ======================================================================================================================
# (b) decode arbitrary right-length strings

IMPL_CSBKO = [0b111000, 0b000100, 0b000101, 0b100110, 0b111101, 0b000111, 0b001000, 0b011001, 0b101000]  # read off CSBK.from_bits
IMPL_DPF = [0b0000, 0b0001, 0b0010, 0b0011, 0b1101]
IMPL_FLCO = [0b000000, 0b000011, 0b000100, 0b000101, 0b000110, 0b000111, 0b001000]
_LAST = {}


class Dec:
    def __init__(self, name, cls, n, allowed, templates, method="from_bits", typed=None, lengths=None, slots=None):
        self.name, self.cls, self.n, self.allowed, self.templates, self.method, self.typed, self.lengths = name, cls, n, allowed, templates, method, typed, lengths
        # explicit-value slots: [{"force": [(lo, hi, values)] identifier(s) at the escape member, "fields": [(lo, hi)] free-form
        # fields that then carry the value explicitly, "elem": identifier element of vp/refs/elements_ref.DEDICATED, "min_len": n}]
        self.slots = slots or []

    def run(self, bits: bitarray):
        c = lib(self.cls)
        if self.method == "from_bits":
            return c.from_bits(bits)
        if self.method == "from_bytes":
            return c.from_bytes(bits.tobytes())
        if self.method == "from_bits_typed":
            return c.from_bits_typed(bits, lib(self.typed[0])[self.typed[1]])
        raise AssertionError(self.method)

    def ser(self, obj):
        return bitarray_from_bytes(obj.as_bytes()) if self.method == "from_bytes" else obj.as_bits()

    def out_len(self, in_len):
        """length of the serialisation of an accepted object"""
        if self.method == "from_bytes":
            return in_len
        return in_len

    def strategy(self):
        from hypothesis import strategies as st

        def mk(n):
            k = (n + 7) // 8
            uniform = st.binary(min_size=k, max_size=k).map(lambda b: int.from_bytes(b, "big") >> (8 * k - n))
            # mostly uniformly distributed strings; a share of Hypothesis' sparse / boundary-biased integers (all-zero, all-one,
            # few low bits set)
            base = st.one_of(uniform, uniform, uniform, st.integers(0, (1 << n) - 1))

            def force(args, tpl):
                val = args[0]
                for (lo, hi, _), x in zip(tpl, args[1:]):
                    w = hi - lo
                    shift = n - hi
                    val = (val & ~(((1 << w) - 1) << shift)) | (x << shift)
                return format(val, f"0{n}b")

            opts = [base.map(lambda v: format(v, f"0{n}b"))]
            for tpl in self.templates:
                if any(hi > n for lo, hi, _ in tpl):
                    continue
                opts.append(st.tuples(base, *[st.sampled_from(vals) for lo, hi, vals in tpl]).map(lambda a, tpl=tpl: force(a, tpl)))
            return st.one_of(opts)

        if self.lengths is None:
            s = mk(self.n)
        else:
            s = self.lengths.flatmap(mk)
        if self.method == "from_bytes":
            return s.map(lambda b, d=self.name: {"dec": d, "bits": b})
        return st.tuples(s, st.sampled_from([None, None, None, "frozen"])).map(
            lambda a, d=self.name: {"dec": d, "bits": a[0]} if a[1] is None else {"dec": d, "bits": a[0], "rep": a[1]})


def bitarray_from_bytes(b):
    out = bitarray(endian="big")
    out.frombytes(bytes(b))
    return out


_DECODERS = None


def decoders():
    global _DECODERS
    if _DECODERS is None:
        _DECODERS = _build_decoders()
    return _DECODERS


def _build_decoders():
    from hypothesis import strategies as st

    D = {}

    def add(d):
        assert d.name not in D
        D[d.name] = d

    csbko_defined = [m.value for m in lib("CsbkOpcodes")]
    VE, KE, NI, AE = ValueError, KeyError, NotImplementedError, AssertionError
    csbk_t = [
        [(2, 8, IMPL_CSBKO)],
        [(2, 8, IMPL_CSBKO), (80, 96, [0])],
        [(2, 8, [0b000101]), (24, 32, [0x20, 0x21])],
        [(2, 8, [0b100110]), (18, 24, csbko_defined), (24, 32, [0x21])],
    ]
    add(Dec("csbk.from_bits", "CSBK", 96, (VE, NI), csbk_t))
    add(Dec("csbk.from_bytes", "CSBK", 96, (VE, NI), csbk_t, method="from_bytes"))
    dh_t = [[(4, 8, IMPL_DPF)], [(4, 8, IMPL_DPF), (80, 96, [0])], [(4, 8, [0]), (74, 80, csbko_defined)], [(4, 8, [0]), (74, 80, csbko_defined), (80, 96, [0])]]
    add(Dec("dh.from_bits", "DataHeader", 96, (VE, NI), dh_t))
    add(Dec("dh.from_bytes", "DataHeader", 96, (VE, NI), dh_t, method="from_bytes"))
    flc_t = [[(2, 8, IMPL_FLCO)], [(2, 8, IMPL_FLCO + [0b110000])]]
    add(Dec("flc.from_bits.96", "FullLinkControl", 96, (VE, KE), flc_t))
    add(Dec("flc.from_bits.77", "FullLinkControl", 77, (VE, KE), flc_t))
    add(Dec("flc.from_bytes.12", "FullLinkControl", 96, (VE, KE), flc_t, method="from_bytes"))
    add(Dec("flc.from_bytes.10", "FullLinkControl", 80, (VE, KE), flc_t, method="from_bytes"))
    add(Dec("slc.from_bits", "ShortLinkControl", 36, (VE, KE), [[(0, 4, [0, 1])], [(0, 4, [0, 1]), (28, 36, [0])], [(0, 4, [0]), (4, 28, [0])]]))
    add(Dec("pi_header.from_bits", "PIHeader", 96, (), []))
    for cls, tcls, n in (("Rate12Data", "Rate12DataTypes", 96), ("Rate34Data", "Rate34DataTypes", 144), ("Rate1Data", "Rate1DataTypes", 192)):
        add(Dec(f"{cls.lower()}.from_bits", cls, n, (), []))
        for tname in ("Undefined", "Unconfirmed", "Confirmed", "UnconfirmedLastBlock", "ConfirmedLastBlock"):
            add(Dec(f"{cls.lower()}.from_bits_typed.{tname}", cls, n, (), [[(7, 16, [0])]] if tname.startswith("Confirmed") else [],
                    method="from_bits_typed", typed=(tcls, tname)))
    udp_t = [[(25, 32, [0])], [(33, 40, [0])], [(25, 32, [0]), (33, 40, [0])], [(25, 32, [0, 1, 2, 3, 94, 95, 127]), (33, 40, [0, 1, 2, 3, 94, 95, 127])]]
    other_ids = [1, 2, 3, 95, 127]
    udp_slots = [
        {"force": [(25, 32, [0]), (33, 40, other_ids)], "fields": [(40, 56)], "elem": "UDPPortIdentifier", "min_len": 56},
        {"force": [(33, 40, [0]), (25, 32, other_ids)], "fields": [(40, 56)], "elem": "UDPPortIdentifier", "min_len": 56},
        {"force": [(25, 32, [0]), (33, 40, [0])], "fields": [(40, 56), (56, 72)], "elem": "UDPPortIdentifier", "min_len": 72},
    ]
    xp = elements_ref.dedicated_values("UDPPortIdentifier") + elements_ref.EXPLICIT_DECOYS["UDPPortIdentifier"]
    udp_t = udp_t + [[(25, 32, [0]), (33, 40, other_ids), (40, 56, xp)], [(33, 40, [0]), (25, 32, other_ids), (40, 56, xp)],
                     [(25, 32, [0]), (33, 40, [0]), (40, 56, xp), (56, 72, xp)]]
    add(Dec("udp.from_bits", "UDPIPv4CompressedHeader", None, (AE,), udp_t, slots=udp_slots,
            lengths=st.one_of(st.integers(5, 30).map(lambda k: 8 * k), st.integers(40, 80), st.sampled_from([40, 48, 55, 56, 64, 71, 72, 80]))))
    add(Dec("udp.from_bytes", "UDPIPv4CompressedHeader", None, (AE,), udp_t, method="from_bytes", slots=udp_slots,
            lengths=st.one_of(st.integers(5, 30), st.sampled_from([5, 6, 7, 8, 9, 10])).map(lambda k: 8 * k)))
    add(Dec("slot_type.from_bits", "SlotType", 20, (), [[(8, 20, [0])], [(4, 8, [12, 13, 14, 15])]]))
    add(Dec("emb.from_bits", "EmbeddedSignalling", 16, (), [[(7, 16, [0])]]))
    add(Dec("service_options.from_bits", "ServiceOptions", 8, (), []))
    add(Dec("fsn.from_bits", "FragmentSequenceNumber", 4, (), []))
    return D


def _explicit_rejection(exc) -> bool:
    """The exception was raised on purpose: ValueError out of the enum machinery (an undefined element value), or an explicit
    raise / assert statement of library code (not an operation that happened to fail)."""
    import linecache

    tb = exc.__traceback__
    if tb is None:
        return False
    while tb.tb_next is not None:  # plain walk (traceback.extract_tb computes column positions, which breaks on
        tb = tb.tb_next  # Atheris-instrumented code objects)
    code = tb.tb_frame.f_code
    fn = os.path.realpath(code.co_filename)
    if isinstance(exc, ValueError):
        return os.path.basename(fn) == "enum.py" or code.co_name == "_missing_"
    line = linecache.getline(code.co_filename, tb.tb_lineno).strip()
    return fn.startswith(REPO + os.sep) and (line.startswith("raise ") or line.startswith("assert ") or line.startswith("assert("))


def oracle_decode(case):
    """case = {dec, bits: '0101…'}"""
    d = decoders()[case["dec"]]
    bits = bitarray(case["bits"])
    arg = bitarray(bits)
    if case.get("rep") == "frozen":  # same word in an immutable container (every decoder of the unchanged tree accepts it)
        from bitarray import frozenbitarray

        arg = frozenbitarray(bits)
    status, res = call(d.run, arg, allowed=d.allowed if d.allowed else ())
    if status == "raised":
        if not _explicit_rejection(res):
            raise Fail("rejection_is_documented", f"{type(res).__name__}: {res}", "an explicit 'undefined / not implemented' rejection", klass=exc_klass(res))
        _LAST["outcome"] = "rejected:" + type(res).__name__
        return
    if res is None or not isinstance(res, lib(d.cls)):
        raise Fail("decode_returns_object", repr(res), d.cls, klass=d.name)
    _, s = call(d.ser, res)
    if not isinstance(s, bitarray):
        raise Fail("serialises_to_bits", repr(s), "bitarray", klass=d.name)
    if len(s) != len(bits):
        raise Fail("fixed_length", len(s), len(bits), klass=d.name)
    _, res2 = call(d.run, bitarray(s))  # re-decoding a serialisation must not be rejected
    if res2 is None:
        raise Fail("decode_returns_object", "None on re-decode", d.cls, klass=d.name)
    _, s2 = call(d.ser, res2)
    if not isinstance(s2, bitarray) or s2 != s:
        raise Fail("decode_encode_fixed_point", _diffpos(s2, s) if isinstance(s2, bitarray) else repr(s2), "identical bits", klass=d.name)
    _LAST["outcome"] = "accepted" + (":identity" if s == bits else ":normalised")


def drv_decode(ctx: Ctx, sub: SubCheck):
    names = list(decoders())
    parts = ctx.pick(2, 4)
    n = ctx.pick(940, 18000) // parts

    def rec(c, t: Tally):
        out = _LAST.get("outcome", "?")
        t.case(sub.name, key=c, nontrivial=out.startswith("accepted"), cls=f"{c['dec']}:{out}")

    def work(item, t: Tally):
        name, part = item
        d = decoders()[name]
        small = d.n is not None and d.n <= 8
        if small and part:
            return  # at most 256 strings: one run covers them
        ctx.hypothesis(sub.name, d.strategy(), oracle_decode, min(n, 2 << d.n) if small else n, tally=t, shard=f"{name}#{part}", record=rec)

    ctx.shards(work, [(name, part) for part in range(parts) for name in names])
    ctx.tally.extra["decoders"] = len(names)


UDP_LENGTHS = [40, 41, 47, 48, 55, 56, 57, 64, 71, 72, 73, 80, 104]  # around the 40 / 56 / 72-bit exact fits of 0 / 1 / 2 extended headers


def decode_boundary_cases(d, rng):
    """Deterministic strings of one decoder (labelled): all-zero, all-ones, alternating; per steering template every value of
    its first forced group (the other groups cycling through theirs), the rest filled with zeros / ones / seeded random bits;
    and every single-bit flip of the zero- and one-filled strings (sets every reserved / unused bit one at a time, clears it
    one at a time, and moves every opcode / enum field to all values at distance one)."""
    if d.n is not None:
        lengths = [d.n]
    else:
        lengths = [n for n in UDP_LENGTHS if d.method != "from_bytes" or n % 8 == 0]
    out = []
    for n in lengths:
        ones = (1 << n) - 1
        plain = [("all_zero", 0), ("all_ones", ones), ("alternating", int(("01" * n)[:n], 2)), ("alternating", int(("10" * n)[:n], 2))]
        bases = [(lab, val, lab in ("all_zero", "all_ones")) for lab, val in plain]
        for tpl in d.templates:
            if any(hi > n for lo, hi, _ in tpl):
                continue
            first = tpl[0][2]
            picks = first if len(first) <= 12 else [first[(i * len(first)) // 12] for i in range(12)]
            for idx, v0 in enumerate(picks):
                vals = [v0] + [grp[2][idx % len(grp[2])] for grp in tpl[1:]]
                for fill_name, fill in (("zero_fill", 0), ("one_fill", ones), ("random_fill", rng.getrandbits(n))):
                    val = fill
                    for (lo, hi, _), x in zip(tpl, vals):
                        w, shift = hi - lo, n - hi
                        val = (val & ~(((1 << w) - 1) << shift)) | (x << shift)
                    bases.append(("template_" + fill_name, val, fill_name != "random_fill"))
        flip_limit = n if d.n is not None else min(n, 72)  # UDP/IPv4: the header part (user data bits are carried verbatim)
        for lab, val, flips in bases:
            out.append((lab, n, val))
            if flips:
                for i in range(flip_limit):
                    out.append((lab + "+flip", n, val ^ (1 << (n - 1 - i))))
    out.extend(_decode_dedicated_cases(d, rng))
    seen, res = set(), []
    for lab, n, val in out:
        if (n, val) not in seen:
            seen.add((n, val))
            res.append((lab, {"dec": d.name, "bits": format(val, f"0{n}b")}))
            if d.method != "from_bytes" and not lab.endswith("+flip") and not lab.startswith("dedicated"):
                res.append((lab + "/frozen", {"dec": d.name, "bits": format(val, f"0{n}b"), "rep": "frozen"}))
    return res


def _decode_dedicated_cases(d, rng):
    """Strings in which an identifier sits at its escape member and the free-form field it points to carries every explicit
    value that a member of that identifier stands for (+-1, decoys, the member values themselves): each explicit field on its
    own and all of them together, at the exact-fit length and with 8 / 32 further bits, zero / one / random fill."""
    import itertools

    out = []
    for slot in d.slots:
        elem = slot["elem"]
        ded = elements_ref.dedicated_values(elem)
        values = list(dict.fromkeys(ded + elements_ref.EXPLICIT_DECOYS.get(elem, []) + sorted(m.value for m in lib(elem)) + [0xFFFF, 0x8000]))
        for n in (slot["min_len"], slot["min_len"] + 8, slot["min_len"] + 32):
            ones = (1 << n) - 1

            def put(val, lo, hi, x, n=n):
                w, shift = hi - lo, n - hi
                return (val & ~(((1 << w) - 1) << shift)) | ((x & ((1 << w) - 1)) << shift)

            for forced in itertools.product(*[vals for lo, hi, vals in slot["force"]]):
                for fill in (0, ones, rng.getrandbits(n)):
                    base = fill
                    for (lo, hi, _), x in zip(slot["force"], forced):
                        base = put(base, lo, hi, x)
                    for lo, hi in slot["fields"]:
                        for x in values:
                            out.append(("dedicated_value_in_explicit_field", n, put(base, lo, hi, x)))
                    if len(slot["fields"]) > 1:
                        for combo in itertools.product(ded, repeat=len(slot["fields"])):
                            val = base
                            for (lo, hi), x in zip(slot["fields"], combo):
                                val = put(val, lo, hi, x)
                            out.append(("dedicated_values_together", n, val))
    return out


def drv_decode_boundary(ctx: Ctx, sub: SubCheck):
    def work(name, t: Tally):
        d = decoders()[name]
        for label, case in decode_boundary_cases(d, ctx.rng("decode-boundary", name)):
            _LAST["outcome"] = "failing"
            ctx.run_case(sub.name, oracle_decode, case, t)
            out = _LAST["outcome"]
            t.case(sub.name, nontrivial=out.startswith("accepted"), cls=f"{label}:{out.split(':')[0]}")
            t.cls(sub.name, f"decoder:{name}")
        t.sample(sub.name, case)

    ctx.shards(work, list(decoders()))


def case_from_fuzz_bytes(data: bytes):
    """Atheris input -> decode case (None: too short to mean anything).  Byte 0 selects the decoder."""
    if len(data) < 2:
        return None
    names = list(decoders())
    d = decoders()[names[data[0] % len(names)]]
    body = bitarray_from_bytes(data[1:])
    if d.n is None:  # UDP/IPv4: variable length, at least 40 bits (whole octets for from_bytes)
        if len(body) < 40:
            return None
    else:
        n = d.n
        body = body[:n] if len(body) >= n else body + bitarray("0" * (n - len(body)))
    return {"dec": d.name, "bits": body.to01()}


def drv_atheris(ctx: Ctx, sub: SubCheck):
    """coverage-guided campaign in subprocesses (thorough tier); corpus entries and findings come back as inputs and are
    judged in-process by oracle_decode (same oracle, same replay format as the 'decode' sub-check)"""
    import re
    import subprocess
    import sys
    import tempfile

    from vp.core import VERIF_DIR

    env = dict(os.environ)
    try:
        subprocess.run([sys.executable, "-c", "import atheris"], env=env, check=True, capture_output=True, timeout=120)
    except Exception:
        ctx.tally.notes.append("atheris not importable: coverage-guided campaign skipped (Hypothesis sub-checks only)")
        return
    runs = int(os.environ.get("VP_ATHERIS_RUNS", "1500000"))
    max_time = int(os.environ.get("VP_ATHERIS_TIME", "120"))
    n_proc = 4
    names = list(decoders())
    with tempfile.TemporaryDirectory(prefix="vp-c03-atheris-", ignore_cleanup_errors=True) as tmp:
        procs = []
        for k in range(n_proc):
            corpus = os.path.join(tmp, f"corpus{k}")
            os.makedirs(corpus)
            rng = ctx.rng("atheris-corpus", k)
            # seed corpus: per decoder one all-zero and one random string (deterministic)
            for i, name in enumerate(names):
                nbytes = ((decoders()[name].n or 80) + 7) // 8
                for j, body in enumerate((bytes(nbytes), bytes(rng.getrandbits(8) for _ in range(nbytes)))):
                    with open(os.path.join(corpus, f"seed{i:02d}_{j}"), "wb") as fh:
                        fh.write(bytes([i]) + body)
            findings = os.path.join(tmp, f"findings{k}.txt")
            cmd = [sys.executable, os.path.join(VERIF_DIR, "vp", "c03_atheris.py"), f"-runs={runs}", f"-max_total_time={max_time}", "-timeout=600",
                   f"-seed={ctx.seed * 100 + k + 1}", "-max_len=40", f"-artifact_prefix={tmp}/art{k}-", corpus]
            procs.append((subprocess.Popen(cmd, env=dict(env, VP_ATHERIS_FINDINGS=findings), stdout=subprocess.DEVNULL, stderr=subprocess.PIPE, text=True), findings, corpus))
        total_execs, corp, cov = 0, 0, 0
        inputs = []
        for p, findings, corpus in procs:
            try:
                _, err = p.communicate(timeout=max_time + 300)
            except subprocess.TimeoutExpired:
                p.kill()
                _, err = p.communicate()
                ctx.tally.notes.append("atheris worker exceeded its wall budget and was stopped")
            m = re.findall(r"Done (\d+) runs", err or "")
            total_execs += int(m[-1]) if m else 0
            m = re.findall(r"cov: (\d+) ft: (\d+) corp: (\d+)", err or "")
            if m:
                cov = max(cov, int(m[-1][0]))
                corp += int(m[-1][2])
            if os.path.exists(findings):
                with open(findings) as fh:
                    inputs.extend(line.split()[0] for line in fh if line.strip())
            try:
                for fn in sorted(os.listdir(corpus)):
                    with open(os.path.join(corpus, fn), "rb") as fh:
                        inputs.append(fh.read().hex())
            except OSError as e:  # scratch directory removed under us: the campaign's inputs are lost, not a property matter
                ctx.tally.notes.append(f"atheris corpus unreadable ({type(e).__name__}); its entries were not re-judged")
            if p.returncode not in (0, None):
                # the harness itself stopped (uncaught exception / signal): the unit it stopped on is re-judged below like
                # every other input; the tail of its stderr goes into the evidence notes
                tail = [ln for ln in (err or "").splitlines() if not ln.startswith(("INFO: Instrumenting", "#"))][-25:]
                ctx.tally.notes.append(f"atheris worker exit status {p.returncode}: " + " | ".join(tail)[-1500:])
                if os.environ.get("VP_ATHERIS_KEEP_STDERR"):
                    with open(os.environ["VP_ATHERIS_KEEP_STDERR"], "a") as fh:
                        fh.write(err or "")
        try:
            for fn in sorted(os.listdir(tmp)):
                if fn.startswith("art") and os.path.isfile(os.path.join(tmp, fn)):
                    with open(os.path.join(tmp, fn), "rb") as fh:
                        inputs.append(fh.read().hex())
        except OSError:
            pass
        seen = set()
        for h in inputs:
            case = case_from_fuzz_bytes(bytes.fromhex(h))
            if case is None or (case["dec"], case["bits"]) in seen:
                continue
            seen.add((case["dec"], case["bits"]))
            _LAST["outcome"] = "failing"
            ctx.run_case(sub.name, oracle_decode, case)
            out = _LAST["outcome"]
            ctx.tally.case(sub.name, key=case, nontrivial=out.startswith("accepted"), cls=f"{case['dec']}:{out}")
        ctx.tally.extra["atheris"] = {"execs": total_execs, "corpus_inputs_rejudged": len(seen), "corpus_size": corp, "cov_edges_max": cov, "processes": n_proc}
        # fuzzer executions ran the same oracle inside the harness: counted as evaluations of this sub-check
        ctx.tally.evaluations += total_execs
        ctx.tally.sub_evals[sub.name] += total_execs


# ======================================================================================================================
# interleaved two-phase batches: results must not depend on what else was decoded / built before

# where the identifier / enum elements sit in the serialisation (ETSI layouts: TS 102 361-1 §9.1.2-9.1.7, §9.2.x, -2 §7.1,
# -3 §7.1.1); (constructor keyword, element, first bit, end bit, variants it applies to or None = all of the class)
ENUM_POS = {
    "CSBK": [("csbko", "CsbkOpcodes", 2, 8, None), ("manufacturers_feature_set_id", "FeatureSetIDs", 8, 16, None),
             ("announcement_type", "AnnouncementType", 16, 21, ["csbk.c_bcast"]), ("answer_response", "AnswerResponse", 24, 32, ["csbk.uu_ans_rsp"]),
             ("service_type", "CsbkOpcodes", 18, 24, ["csbk.nack_rsp"])],
    "FullLinkControl": [("flco", "FLCOs", 2, 8, None), ("fid", "FeatureSetIDs", 8, 16, None)],
    "DataHeader": [("dpf", "DataPacketFormats", 4, 8, None), ("sap_identifier", "SAPIdentifier", 8, 12, None),
                   ("defined_data_format", "DefinedDataFormats", 64, 70, ["dh.short_data_defined"]), ("udt_format", "UDTFormat", 12, 16, ["dh.udt"]),
                   ("udt_opcode", "CsbkOpcodes", 74, 80, ["dh.udt"])],
    "ShortLinkControl": [("slco", "SLCOs", 0, 4, None), ("ts1_activity_id", "ActivityID", 4, 8, ["slc.activity"]), ("ts2_activity_id", "ActivityID", 8, 12, ["slc.activity"])],
    "UDPIPv4CompressedHeader": [("source_ip_address_id", "IPAddressIdentifier", 16, 20, None), ("destination_ip_address_id", "IPAddressIdentifier", 20, 24, None)],
    "SlotType": [("data_type", "DataTypes", 4, 8, None)],
}


def _enum_positions(v):
    return [(kw, elem, lo, hi) for kw, elem, lo, hi, only in ENUM_POS.get(v.cls, []) if only is None or v.name in only]


def _run_op(op):
    """execute one op of a batch: ('bits', '0101...', object, serialiser) or ('rejected', ExceptionType, None, None)"""
    if op["k"] == "dec":
        d = decoders()[op["dec"]]
        status, res = call(d.run, bitarray(op["bits"]), allowed=d.allowed if d.allowed else ())
        if status == "raised":
            return ("rejected", type(res).__name__, None, None)
        if res is None:
            raise Fail("decode_returns_object", None, d.cls, klass=d.name)
        ser = lambda o, d=d: d.ser(o)  # noqa: E731
        return ("bits", call(ser, res)[1].to01(), res, ser)
    v = variants()[op["variant"]]
    f = op["f"]
    kwargs = {fl.kw: to_lib(fl.kind, f[fl.kw]) for fl in v.fields if fl.kw is not None and fl.kw in f}
    _, p = call(lib(v.cls), **kwargs)
    ser = lambda o: o.as_bits()  # noqa: E731
    if op["k"] == "build":
        return ("bits", call(ser, p)[1].to01(), p, ser)
    # "decode_patched": the serialisation of the built PDU with some bit fields overwritten (an enum octet set to a listed /
    # unlisted / reserved value), decoded by the variant's decoder
    b = call(ser, p)[1]
    for lo, hi, val in op["patch"]:
        b[lo:hi] = int2ba(val, length=hi - lo, endian="big")
    status, res = call(v.decode, bitarray(b), allowed=(ValueError, KeyError, NotImplementedError, AssertionError))
    if status == "raised":
        return ("rejected", type(res).__name__, None, None)
    if res is None:
        raise Fail("decode_returns_object", None, v.cls, klass=v.name)
    return ("bits", call(ser, res)[1].to01(), res, ser)


def _op_label(op):
    return op["dec"] if op["k"] == "dec" else op["variant"]


def oracle_interleaved(case):
    """case = {ops: [op...], order: [indices]}; op = {k: 'dec', dec, bits} | {k: 'build', variant, f} | {k: 'decode_patched',
    variant, f, patch: [[lo, hi, value]]}.  Phase 1 executes the ops in order and keeps every object and its serialisation;
    phase 2 serialises the kept objects again in `order`; phase 3 executes every op once more (last first).  Every outcome
    must equal the one of phase 1 (a result is a function of its own input, not of the history), built PDUs must carry the
    values of their enum fields at the positions of the standard's layout, and afterwards every element enum still maps
    value -> member -> bits unchanged."""
    import enum

    ops = case["ops"]
    first = [_run_op(op) for op in ops]
    for i in case.get("order", range(len(ops))):
        kind, val, obj, ser = first[i]
        if kind == "bits":
            again = call(ser, obj)[1].to01()
            if again != val:
                raise Fail("serialisation_independent_of_history", _diffpos(again, val), "the bits this object gave when it was created", klass=_op_label(ops[i]))
    for i in reversed(range(len(ops))):
        kind, val, _, _ = _run_op(ops[i])
        if (kind, val) != first[i][:2]:
            raise Fail("result_independent_of_history", _diffpos(val, first[i][1]) if kind == first[i][0] == "bits" else [kind, val],
                       "the outcome of the same op earlier in the batch", klass=_op_label(ops[i]))
    for op, (kind, val, _, _) in zip(ops, first):
        if kind != "bits" or op["k"] != "build":
            continue
        v = variants()[op["variant"]]
        for kw, elem, lo, hi in _enum_positions(v):
            given = op["f"].get(kw)
            if given is None:
                continue
            want = lib(elem)[given].value if isinstance(given, str) else lib(elem)(given).value
            if int(val[lo:hi], 2) != want:
                raise Fail("enum_field_serialised_as_member_value", int(val[lo:hi], 2), want, klass=f"{v.name}.{kw}")
    for name, e in elements_ref.ELEMENTS.items():
        if e["kind"] != "enum":
            continue
        E = getattr(importlib.import_module(e["mod"]), e["cls"])
        for m in E:
            if not isinstance(m.value, int) or m.value < 0:
                continue
            got = call(E, m.value)[1]
            if got is not m:
                raise Fail("element_mapping_unchanged_after_batch", repr(got), repr(m), klass=name)
            if e["bits"]:
                b = call(m.as_bits)[1]
                if not isinstance(b, bitarray) or b != int2ba(m.value, length=e["width"], endian="big"):
                    raise Fail("element_bits_unchanged_after_batch", repr(b), m.value, klass=name)


def _enum_value_classes(elem, width):
    """(listed values incl. the reserved members, unlisted in-range values - both ends and the middle of every fold range -,
    values without any member)"""
    e = elements_ref.ELEMENTS[elem]
    listed_lib = sorted(m.value for m in lib(elem) if isinstance(m.value, int) and 0 <= m.value < (1 << width))
    unlisted, none = [], []
    for lo, hi, tgt in e["fold"]:
        cand = [x for x in dict.fromkeys([lo, lo + 1, (lo + hi) // 2, hi - 1, hi]) if lo <= x <= hi and x not in listed_lib]
        unlisted.extend(cand[:4])
    for x in range(1 << width):
        if x not in listed_lib and elements_ref.fold_target(elem, x) is None:
            none.append(x)
    targets = [tgt for lo, hi, tgt in e["fold"]]
    return listed_lib, list(dict.fromkeys(unlisted)), none[:2] + none[-1:], targets


def interleaved_cases(v, rng):
    """Deterministic batches of one variant: for every enum element of its layout, 'unusual then ordinary' histories - build
    the ordinary PDU (enum field at a listed member, in particular each reserved / fold-target member), decode the same PDU
    with the enum bits patched to an unlisted in-range value, build the ordinary one again, decode it patched to the listed
    value, to another unlisted value, to a value without member; phase 2 order reversed / rotated."""
    gens = [(fl, fl.gen) for fl in v.fields if fl.kw is not None and fl.gen is not None]
    out = []
    for kw, elem, lo, hi in _enum_positions(v):
        listed, unlisted, none, targets = _enum_value_classes(elem, hi - lo)
        fld = [fl for fl, g in gens if fl.kw == kw][0]
        E = lib(elem)
        ordinary_members = [fld.gen.bnd[0]] if fld.const else [E(t).name for t in targets if t in listed][:3] or [E(listed[0]).name]
        for mi, member in enumerate(ordinary_members):
            bg = {fl.kw: g.rnd(rng) for fl, g in gens}
            bg[kw] = member
            mval = E[member].value
            us = unlisted or none or [listed[-1]]
            for ui, u in enumerate(us):
                u2 = us[(ui + 1) % len(us)]
                ops = [
                    {"k": "build", "variant": v.name, "f": bg},
                    {"k": "decode_patched", "variant": v.name, "f": bg, "patch": [[lo, hi, u]]},
                    {"k": "build", "variant": v.name, "f": bg},
                    {"k": "decode_patched", "variant": v.name, "f": bg, "patch": [[lo, hi, mval]]},
                    {"k": "decode_patched", "variant": v.name, "f": bg, "patch": [[lo, hi, u2]]},
                ]
                if none:
                    ops.append({"k": "decode_patched", "variant": v.name, "f": bg, "patch": [[lo, hi, none[ui % len(none)]]]})
                order = list(reversed(range(len(ops)))) if (ui + mi) % 2 == 0 else list(range(1, len(ops))) + [0]
                out.append((f"unusual_then_ordinary:{elem}", {"ops": ops, "order": order}))
    return out


def drv_interleaved(ctx: Ctx, sub: SubCheck):
    from hypothesis import strategies as st

    def nontrivial(c):
        return len(c["ops"]) >= 2

    def work(name, t: Tally):
        v = variants()[name]
        for label, case in interleaved_cases(v, ctx.rng("interleaved", name)):
            ctx.run_case(sub.name, oracle_interleaved, case, t)
            t.case(sub.name, key=case, nontrivial=True, cls=label)
            t.cls(sub.name, f"variant:{name}")

    ctx.shards(work, [n for n in variants() if variants()[n].cls in ENUM_POS])

    # random batches per PDU class: 2..4 ops drawn from the class's decoders (strings steered as in 'decode', their enum
    # bits additionally forced to listed / unlisted / reserved values) and from its variants; phase 2 in a drawn order
    classes = {}
    for name, v in variants().items():
        if v.cls in ENUM_POS:
            classes.setdefault(v.cls, {"variants": [], "decoders": []})["variants"].append(name)
    for name, d in decoders().items():
        if d.cls in classes and d.method == "from_bits":
            classes[d.cls]["decoders"].append(name)

    # "*": batches across families (a CSBK built between two full-LC decodes, an element decoded between two PDUs ...): ops of
    # every class, the entry points from_bits / from_bytes / typed alike
    classes["*"] = {"variants": list(variants()), "decoders": [n for n, d in decoders().items() if d.n is None or d.n > 8]}

    def batch_strategy(cls):
        parts = []
        for dn in classes[cls]["decoders"]:
            d = decoders()[dn]
            pos = [(lo, hi, elem) for kw, elem, lo, hi, only in ENUM_POS.get(d.cls, []) if only is None] if d.method == "from_bits" else []

            def steer(a, d=d, pos=pos):
                case, picks = a
                bits = case["bits"]
                for (lo, hi, elem), x in zip(pos, picks):
                    if x is not None and hi <= len(bits):
                        bits = bits[:lo] + format(x % (1 << (hi - lo)), f"0{hi - lo}b") + bits[hi:]
                return {"k": "dec", "dec": d.name, "bits": bits}

            parts.append(st.tuples(d.strategy(), st.tuples(*[st.one_of(st.none(), st.integers(0, (1 << (hi - lo)) - 1)) for lo, hi, _ in pos])).map(steer))
        for vn in classes[cls]["variants"]:
            parts.append(variants()[vn].strategy().map(lambda c: {"k": "build", "variant": c["variant"], "f": c["f"]}))
        ops = st.lists(st.one_of(parts), min_size=2, max_size=4)
        return ops.flatmap(lambda o: st.permutations(list(range(len(o)))).map(lambda perm, o=o: {"ops": o, "order": list(perm)}))

    def hyp(item, t: Tally):
        cls, part = item
        ctx.hypothesis(sub.name, batch_strategy(cls), oracle_interleaved, ctx.pick(60, 1500), tally=t, shard=f"{cls}#{part}",
                       record=lambda c, tt: tt.case(sub.name, key=c, nontrivial=nontrivial(c), cls=f"random_batch:{cls}"))

    ctx.shards(hyp, [(cls, 0) for cls in sorted(classes)] + [("*", part) for part in range(1, ctx.pick(4, 8))])


# ======================================================================================================================
# retained objects: create X (decode / build), keep it, create near-twins of X, judge X again after every one of them
#
# A case that decodes X and judges it at once never sees state that two decoded objects share (a memoised prototype whose
# mutable parts are shared by every object made from it, an interned sub-element keyed by only some of its bits, a class-level
# scratch buffer): the damage is done by a *later* decode of a near-twin - the same PDU / element in everything such a key
# looks at, different in the bits it neglects (reserved bits, fill, a neighbouring field) - possibly through another entry
# point (from_bytes) or another PDU family that carries the same element (service options in CSBK and full LC, the
# fragment sequence number in data headers).  No knowledge of which bits are "neglected" is used: every bit of X is flipped
# one at a time, through the decoder itself, its sibling entry points, every other family of the same length (its opcode
# forced to every implemented value) and the element decoders on every aligned window.


def _twin_bits(xbits: str, tw) -> str:
    """the twin's input string, derived from the bits of X: flip positions, cut a window, place it into a carrier string,
    resize (variable-length PDUs), fit to the twin decoder's fixed length, force fields (opcode of another family)"""
    b = list(xbits)
    for i in tw.get("flip", ()):
        if i < len(b):
            b[i] = "1" if b[i] == "0" else "0"
    b = "".join(b)
    if "window" in tw:
        b = b[tw["window"][0]:tw["window"][1]]
    if "into" in tw:
        t, at = tw["into"]["bits"], tw["into"]["at"]
        b = (t[:at] + b + t[at + len(b):])[:len(t)]
    if "resize" in tw:
        m = tw["resize"]
        b = b[:m] if len(b) >= m else b + (tw.get("pad", "0") * (m - len(b)))
    d = decoders()[tw["dec"]]
    if d.n is not None and len(b) != d.n:
        b = b[:d.n] if len(b) >= d.n else b + "0" * (d.n - len(b))
    for lo, hi, val in tw.get("force", ()):
        if hi <= len(b):
            b = b[:lo] + format(val % (1 << (hi - lo)), f"0{hi - lo}b") + b[hi:]
    return b


def _twin_op(x_op, xbits, tw):
    if tw["k"] == "build":  # the variant of X (or another one of its class) with some fields replaced
        return {"k": tw.get("as", "build"), "variant": tw.get("variant", x_op.get("variant")), "f": dict(x_op.get("f", {}), **tw["set"]), "patch": []}
    return {"k": "dec", "dec": tw["dec"], "bits": _twin_bits(xbits, tw)}


_SETTABLE = {}


def _settable(cls):
    """names of the attributes of a library object that are fields a caller can set: constructor parameters, plus the attributes
    the variant table compares for that class (differently named parameters); None = not introspectable (all public ones)"""
    import inspect

    if cls not in _SETTABLE:
        try:
            names = {n for n in inspect.signature(cls.__init__).parameters if n != "self"}
        except (TypeError, ValueError):
            names = None
        if names is not None:
            names |= {fl.attr for v in variants().values() if v.cls == cls.__name__ for fl in v.fields if fl.attr}
        _SETTABLE[cls] = names
    return _SETTABLE[cls]


def snapshot(o, depth=0):
    """plain-JSON picture of the field values of a library object (recursively; derived / diagnostic attributes left out)"""
    import enum

    if o is None or isinstance(o, (bool, int, str)):
        return o
    if isinstance(o, float):
        return repr(o)
    if isinstance(o, enum.Enum):
        return f"{type(o).__name__}.{o.name}"
    if isinstance(o, bitarray):
        return "bits:" + o.to01()
    if isinstance(o, (bytes, bytearray)):
        return "hex:" + bytes(o).hex()
    if isinstance(o, (list, tuple)):
        return [snapshot(x, depth + 1) for x in o]
    if isinstance(o, dict):
        return sorted([repr(snapshot(k, depth + 1)), snapshot(x, depth + 1)] for k, x in o.items())
    if hasattr(o, "__dict__") and depth < 5:
        names = _settable(type(o))
        d = {"__class__": type(o).__name__}
        for k in sorted(vars(o)):
            if k.startswith("_") or (names is not None and k not in names):
                continue
            x = vars(o)[k]
            if callable(x) and not isinstance(x, enum.Enum):
                continue
            d[k] = snapshot(x, depth + 1)
        return d
    return type(o).__name__


def _snap_diff(a, b, path=""):
    if isinstance(a, dict) and isinstance(b, dict):
        out = []
        for k in sorted(set(a) | set(b)):
            out += _snap_diff(a.get(k), b.get(k), f"{path}.{k}")
        return out
    return [] if a == b else [{"field": path or ".", "was": a, "now": b}]


def _probe(o):
    """cheap picture of the complete state reachable from a kept object (pre-filter only: a difference sends the object to the
    precise comparison, it is never a verdict)"""
    import pickle

    try:
        return pickle.dumps(o, protocol=4)
    except Exception:
        return None


def oracle_retained(case):
    """case = {xs: [op, ...], twins: [twin, ...]} (or {x: op, twins}); op as in the 'interleaved' batches; twin = {k: 'dec', dec,
    of?, flip?, window?, into?, resize?, force?} (input derived from the serialisation of X number `of`, see _twin_bits) |
    {k: 'build', of?, set: {field: value}, as?}.
    Every X is created once and kept.  After every twin was created (rejected twins count too) the X it was derived from
    must still serialise to the bits it gave when it was created and still carry the field values it carried then, and so
    must every other kept X whose state changed in any way; at the end every kept X and twin is judged like that once more, and
    creating each X afresh must give its first outcome."""
    x_ops = case["xs"] if "xs" in case else [case["x"]]
    xs = []  # [op, first bits, object, serialiser, first snapshot, probe]
    for x_op in x_ops:
        kind, s0, x, ser = _run_op(x_op)
        if kind != "bits":
            xs.append(None)
            continue
        if call(ser, x)[1].to01() != s0:  # (serialising twice in a row: not this sub-check's subject, but the base line must be stable)
            raise Fail("serialisation_independent_of_history", "second serialisation differs from the first", "identical bits", klass=_op_label(x_op))
        xs.append([x_op, s0, x, ser, snapshot(x), _probe(x)])
    if not any(xs):
        _LAST["outcome"] = "x_rejected"
        return

    def judge(j, why):
        x_op, s0, x, ser, d0, _ = xs[j]
        again = call(ser, x)[1].to01()
        if again != s0:
            raise Fail("retained_object_serialises_as_before", dict(_diffpos(again, s0), x=j, **why), "the bits this object gave when it was created", klass=_op_label(x_op))
        d1 = snapshot(x)
        if d1 != d0:
            raise Fail("retained_object_fields_as_before", dict(changed=_snap_diff(d0, d1)[:8], x=j, **why), "the field values this object had when it was created", klass=_op_label(x_op))

    kept = []
    made = 0
    live = [e[2] for e in xs if e is not None]
    all0 = _probe(live)
    for i, tw in enumerate(case["twins"]):
        of = tw.get("of", 0)
        if xs[of] is None:
            continue
        x_op = xs[of][0]
        op = _twin_op(x_op, x_op["bits"] if x_op["k"] == "dec" else xs[of][1], tw)
        k2, s2, o2, ser2 = _run_op(op)
        if k2 == "bits":
            kept.append((i, op, s2, o2, ser2))
            made += 1
        why = {"after_twin": i, "twin": op if op["k"] == "dec" else tw}
        judge(of, why)
        if len(live) > 1:
            all1 = _probe(live)
            if all1 is None or all1 != all0:  # something reachable from a kept object changed: find out which, judge it precisely
                for j, e in enumerate(xs):
                    if e is not None and j != of:
                        pr = _probe(e[2])
                        if pr is None or pr != e[5]:
                            judge(j, why)
                            e[5] = pr  # a change neither the serialisation nor the fields show: new base line of the pre-filter
                xs[of][5] = _probe(xs[of][2])
                all0 = all1
    for j, e in enumerate(xs):
        if e is not None:
            judge(j, {"after_twin": "all"})
    for i, op, s2, o2, ser2 in kept:
        again = call(ser2, o2)[1].to01()
        if again != s2:
            raise Fail("retained_object_serialises_as_before", dict(_diffpos(again, s2), twin=i), "the bits this twin gave when it was created", klass=_op_label(op))
    for j, e in enumerate(xs):
        if e is not None:
            k3, s3, _, _ = _run_op(e[0])
            if (k3, s3) != ("bits", e[1]):
                raise Fail("result_independent_of_history", _diffpos(s3, e[1]) if k3 == "bits" else [k3, s3], "the outcome of the same op before the twins", klass=_op_label(e[0]))
    _LAST["outcome"] = f"x_kept:{made}_twins_made"


def _retained_bases(d, rng, want):
    """strings of decoder d that it accepts on the unchanged tree's layout knowledge (templates): (label, bits)"""
    out, seen = [], set()
    for lab, c in decode_boundary_cases(d, rng):
        if c.get("rep") or lab.endswith("+flip") or lab.startswith("dedicated"):
            continue
        if lab in want and c["bits"] not in seen:
            seen.add(c["bits"])
            out.append((lab, c["bits"]))
    return out


SELECTOR_CLASSES = ("CSBK", "DataHeader", "FullLinkControl", "ShortLinkControl")  # PDU classes whose first steering group is the opcode / format


def _first_forced(d):
    """(lo, hi, values) of the decoder's opcode / format selector (first group of its first steering template), or None"""
    return d.templates[0][0] if d.cls in SELECTOR_CLASSES and d.templates and d.templates[0] else None


def _same_length_decoders(n):
    """decoders that read a string of n bits; the 96-bit PDUs, the 77-bit full LC and its 10-octet form are one family (the
    short forms read a prefix, a short X is zero-extended)"""
    fam = 96 if n in (77, 80, 96) else n
    return [name for name, d in decoders().items() if d.n is not None and (d.n == fam or (fam == 96 and d.n in (77, 80)))]


ELEMENT_DECODERS = {"service_options.from_bits": 8, "fsn.from_bits": 4}  # element classes that PDUs of several families nest
FAMILY_LENGTHS = (96, 144, 192, 36, 20, 16)


def _force(bits, grp, v):
    return bits if grp is None else bits[:grp[0]] + format(v, f"0{grp[1] - grp[0]}b") + bits[grp[1]:]


def retained_family_cases(ctx, n, fill_no, rng):
    """Cases of the family of all decoders that read n bits, around ONE seeded fill R of n bits.  Kept objects: R read by every
    from_bits entry point of the family with the opcode / format forced to every implemented value, and (n = 96) every aligned
    8-bit / 4-bit window of R read by the element decoders (service options, fragment sequence number).  Twins: R with every
    single bit flipped (and R itself), through EVERY entry point of the family (from_bits, from_bytes, typed, short forms) with
    every implemented opcode forced, and every single-bit flip of every window through the element decoders.  So each kept
    object meets, one decode at a time, every object of its own and of every other family that agrees with it in all bits but
    one (and the other family's selector).  One case per chunk of 8 flipped positions."""
    R = format(rng.getrandbits(n), f"0{n}b")
    if fill_no == 1:
        R = "0" * n
    elif fill_no == 2:
        R = "1" * n
    names = _same_length_decoders(n)
    combos = []  # (decoder, force)
    for name in names:
        d = decoders()[name]
        grp = _first_forced(d)
        for v in ([None] if grp is None else grp[2]):
            combos.append((name, [] if v is None else [[grp[0], grp[1], v]]))
    xs = []
    for name, force in combos:
        d = decoders()[name]
        if d.method != "from_bytes":
            b = _twin_bits(R, {"dec": name, "force": force})
            xs.append({"k": "dec", "dec": name, "bits": b})
    x_index = {(x["dec"], x["bits"]): j for j, x in enumerate(xs)}
    el_xs = []
    if n == 96:
        for el, w in ELEMENT_DECODERS.items():
            for at in range(0, n, w):
                el_xs.append((len(xs), el, at, w))
                xs.append({"k": "dec", "dec": el, "bits": R[at:at + w]})
    out = []
    step = 8
    for lo in range(0, n, step):
        twins = []
        for name, force in combos:
            d = decoders()[name]
            # the twin is expressed relative to a kept X of its own family where there is one (X read through from_bits), else X 0
            b0 = _twin_bits(R, {"dec": name, "force": force})
            of = x_index.get((name, b0))
            if of is None:
                of = next((j for j, x in enumerate(xs) if decoders()[x["dec"]].cls == d.cls and x["bits"][:min(len(b0), len(x["bits"]))] == b0[:min(len(b0), len(x["bits"]))]), 0)
            for i in ([None] if lo == 0 else []) + list(range(lo, min(lo + step, d.n))):
                twins.append({"k": "dec", "dec": name, "of": of, "flip": [] if i is None else [i], "force": force})
        for j, el, at, w in el_xs:
            if lo <= at < lo + step:
                twins += [{"k": "dec", "dec": el, "of": j, "flip": [q]} for q in range(w)]
        out.append((f"family:{n}_bits", {"xs": xs, "twins": twins}))
    return out


def retained_cases(ctx, name, rng):
    """Deterministic cases of one decoder d (labelled).  Per accepted base string X (every implemented opcode / format with
    zero and one fill - thorough: seeded random fill too -; all-zero / all-ones / alternating): twins through d itself - every
    single-bit flip (variable-length PDUs: the header part, and X cut / extended to every length around the exact fits)."""
    d = decoders()[name]
    out = []
    chunk = 48
    want = {"all_zero", "all_ones", "alternating", "template_zero_fill", "template_one_fill"} | ({"template_random_fill"} if (d.n is None or not ctx.quick) else set())
    bases = _retained_bases(d, rng, want)
    if d.n is None:  # UDP/IPv4: plenty of template strings at 13 lengths - a seeded sample, every length present
        by_len = {}
        for lab, b in bases:
            by_len.setdefault(len(b), []).append((lab, b))
        bases = [x for n in sorted(by_len) for x in rng.sample(by_len[n], min(len(by_len[n]), ctx.pick(3, 8)))]
    for lab, xb in bases:
        n = len(xb)
        x = {"k": "dec", "dec": name, "bits": xb}
        flips = list(range(n))  # variable-length PDUs: the variable part too (n <= 104)
        same = [{"k": "dec", "dec": name, "flip": [i]} for i in flips]
        if d.n is None:
            same += [{"k": "dec", "dec": name, "resize": m, "pad": p} for m in UDP_LENGTHS if m != n and (d.method != "from_bytes" or m % 8 == 0) for p in "01"]
        for lo in range(0, len(same), chunk):
            out.append((f"same_decoder:{lab}", {"x": x, "twins": same[lo:lo + chunk]}))
    return out


def _decoders_of_variant(v, n):
    if v.decode_spec[0] == "from_bits_typed":
        return [f"{v.cls.lower()}.from_bits_typed.{v.decode_spec[2]}"]
    return [name for name, d in decoders().items() if d.cls == v.cls and d.method in ("from_bits", "from_bytes") and (d.n in (None, n) or (d.method == "from_bytes" and d.n == 8 * ((n + 7) // 8)))
            and (d.method != "from_bytes" or n % 8 == 0 or v.cls == "FullLinkControl")]


def retained_build_cases(ctx, v, rng):
    """Deterministic cases of one variant: X = the PDU built from seeded field values (kept as built, and kept as decoded from
    its serialisation); twins = the same PDU with one field at a time replaced by each of its compact boundary values (built,
    and built-then-decoded), and the decodes of every single-bit flip of X's serialisation through the variant's decoders."""
    gens = [(fl, fl.gen) for fl in v.fields if fl.kw is not None and fl.gen is not None]
    out = []
    for _ in range(ctx.pick(1, 3)):
        f = {fl.kw: g.rnd(rng) for fl, g in gens}
        n = v.nbits(f)
        field_twins = []
        for fl, g in gens:
            if fl.const:
                continue
            vals = [b for b in g.core if not (b == f[fl.kw] and type(b) is type(f[fl.kw]))]
            if len(vals) > 6:
                vals = vals[:3] + rng.sample(vals[3:], 3)
            for b in vals:
                field_twins.append({"k": "build", "set": {fl.kw: b}, "as": "build"})
                field_twins.append({"k": "build", "set": {fl.kw: b}, "as": "decode_patched"})
        flip_twins = [{"k": "dec", "dec": dn, "flip": [i]} for dn in _decoders_of_variant(v, n) for i in range(min(n, 96 if v.cls != "UDPIPv4CompressedHeader" else 72))]
        for xk in ("build", "decode_patched"):
            x = {"k": xk, "variant": v.name, "f": f, "patch": []}
            for lo in range(0, len(field_twins), 64):
                out.append((f"x_{'built' if xk == 'build' else 'decoded'}:field_twins", {"x": x, "twins": field_twins[lo:lo + 64]}))
            if xk == "build":
                for lo in range(0, len(flip_twins), 96):
                    out.append(("x_built:decoded_flip_twins", {"x": x, "twins": flip_twins[lo:lo + 96]}))
    return out


def drv_retained(ctx: Ctx, sub: SubCheck):
    from hypothesis import strategies as st

    def work(item, t: Tally):
        kind, name = item
        if kind == "dec":
            cases = retained_cases(ctx, name, ctx.rng("retained", name))
        elif kind == "family":
            cases = retained_family_cases(ctx, name[0], name[1], ctx.rng("retained-family", *name))
        else:
            cases = retained_build_cases(ctx, variants()[name], ctx.rng("retained-build", name))
        for label, case in cases:
            _LAST["outcome"] = "failing"
            ctx.run_case(sub.name, oracle_retained, case, t)
            made = _LAST["outcome"]
            t.case(sub.name, key=case, nontrivial=made.startswith("x_kept") and not made.startswith("x_kept:0_"), cls=label if made != "x_rejected" else "x_rejected")
            if kind != "family":
                t.cls(sub.name, ("decoder:" if kind == "dec" else "variant:") + name)
            else:
                t.cls(sub.name, "kept_objects_total", len(case["xs"]))
            t.cls(sub.name, "twins_total", len(case["twins"]))
        if cases:
            t.sample(sub.name, cases[len(cases) // 2][1] if kind != "family" else {"xs": cases[0][1]["xs"][:2], "twins": cases[0][1]["twins"][:3]})

    fills = ctx.pick([0, 1], [0, 1, 2, 3, 4, 5])
    ctx.shards(work, [("family", (n, k)) for n in FAMILY_LENGTHS for k in fills] + [("dec", n) for n in decoders()] + [("build", n) for n in variants()])

    # sampled: X drawn like the 'decode' strings, 1..6 twins with 1..3 flipped positions through any decoder of that length
    def strategy(name):
        d = decoders()[name]

        def twins(c):
            n = len(c["bits"])
            names = [name] + ([x for x in _same_length_decoders(n) if x != name] if d.n is not None else [])
            tw = st.fixed_dictionaries({"k": st.just("dec"), "dec": st.sampled_from(names), "flip": st.lists(st.integers(0, n - 1), min_size=1, max_size=3, unique=True).map(sorted)})
            return st.lists(tw, min_size=1, max_size=6).map(lambda tws: {"x": {"k": "dec", "dec": name, "bits": c["bits"]}, "twins": tws})

        return d.strategy().flatmap(twins)

    def rec(c, t: Tally):
        made = _LAST.get("outcome", "?")
        t.case(sub.name, key=c, nontrivial=made.startswith("x_kept") and not made.startswith("x_kept:0_"), cls="sampled:" + ("x_rejected" if made == "x_rejected" else c["x"]["dec"]))

    def hyp(name, t: Tally):
        ctx.hypothesis(sub.name, strategy(name), oracle_retained, ctx.pick(30, 600), tally=t, shard=name, record=rec)

    ctx.shards(hyp, [n for n, d in decoders().items() if d.n is None or d.n > 8])


# ======================================================================================================================
# preludes (vp/core.py "Preludes"): calls derived from the case that run between two judgements of it - the same value through
# the sibling entry points, its near-twins, rightly refused variants of the same call, repr / str of the objects

PRELUDE_GROUPS = ("pdu", "bits")


def _case_op(sub, case):
    """the op that creates the case's (first) object, or None"""
    if sub in ("build", "build_boundary"):
        return {"k": "build", "variant": case["variant"], "f": case["f"]}
    if sub in ("decode", "decode_boundary", "decode_atheris"):
        return {"k": "dec", "dec": case["dec"], "bits": case["bits"]}
    if sub == "interleaved":
        return case["ops"][0] if case.get("ops") else None
    if sub == "retained":
        return case["x"] if "x" in case else (case["xs"][0] if case.get("xs") else None)
    return None


def _op_create(a):
    """create the object of op a, serialise it (bits and, where offered, bytes), render it (repr / str of it and of its nested
    objects), and decode its serialisation again through every decoder of that length"""
    kind, s, o, ser = _run_op(a)
    if kind != "bits":
        return
    keep = [o]
    for fn in (repr, str):
        try:
            fn(o)
            for x in list(vars(o).values()):
                fn(x)
        except Exception:
            pass
    for meth in ("as_bytes", "as_bits"):
        try:
            getattr(o, meth)()
        except Exception:
            pass
    for name in _same_length_decoders(len(s)) if len(s) not in (40, 56, 72) else ["udp.from_bits"]:
        try:
            keep.append(decoders()[name].run(bitarray(s)))
        except Exception:
            pass
    return keep


def _op_twins(a):
    """a = {op, flips: [[positions]...], decs: [names]}: decode near-twins of the op's serialisation"""
    kind, s, o, ser = _run_op(a["op"])
    if kind != "bits":
        return
    keep = [o]
    for fl in a["flips"]:
        for name in a["decs"]:
            try:
                op = _twin_op(a["op"], s, {"k": "dec", "dec": name, "flip": fl})
                keep.append(decoders()[name].run(bitarray(op["bits"])))
            except Exception:
                pass
    return keep


def _op_refused(a):
    """a = {dec, bits}: calls the decoder has to refuse - wrong lengths, empty, wrong container types, opcode forced to values
    without implementation"""
    d = decoders()[a["dec"]]
    b = a["bits"]
    c = lib(d.cls)
    variants_ = [b[:-1], b + "0", "", b[: len(b) // 2], b + b]
    grp = _first_forced(d)
    if grp is not None:
        lo, hi, vals = grp
        for v in range(1 << (hi - lo)):
            if v not in vals and len(variants_) < 12:
                variants_.append(b[:lo] + format(v, f"0{hi - lo}b") + b[hi:])
    for s in variants_:
        try:
            d.run(bitarray(s))
        except Exception:
            pass
    for arg in (None, b, bitarray(b).tobytes(), [int(x) for x in b], bitarray(b, endian="little")):
        try:
            (c.from_bits if d.method != "from_bytes" else c.from_bytes)(arg)
        except Exception:
            pass


def _op_element(a):
    """a = {elem, value}: the element's other entry points on the same value and on values it has to refuse"""
    e, E = _elem(a["elem"])
    w, v = e["width"], a["value"]
    for fn in (lambda: E(v), lambda: E.from_bits(int2ba(v, length=w, endian="big")), lambda: E._missing_(v), lambda: repr(E(v)), lambda: E(v).as_bits(),
               lambda: E(1 << w), lambda: E(-1), lambda: E(None), lambda: E("x"), lambda: E.from_bits(bitarray()), lambda: E.from_bits(int2ba(v, length=w + 1, endian="big")),
               lambda: E(v ^ 1), lambda: E.from_bits(int2ba(v ^ 1, length=w, endian="big"))):
        try:
            fn()
        except Exception:
            pass
    for name2, e2 in elements_ref.ELEMENTS.items():  # the same number / the same bits through every other element of that width
        if name2 != a["elem"] and e2["width"] == w:
            E2 = _elem(name2)[1]
            for fn in (lambda: E2(v), lambda: E2.from_bits(int2ba(v, length=w, endian="big"))):
                try:
                    fn()
                except Exception:
                    pass


PRELUDE_OPS = {"create": _op_create, "twins": _op_twins, "refused": _op_refused, "element": _op_element}


def prelude_for(sub, case, rng):
    if sub == "elements":
        return [{"x": "element", "a": {"elem": case["elem"], "value": case["value"]}}]
    if sub == "sync":
        return []
    op = _case_op(sub, case)
    if op is None:
        return []
    calls = [{"x": "create", "a": op}]
    if op["k"] == "dec":
        n = len(op["bits"])
        d = decoders()[op["dec"]]
        decs = [op["dec"]] + ([x for x in _same_length_decoders(n) if x != op["dec"]] if d.n is not None else [])
        flips = [[rng.randrange(n)] for _ in range(6)] if n else []
        calls.append({"x": "twins", "a": {"op": op, "flips": flips, "decs": decs[:1] + rng.sample(decs[1:], min(2, len(decs) - 1))}})
        calls.append({"x": "refused", "a": {"dec": op["dec"], "bits": op["bits"]}})
    elif op.get("variant") in variants():
        v = variants()[op["variant"]]
        try:
            n = v.nbits(op["f"])
        except Exception:
            n = 96
        decs = _decoders_of_variant(v, n)
        if decs:
            calls.append({"x": "twins", "a": {"op": {"k": "build", "variant": op["variant"], "f": op["f"]}, "flips": [[rng.randrange(max(1, min(n, 72)))] for _ in range(6)], "decs": decs[:2]}})
    return calls


# ======================================================================================================================
# (c) element enumerations, exhaustive


def _elem(name):
    e = elements_ref.ELEMENTS[name]
    return e, getattr(importlib.import_module(e["mod"]), e["cls"])


def oracle_element(case):
    """case = {elem, value} (+ after: [elements of the same width whose constructor / from_bits see the value first])"""
    import enum

    name, v = case["elem"], case["value"]
    e, E = _elem(name)
    w = e["width"]
    kl = name
    vb = int2ba(v, length=w, endian="big")
    for other in case.get("after", ()):  # the same number / bits through sibling elements of that width first (stimulus)
        e2, E2 = _elem(other)
        for fn in (lambda: E2(v), lambda: E2.from_bits(bitarray(vb)), lambda: E2(v).as_bits()):
            try:
                fn()
            except Exception:
                pass
    if e["kind"] == "class":
        # plain value class: every value of the width is valid and reproduces its bits
        _, o = call(E.from_bits, bitarray(vb))
        if o is None:
            raise Fail("element_total", None, "an object", klass=kl)
        _, b = call(o.as_bits)
        if not isinstance(b, bitarray) or b != vb:
            raise Fail("defined_value_maps_to_itself", repr(b), vb.to01(), klass=kl)
        return
    lib_values = {m.value for m in E}
    if v in e["defined"] and v not in lib_values:
        raise Fail("defined_value_maps_to_itself", "no member with this value", v, klass=kl)
    routes = [("constructor", lambda: E(v))]
    if e["bits"]:
        routes.append(("from_bits", lambda: E.from_bits(bitarray(vb))))
    outcomes = []
    for rname, fn in routes:
        status, res = call(fn, allowed=(ValueError, AssertionError))
        if status == "raised":
            if v in lib_values:
                raise Fail("defined_value_maps_to_itself", f"{rname}: {type(res).__name__}: {res}", v, klass=kl)
            outcomes.append("error")
            continue
        if res is None or not isinstance(res, E):
            raise Fail("element_total", f"{rname}: {res!r}", "a member or an error", klass=kl)
        if v in lib_values:
            if res.value != v:
                raise Fail("defined_value_maps_to_itself", f"{rname}: {res!r}", v, klass=kl)
            if e["bits"]:
                _, b = call(res.as_bits)
                if not isinstance(b, bitarray) or b != vb:
                    raise Fail("defined_value_serialises_to_itself", repr(b), vb.to01(), klass=kl)
        else:
            tgt = elements_ref.fold_target(name, v)
            if tgt is None or res.value != tgt:
                raise Fail("undefined_value_maps_to_reserved_member_or_error", f"{rname}: {res!r}",
                           f"member with value {tgt}" if tgt is not None else "an error (no reserved member in the standard)", klass=kl)
            if e["bits"]:
                _, b = call(res.as_bits)
                if not isinstance(b, bitarray) or len(b) != w:
                    raise Fail("fixed_length", repr(b), w, klass=kl)
        outcomes.append(res.name)
    if len(set(outcomes)) > 1:
        raise Fail("constructor_and_from_bits_agree", outcomes, "same outcome", klass=kl)
    if v not in lib_values and "_missing_" in E.__dict__:
        # the element's own reserved-value hook must decide every undefined value of the width: a member or an error,
        # never None (falling off the end of _missing_)
        status, res = call(E._missing_, v, allowed=(ValueError, AssertionError))
        if status == "ok" and not isinstance(res, E):
            raise Fail("missing_hook_total", repr(res), "a member or an error", klass=kl)
    _LAST["outcome"] = "defined" if v in lib_values else ("undefined:error" if outcomes[0] == "error" else "undefined:folded")


def drv_elements(ctx: Ctx, sub: SubCheck):
    def work(name, t: Tally):
        w = elements_ref.ELEMENTS[name]["width"]
        for v in range(1 << w):
            _LAST["outcome"] = "class" if elements_ref.ELEMENTS[name]["kind"] == "class" else "failing"
            ctx.run_case(sub.name, oracle_element, {"elem": name, "value": v}, t)
            t.case(sub.name, nontrivial=True, cls=f"{name}:{_LAST['outcome']}")
        t.sample(sub.name, {"elem": name, "value": (1 << w) - 1})

    def work_after(name, t: Tally):
        """every value once more, in a worker that has not seen this element yet: first the other elements of the same width read
        the value (order rotated with the value), then this one - a memo / intern table keyed on the bits alone would hand over
        a sibling's member"""
        w = elements_ref.ELEMENTS[name]["width"]
        others = [n for n, e in elements_ref.ELEMENTS.items() if e["width"] == w and n != name]
        if not others:
            return
        for v in range(1 << w):
            k = v % len(others)
            _LAST["outcome"] = "class" if elements_ref.ELEMENTS[name]["kind"] == "class" else "failing"
            ctx.run_case(sub.name, oracle_element, {"elem": name, "value": v, "after": others[k:] + others[:k]}, t)
            t.case(sub.name, nontrivial=True, cls=f"{name}:after_sibling_elements")

    ctx.shards(work_after, list(elements_ref.ELEMENTS))  # separate workers, before the plain pass
    ctx.shards(work, list(elements_ref.ELEMENTS))
    ctx.tally.exhaustive[sub.name] = True
    ctx.tally.extra["element_types"] = len(elements_ref.ELEMENTS)
    ctx.tally.extra["element_values"] = sum(1 << e["width"] for e in elements_ref.ELEMENTS.values())


def oracle_sync(case):
    """case = {value}: 48-bit SYNC position.  A table-9.2 constant maps to the member carrying it (and serialises back); any
    other value maps to the embedded-signalling marker."""
    v = case["value"]
    S = lib("SyncPatterns")
    vb = int2ba(v, length=48, endian="big")
    for rname, fn in (("constructor", lambda: S(v)), ("from_bits", lambda: S.from_bits(bitarray(vb))), ("resolve_bytes", lambda: S.resolve_bytes(vb.tobytes()))):
        _, m = call(fn)
        if m is None or not isinstance(m, S):
            raise Fail("element_total", f"{rname}: {m!r}", "a member", klass="SyncPatterns")
        if v in elements_ref.SYNC_PATTERNS:
            if m.value != v:
                raise Fail("defined_value_maps_to_itself", f"{rname}: {m!r}", hex(v), klass="SyncPatterns")
            _, b = call(m.as_bits)
            if b != vb:
                raise Fail("defined_value_serialises_to_itself", repr(b), vb.to01(), klass="SyncPatterns")
        elif m is not S.EmbeddedSignalling:
            raise Fail("undefined_value_maps_to_reserved_member_or_error", f"{rname}: {m!r}", "SyncPatterns.EmbeddedSignalling", klass="SyncPatterns")


def drv_sync(ctx: Ctx, sub: SubCheck):
    from hypothesis import strategies as st

    for v in elements_ref.SYNC_PATTERNS:
        ctx.run_case(sub.name, oracle_sync, {"value": v})
        ctx.tally.case(sub.name, key={"value": v}, nontrivial=True, cls="constant")
        for i in range(48):  # every value at distance one from a constant
            ctx.run_case(sub.name, oracle_sync, {"value": v ^ (1 << i)})
            ctx.tally.case(sub.name, key={"value": v ^ (1 << i)}, nontrivial=True, cls="constant_one_bit_off")
    for v in (0, 2**48 - 1, 0x555555555555, 0xAAAAAAAAAAAA):
        ctx.run_case(sub.name, oracle_sync, {"value": v})
        ctx.tally.case(sub.name, key={"value": v}, nontrivial=True, cls="other")
    near = st.tuples(st.sampled_from(elements_ref.SYNC_PATTERNS), st.integers(0, 47)).map(lambda a: a[0] ^ (1 << a[1]))
    strat = st.one_of(st.integers(0, 2**48 - 1), near).map(lambda v: {"value": v})
    ctx.hypothesis(sub.name, strat, oracle_sync, ctx.pick(300, 5000),
                   record=lambda c, t: t.case(sub.name, key=c, nontrivial=True, cls="constant" if c["value"] in elements_ref.SYNC_PATTERNS else "other"))


SUBCHECKS = [
    SubCheck("build", oracle_build, drv_build, "(a) build -> as_bits (fixed length) -> from_bits: every wire field equals the input, bits equal"),
    SubCheck("build_boundary", oracle_build, drv_build_boundary, "(a) deterministic boundary pass per variant: every boundary value of every field one at a time over two "
             "seeded backgrounds, all pairs of extremes, small full products, computed check values steered to their extremes"),
    SubCheck("decode", oracle_decode, drv_decode, "(b) arbitrary right-length strings: documented rejection or decode-encode fixed point"),
    SubCheck("decode_boundary", oracle_decode, drv_decode_boundary, "(b) deterministic pass per decoder: all-zero / all-ones / alternating strings, every implemented opcode / format "
             "with zero, one and random fill, and every single-bit flip of those (reserved bits, distance-1 opcodes)"),
    SubCheck("interleaved", oracle_interleaved, drv_interleaved, "two-phase batches: build / decode PDUs that differ in their enum octets (listed, unlisted in range, reserved, without "
             "member), serialise again in another order, execute again: every result equals the first one; enum fields at the layout's positions; elements unchanged"),
    SubCheck("retained", oracle_retained, drv_retained, "retained objects: decode / build X and keep it, create near-twins of X (every single-bit flip through the same decoder, its "
             "sibling entry points, every other PDU family of that length, the element decoders on every aligned window; one field at a time replaced): after "
             "every twin X serialises to its first bits and carries its first field values; the kept twins and a fresh X likewise"),
    SubCheck("decode_atheris", oracle_decode, drv_atheris, "(b) coverage-guided (Atheris) campaign on the same decoders and oracle", tiers=("thorough",)),
    SubCheck("elements", oracle_element, drv_elements, "(c) all 2^w values of every w<=8-bit element: defined -> itself, undefined -> reserved member or error"),
    SubCheck("sync", oracle_sync, drv_sync, "SYNC constants and random 48-bit values"),
]
PREDICATES = {}
