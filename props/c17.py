"""C17 — HSTRP/RRS datagram handler: acknowledgement discipline, link flag and registry, whatever the datagram history.

History property.  Runner = reference model + the real RRSDatagramProtocol (or the plain HSTRPDatagramProtocol) wired to a
recording fake asyncio DatagramTransport.  Ops are plain-JSON datagram descriptions; the Runner turns them into octets with
the independent encoder vp/refs/hstrp_ref.py and decodes everything the handler sends with the independent decoder (the
library's serializer / parser is never used to build inputs or to read outputs).

Sub-checks
  exhaustive_class_sequences   every sequence over the 12-class alphabet up to a bounded length (prefix-sharing DFS; every
                               failure is re-judged by a fresh replay of the whole sequence)
  random_histories             Hypothesis RuleBasedStateMachine: random fields, options, payloads, truncation, bit flips
  back_to_back_quiescence      two real handlers wired back to back; every emitted datagram (heartbeat echoes excepted) is
                               delivered to the other side until nothing is in flight: bounded number of deliveries
  class_runs                   every class repeated 300 / 1000 times in each of {fresh, connected, closed}, both handler kinds, plain and
                               with garbage / truncated datagrams / acks / heartbeats interleaved (thresholds that only long runs reach)
  counter_wrap_long_run        one fresh handler, > 2^16 registration requests without any shortcut (thorough only)
  related_value_histories      a datagram of every HSTRP packet type whose payload is a PDU of every RCP / LP / TMP / RRS layout the
                               library parses (or whose DeviceID option / text) carries a radio's four address octets in either
                               order, before and between that radio's own RRS messages (and those of the octet-reversed radio and
                               of near-twin addresses); every history uses an address the process never parsed before
Preludes (PRELUDE_OPS): the case's address octets through the sibling parsers / repr of every carrier form in both octet orders, and
another handler instance serving the octet-reversed radios.
"""
from __future__ import annotations

import asyncio
import collections
import copy
import itertools

from vp.core import Ctx, Fail, SubCheck, Tally, exc_klass, lib_raised, make_machine, replay_ops_oracle
from vp.refs import hstrp_ref as R

LEVEL = "exploration"
RULE = (
    "histories of UDP datagrams delivered to the handler; 12 classes {connect, connect-ack, close, close-ack, heartbeat, "
    "data+RRS registration, data+RRS going-offline, data+RRS status check, data+other HDAP (captured RCP/LP/TMP vectors and "
    "generated TMP text messages), data-ack, reject (with / without payload), damaged (truncation, 1-3 bit flips of one of the "
    "former, garbage)}; (a) ALL class sequences up to 'exhaustive_history_length' with position-dependent concrete fields, "
    "(b) random histories up to 50 (quick) / 200 (thorough) steps, a step being one datagram or a repeated block (the same op or 2-3 ops, 2..300 times, also with garbage / acks interleaved), with random S/N, option lists (0-3 documented options), "
    "radio addresses, payloads and damage, optionally starting from an own S/N counter near 2^16, (c) the same classes "
    "injected into two handlers wired back to back, (d) 'related value' histories and random blocks: a datagram of every packet type (data, reject, "
    "ack / connect / close / heartbeat with payload) carrying a PDU of every RCP / LP / TMP / RRS layout the library parses (reference encoder) whose "
    "address / id slots hold a radio's octets as they are or reversed, followed by that radio's registration / going-offline / status check, with an "
    "address that is fresh in the process.  Oracle: reference model (connected flag, registry) + reference decoding "
    "of every emitted datagram.  Distinct = hash of the op sequence (enumeration: distinct by construction); non-trivial = the "
    "history contains a connect and a data message, or an ack-flagged class, or a damaged datagram that still made the handler "
    "react."
)
ASSUMPTIONS = [
    "well-formed = magic '2B', version 0, exactly the type bits of the class (+ option bit iff >=1 option), options from the "
    "documented table with their documented lengths, payload a complete HDAP message (RRS built by the reference encoder; "
    "other services: vectors captured in the repository's tests, and RCP / LP / TMP / RRS-answer PDUs built by the reference encoder in the "
    "layouts the library's parsers implement with enumerated fields taken from their documented values - RCP opcodes the library lists but does "
    "not parse are not generated, the handler treats them as undecodable datagrams); acks and "
    "heartbeats carry no payload.  Everything else (other versions, several type bits, ack with payload, ...) only occurs in "
    "the 'damaged' class, which is judged by upper bounds only",
    "the statement leaves open whether an ack-flagged connect/close changes the connected flag: after such a datagram the model "
    "accepts 'unchanged' or 'set as a plain connect/close would' and continues with the observed value",
    "reject datagrams are not mentioned by the statement: never raises, at most one ack, no flag change; registry changes only "
    "as the library's own parse of an RRS payload implies",
    "heartbeat: 'echoed only while connected' is checked in both directions (exactly one heartbeat while connected, nothing "
    "otherwise) as DESIGN.md prescribes; the two directions have different clause names",
    "the own S/N counter is a plain attribute; histories may start with it preset (op 'init') to reach the 16-bit boundary "
    "without 65 000 registrations; the thorough tier also runs the un-shortcut history once",
    "back-to-back harness: emitted heartbeats are not forwarded (an echo of an echo is what 'heartbeat is echoed' means; the "
    "ping-pong clause of the statement is about acknowledgements)",
]

PEERS = [["10.1.1.1", 3002], ["10.1.1.2", 3002], ["192.168.22.18", 30001]]
RADIOS = ["0a000064", "0a00012c", "0a2337fa"]
# payloads of services other than RRS: vectors captured in okdmr/tests/dmrlib/hytera/pdu/test_{rcp,tmp,lp,hdap}.py
OTHER_PAYLOADS = [
    "024108050000d20400000e03",
    "0241880100006803",
    "0245b810000100040004000000fd080000fa372300c303",
    "0245b81000010005000000000000000000000000001f03",
    "02471808000000000000000000cb03",
    "0247880100006203",
    "0980a2000d000000010a01b2070a030000003103",
    "09c0a200120003000000020a01b2070a03000000010203e203",
    "0980a10022000000010a01b2070a03640e4f004c004900560045005200200054004500530054007a03",
    "08a0020032000000010a2110dd0000413138333634383236313031354e343731382e383035314530313835342e34333837302e313132310b03",
    "08a002003200000003002337fb0000410000000000000000000000004e353030332e383737314530313432362e353330320000000000007003",
    "02040005006400000001c403",
    "0241080500006f0000007503",
]
CLASSES = ["connect", "connect_ack", "close", "close_ack", "heartbeat", "rrs_register", "rrs_offline", "rrs_status", "data_other",
           "data_ack", "reject", "damaged"]
DATA_CLASSES = {"rrs_register", "rrs_offline", "rrs_status", "data_other"}
ACK_CLASSES = {"connect_ack", "close_ack", "data_ack"}
TYPE_BITS = {"connect": R.CONNECT, "connect_ack": R.CONNECT | R.ACK, "close": R.CLOSE, "close_ack": R.CLOSE | R.ACK, "heartbeat": R.HEARTBEAT,
             "rrs_register": 0, "rrs_offline": 0, "rrs_status": 0, "data_other": 0, "data_ack": R.ACK, "reject": R.REJECT}
RRS_OPCODE = {"rrs_register": R.RRS_REQUEST, "rrs_offline": R.RRS_OFFLINE, "rrs_status": R.RRS_STATUS_CHECK}
PINGPONG_BOUND = 3


def _trailer_collisions():
    """Radio addresses (per RRS opcode) for which the COMPUTED trailer of the frame collides with a delimiter: found by brute force over
    the reference encoder.  (a) checksum octet == terminator 0x03 with 0 / 1 / 2 / 3 trailing 0x03 octets in the address, (b) checksum
    == 0x00, 0xFF, 0x7E, the service octet, the opcode octet, the HSTRP magic octets, with and without a trailing 0x03 in the address."""
    out = {}
    for cls, opc in RRS_OPCODE.items():
        found = []

        def search(target, tail):
            for a in range(256):
                for b in range(256):
                    ip = [bytes([10, a, b, 1]), bytes([10, a, b, 3]), bytes([10, a, 3, 3]), bytes([a, 3, 3, 3])][tail]
                    if R.enc_rrs(opc, ip)[-2] == target and ip.hex() not in found:
                        return ip.hex()
            raise AssertionError("no such address")

        for tail in (0, 1, 2, 3):
            found.append(search(0x03, tail))
        for target in (0x00, 0xFF, 0x7E, R.RRS_SERVICE, opc, 0x32, 0x42):
            for tail in (0, 1):
                found.append(search(target, tail))
        out[cls] = found
    return out


TRAILER_RADIOS = _trailer_collisions()
# [checksum 03 / address ends in 03] for the opcode itself; register + later going-offline of one radio needs the OFFLINE collision address
A_REG, A_OFF, A_STATUS = TRAILER_RADIOS["rrs_register"][1], TRAILER_RADIOS["rrs_offline"][1], TRAILER_RADIOS["rrs_status"][1]
END_03_OPTS = [[[4, "03"]], [[3, "00000003"]], [[3, "03030303"]], [[5, "03"], [4, "03"]], [[3, "0001869f"], [1, ""]], [[7, "03"], [6, "03"], [3, "03030303"]]]
REPEAT_COUNTS = [2, 3, 4, 5, 6, 7, 8, 9, 10, 11, 12, 16, 17, 31, 32, 33, 64, 100, 128, 255, 256, 257, 300]


# ------------------------------------------------------------------------------------------ building datagrams from ops


def _opts(op):
    return [(int(c), bytes.fromhex(h)) for c, h in (op.get("opts") or [])]


def build_payload(p) -> bytes:
    """payload description -> octets.  None | {"other": index} | {"rrs": class, "radio": hex8, "reliable": bool} |
    {"tmp": {"group","rid","dst","src","text"}} (text: str) | {"tmp_raw": {..., "text_hex"}} (raw text octets) | {"hex": ...}"""
    if p is None:
        return b""
    if "other" in p:
        return bytes.fromhex(OTHER_PAYLOADS[p["other"] % len(OTHER_PAYLOADS)])
    if "rrs" in p:
        return R.enc_rrs(RRS_OPCODE[p["rrs"]], bytes.fromhex(p["radio"]), reliable=bool(p.get("reliable")))
    if "tmp" in p:
        t = p["tmp"]
        return R.enc_tmp_message(bool(t["group"]), t["rid"], bytes.fromhex(t["dst"]), bytes.fromhex(t["src"]), t["text"].encode("utf-16-le"),
                                 reliable=bool(t.get("reliable")), confirmed=bool(t.get("confirmed", True)))
    if "tmp_raw" in p:
        t = p["tmp_raw"]
        return R.enc_tmp_message(bool(t["group"]), t["rid"], bytes.fromhex(t["dst"]), bytes.fromhex(t["src"]), bytes.fromhex(t["text_hex"]))
    if "hex" in p:
        return bytes.fromhex(p["hex"])
    if "svc" in p:  # a PDU of RCP / LP / TMP / RRS (answer forms) whose address / id slots carry the given octets
        ids = [bytes.fromhex(h) for h in p["ids"]]
        m, blob, rel = int(p.get("m", 0)), bytes.fromhex(p.get("blob", "")), bool(p.get("reliable"))
        if p["svc"] == "rcp":
            return R.enc_rcp(p["form"], ids, m, blob, reliable=rel)
        if p["svc"] == "lp":
            return R.enc_lp(p["form"], ids, m, reliable=rel)
        if p["svc"] == "tmp":
            return R.enc_tmp(p["form"], ids, m, blob, option=None if p.get("opt") is None else bytes.fromhex(p["opt"]), reliable=rel, confirmed=bool(p.get("confirmed")))
        if p["svc"] == "rrs":
            if p["form"] == "registration_answer":
                return R.enc_rrs(R.RRS_ANSWER, ids[0], reliable=rel, result=m % 3, renew=[1, 60, 300, 0xFFFE][(m // 3) % 4])
            if p["form"] == "status_check_answer":
                return R.enc_rrs(R.RRS_STATUS_ANSWER, ids[0], reliable=rel, state=m % 2)
    raise ValueError(f"bad payload description {p}")


def build(op) -> bytes:
    cls = op["cls"]
    if cls == "damaged":
        if "raw" in op:
            return bytes.fromhex(op["raw"])
        data = bytearray(build(op["base"]))
        if op.get("set_type") is not None and len(data) >= 4:
            data[3] = op["set_type"] & 0xFF
        if op.get("set_version") is not None and len(data) >= 3:
            data[2] = op["set_version"] & 0xFF
        for b in op.get("flip") or []:
            if data:
                b %= len(data) * 8
                data[b // 8] ^= 0x80 >> (b % 8)
        if op.get("trunc") is not None:
            data = data[: op["trunc"]]
        return bytes(data)
    sn = op.get("sn", 0)
    if cls in RRS_OPCODE:
        payload = build_payload({"rrs": cls, "radio": op["radio"], "reliable": op.get("reliable")})
    elif cls == "data_other":
        payload = build_payload(op["pl"])
    elif cls == "reject":
        payload = build_payload(op.get("pl"))
    else:
        payload = b""
    opts = [] if cls == "heartbeat" else _opts(op)
    return R.enc_hstrp(TYPE_BITS[cls], sn, opts, payload)


class FakeTransport(asyncio.DatagramTransport):
    """Recording transport: no socket, no loop."""

    def __init__(self):
        super().__init__()
        self.sent = []

    def sendto(self, data, addr=None):
        self.sent.append((bytes(data), tuple(addr) if addr is not None else None))

    def is_closing(self):
        return False

    def close(self):
        pass

    def abort(self):
        pass


def make_handler(kind: str):
    if kind == "hstrp":
        from okdmr.dmrlib.protocols.hytera.hstrp_datagram_protocol import HSTRPDatagramProtocol

        h = HSTRPDatagramProtocol(port=3002)
    else:
        from okdmr.dmrlib.protocols.hytera.rrs_datagram_protocol import RRSDatagramProtocol

        h = RRSDatagramProtocol(port=3002)
    tr = FakeTransport()
    h.connection_made(tr)
    return h, tr


def classify_emitted(data: bytes):
    """('ack' | 'heartbeat' | 'rrs_answer' | 'other', decoded) by the reference decoder."""
    try:
        d = R.dec_hstrp(data, tolerant_options=True)
    except R.RefDecodeError as e:
        return "other", {"error": str(e)}
    t = d["type"]
    if t & R.ACK:
        return "ack", d
    if t == R.HEARTBEAT:
        return "heartbeat", d
    if t & ~R.OPT == 0:
        try:
            a = R.dec_rrs(d["payload"])
        except R.RefDecodeError as e:
            return "other", dict(d, error=str(e))
        if a["opcode"] == R.RRS_ANSWER:
            d["rrs"] = a
            return "rrs_answer", d
    return "other", d


def deliver(handler, data: bytes, addr):
    """datagram_received with the 'never raises' clause."""
    try:
        return handler.datagram_received(data, tuple(addr))
    except Exception as e:
        if not lib_raised(e):
            raise
        raise Fail("handling_never_raises", f"{type(e).__name__}: {e}", "no exception out of datagram_received", exc_klass(e))


# ---------------------------------------------------------------------------------------------------------- the runner


class Runner:
    """Reference model + real handler."""

    def __init__(self):
        self.kind = "rrs"
        self.real, self.tr = make_handler(self.kind)
        # model
        self.connected = False
        self.registry = {}
        # statistics
        self.st = {"connect": 0, "data": 0, "ackcls": 0, "damaged_reacted": 0, "hb_conn": 0, "hb_disc": 0, "n": 0, "ack_exact_echo": 0,
                   "ack_other_form": 0, "reg_after_offline": 0, "init_sn": 0}
        self.opc = collections.Counter()

    # -- DFS support ---------------------------------------------------------------------------
    def _copy_state(self, d):
        """type-preserving deep copy of the handler's attributes (Counter / deque / defaultdict / nested containers stay what they
        are); the harness's transport and the handler itself keep their identity, uncopyable values are shared"""
        memo = {id(self.tr): self.tr, id(self.real): self.real}
        out = {}
        for k, v in d.items():
            try:
                out[k] = copy.deepcopy(v, memo)
            except Exception:
                out[k] = v
        return out

    def snapshot(self):
        return (self._copy_state(self.real.__dict__), len(self.tr.sent), self.connected, dict(self.registry), dict(self.st))

    def restore(self, s):
        state = self._copy_state(s[0])
        self.real.__dict__.clear()
        self.real.__dict__.update(state)
        del self.tr.sent[s[1]:]
        self.connected = s[2]
        self.registry = dict(s[3])
        self.st = dict(s[4])

    # -- ops -----------------------------------------------------------------------------------
    def apply(self, op):
        k = op["k"]
        if k == "init":
            self.kind = op.get("handler", "rrs")
            self.real, self.tr = make_handler(self.kind)
            self.connected, self.registry = False, {}
            self.real.sn = int(op.get("sn", 0))
            self.st["init_sn"] += 1 if op.get("sn") else 0
            return
        if k == "block":  # ops generated together: a datagram that carries a radio's address octets and that radio's RRS messages
            self.st["related_blocks"] = self.st.get("related_blocks", 0) + 1
            for o in op["ops"]:
                self.apply(o)
            return
        if k == "repeat":  # the same op, or the same short block of ops, n times
            block = op["ops"] if "ops" in op else [op["op"]]
            self.st["longest_repeat"] = max(self.st.get("longest_repeat", 0), op["n"])
            for _ in range(op["n"]):
                for o in block:
                    self.apply(o)
            return
        self.st["n"] += 1
        self.opc[op["cls"]] += 1
        data = build(op)
        src = tuple(PEERS[op.get("src", 0) % len(PEERS)])
        n0 = len(self.tr.sent)
        ret = deliver(self.real, data, src)
        emitted = self.tr.sent[n0:]
        if op["cls"] in ("damaged", "reject"):
            self.judge_lenient(op, data, src, emitted, ret)
        else:
            self.judge_strict(op, data, src, emitted)
        sn = self.real.sn
        if not (isinstance(sn, int) and 0 <= sn <= 0xFFFF):
            raise Fail("own_sequence_counter_fits_16_bits", sn, "0..65535")

    # -- emitted datagram checks ---------------------------------------------------------------
    def check_ack(self, data, src, item, strict_form):
        raw, addr = item
        kind, d = classify_emitted(raw)
        din = R.dec_hstrp(data, tolerant_options=True)
        if addr != src:
            raise Fail("ack_goes_to_the_sender", list(addr) if addr else None, list(src))
        if d["sn"] != din["sn"]:
            raise Fail("ack_same_sequence_number", {"ack": raw.hex(), "sn": d["sn"]}, {"sn": din["sn"]})
        if strict_form:
            if d["type"] & (R.REJECT | R.HEARTBEAT):
                raise Fail("ack_is_an_acknowledgement", {"ack": raw.hex(), "type": d["type"]}, "ack bit set, reject and heartbeat bits clear")
            if d["payload"] or d["options_malformed"]:
                raise Fail("ack_carries_no_payload", raw.hex(), R.enc_hstrp(din["type"] | R.ACK, din["sn"], din["options"]).hex())
            if raw == R.enc_hstrp(din["type"] | R.ACK, din["sn"], din["options"], version=din["version"]):
                self.st["ack_exact_echo"] += 1
            else:
                self.st["ack_other_form"] += 1
        elif len(raw) > len(data):
            raise Fail("ack_carries_no_payload", raw.hex(), "not longer than the acknowledged datagram")

    def check_answer(self, src, item, radio: bytes):
        raw, addr = item
        kind, d = classify_emitted(raw)
        if addr != src:
            raise Fail("registration_answer_goes_to_the_sender", list(addr) if addr else None, list(src))
        a = d["rrs"]
        if a["radio_ip"] != radio or a["result"] != 0:
            raise Fail("registration_answered_by_one_success_answer", {"radio_ip": a["radio_ip"].hex(), "result": a["result"]}, {"radio_ip": radio.hex(), "result": 0})
        if not 0 <= d["sn"] <= 0xFFFF:  # cannot fail on the wire; the counter itself is checked after every datagram
            raise Fail("own_sequence_counter_fits_16_bits", d["sn"], "0..65535")

    # -- well-formed classes -------------------------------------------------------------------
    def judge_strict(self, op, data, src, emitted):
        cls = op["cls"]
        kinds = [classify_emitted(raw)[0] for raw, _ in emitted]
        desc = [[raw.hex(), k] for (raw, _), k in zip(emitted, kinds)]
        rrs = self.kind == "rrs"
        if cls in ACK_CLASSES:
            self.st["ackcls"] += 1
            if emitted:
                raise Fail("acknowledgement_is_never_answered", desc, [])
        elif cls == "heartbeat":
            if self.connected:
                self.st["hb_conn"] += 1
                if kinds != ["heartbeat"]:
                    raise Fail("heartbeat_echoed_once_while_connected", desc, "exactly one heartbeat")
                if emitted[0][1] != src:
                    raise Fail("heartbeat_echo_goes_to_the_sender", list(emitted[0][1] or []), list(src))
            else:
                self.st["hb_disc"] += 1
                if emitted:
                    raise Fail("heartbeat_not_echoed_while_disconnected", desc, [])
        else:
            want = ["ack"] + (["rrs_answer"] if (cls == "rrs_register" and rrs) else [])
            if kinds.count("ack") != 1:
                raise Fail("connect_close_data_answered_by_exactly_one_ack", desc, want)
            if cls == "rrs_register" and rrs and kinds.count("rrs_answer") != 1:
                raise Fail("registration_answered_by_one_success_answer", desc, want)
            # further datagrams that are neither acknowledgements, heartbeats nor registration answers (say, an application-level
            # reply to another RRS opcode) are not constrained by the statement for a message without the ack bit: counted only
            rest = [k for k in kinds if k != "other"]
            if sorted(rest) != sorted(want):
                raise Fail("nothing_else_is_sent", desc, want)
            if len(rest) != len(kinds):
                self.st["extra_datagram_tolerated"] = self.st.get("extra_datagram_tolerated", 0) + 1
            for item, kd in zip(emitted, kinds):
                if kd == "ack":
                    self.check_ack(data, src, item, strict_form=True)
                elif kd == "rrs_answer":
                    self.check_answer(src, item, bytes.fromhex(op["radio"]))
        # state
        if cls == "connect":
            self.connected = True
            self.st["connect"] += 1
        elif cls == "close":
            self.connected = False
        elif cls in ("connect_ack", "close_ack"):
            allowed = {self.connected, cls == "connect_ack"}
            if self.real.hstrp_connected not in allowed:
                raise Fail("connected_flag_equals_last_connect_or_close", self.real.hstrp_connected, sorted(allowed))
            self.connected = self.real.hstrp_connected
        if cls in DATA_CLASSES:
            self.st["data"] += 1
        if rrs and cls == "rrs_register":
            ip = R.ip_str(bytes.fromhex(op["radio"]))
            if self.registry.get(ip) == "Offline":
                self.st["reg_after_offline"] += 1
            self.registry[ip] = "Online"
        elif rrs and cls == "rrs_offline":
            self.registry[R.ip_str(bytes.fromhex(op["radio"]))] = "Offline"
        self.compare_state()

    def real_registry(self):
        if self.kind != "rrs":
            return {}
        return {str(k): getattr(v, "name", repr(v)) for k, v in self.real.registry.items()}

    def compare_state(self):
        if self.real.hstrp_connected is not self.connected:
            raise Fail("connected_flag_equals_last_connect_or_close", self.real.hstrp_connected, self.connected)
        got = self.real_registry()
        if got != self.registry:
            raise Fail("registry_holds_last_registration_or_offline_per_radio", got, dict(self.registry))

    # -- reject / damaged: upper bounds only ------------------------------------------------------
    def judge_lenient(self, op, data, src, emitted, ret):
        cls = op["cls"]
        kinds = [classify_emitted(raw)[0] for raw, _ in emitted]
        desc = [[raw.hex(), k] for (raw, _), k in zip(emitted, kinds)]
        framed = len(data) >= 6 and data[0:2] == R.MAGIC
        t = data[3] if framed else None
        pdu = ret[1] if isinstance(ret, tuple) and len(ret) == 2 else None
        lib_rrs = None  # the library's own reading of an RRS payload (opcode value, radio ip octets)
        if pdu is not None and type(getattr(pdu, "payload", None)).__name__ == "RadioRegistrationService":
            p = pdu.payload
            lib_rrs = (p.opcode.value, bytes([p.radio_ip.subnet & 0xFF]) + int(p.radio_ip.radio_id).to_bytes(3, "big"))
        if emitted and not framed:
            # an acknowledgement / heartbeat / registration answer for something that is no HSTRP datagram contradicts the
            # statement's "only in reaction to"; any other datagram (say, a reject notice) is the library's choice
            if any(kd != "other" for kd in kinds):
                raise Fail("nothing_is_sent_for_a_datagram_without_hstrp_header", desc, [])
        if not framed:
            t = 0
        if kinds.count("ack") and t & R.ACK:
            raise Fail("acknowledgement_is_never_answered", desc, "no ack for an ack-flagged datagram")
        if kinds.count("ack") > 1:
            raise Fail("connect_close_data_answered_by_exactly_one_ack", desc, "at most one ack")
        if kinds.count("heartbeat") > (1 if (framed and t & R.HEARTBEAT and (self.connected or self.real.hstrp_connected)) else 0):
            raise Fail("heartbeat_not_echoed_while_disconnected", desc, "heartbeat only for a heartbeat-flagged datagram while connected")
        if kinds.count("rrs_answer") > (1 if (lib_rrs and lib_rrs[0] == R.RRS_REQUEST and self.kind == "rrs") else 0):
            raise Fail("registration_answered_by_one_success_answer", desc, "an answer only for a parsed registration request")
        if "other" in kinds:
            if t & R.ACK:
                raise Fail("acknowledgement_is_never_answered", desc, "nothing for an ack-flagged datagram")
            self.st["extra_datagram_tolerated"] = self.st.get("extra_datagram_tolerated", 0) + 1
        for item, kd in zip(emitted, kinds):
            if kd == "ack":
                self.check_ack(data, src, item, strict_form=False)
            elif kd == "rrs_answer":
                self.check_answer(src, item, lib_rrs[1])
        if cls == "damaged" and (emitted or pdu is not None):
            self.st["damaged_reacted"] += 1
        # connected flag
        if framed and t & (R.CONNECT | R.CLOSE) and cls == "damaged":
            self.connected = bool(self.real.hstrp_connected)  # unconstrained for malformed connect/close
        # registry: only as the library's own parse of an RRS payload implies
        got = self.real_registry()
        if got != self.registry:
            diff = {k: v for k, v in got.items() if self.registry.get(k) != v}
            gone = [k for k in self.registry if k not in got]
            implied = None
            if lib_rrs and lib_rrs[0] in (R.RRS_REQUEST, R.RRS_OFFLINE) and lib_rrs[1] in data:
                implied = {R.ip_str(lib_rrs[1]): "Online" if lib_rrs[0] == R.RRS_REQUEST else "Offline"}
            if gone or diff != implied:
                raise Fail("registry_holds_last_registration_or_offline_per_radio", got, {"before": dict(self.registry), "allowed_change": implied})
            self.registry = got
        self.compare_state()

    # -- reporting -----------------------------------------------------------------------------
    def nontrivial(self):
        s = self.st
        return bool((s["connect"] and s["data"]) or s["ackcls"] or s["damaged_reacted"])

    def classes(self):
        s = self.st
        out = [f"op_{c}" for c, n in sorted(self.opc.items()) for _ in range(n)]
        for name, flag in [("connect_and_data", s["connect"] and s["data"]), ("has_ack_class", s["ackcls"]), ("damaged_datagram_made_handler_react", s["damaged_reacted"]),
                           ("heartbeat_while_connected", s["hb_conn"]), ("heartbeat_while_disconnected", s["hb_disc"]),
                           ("registration_after_offline", s["reg_after_offline"]), ("ack_is_exact_echo_of_type_and_options", s["ack_exact_echo"]),
                           ("ack_of_other_form", s["ack_other_form"]), ("preset_sn_counter", s["init_sn"]), ("plain_hstrp_handler", self.kind == "hstrp"),
                           ("repeat_block_2_to_9_times", 2 <= s.get("longest_repeat", 0) < 10), ("repeat_block_10_to_99_times", 10 <= s.get("longest_repeat", 0) < 100),
                           ("repeat_block_100_or_more_times", s.get("longest_repeat", 0) >= 100),
                           ("related_value_block", s.get("related_blocks", 0))]:
            if flag:
                out.append(name)
        return out


oracle_history = replay_ops_oracle(Runner)


# ------------------------------------------------------------------------------------- back-to-back (ping-pong) runner


class PairRunner:
    """Two real handlers wired back to back.  An op injects one datagram into handler op['to'] (as if sent by the other);
    then every datagram a handler emits to the other's address is delivered there, until nothing is in flight."""

    ADDR = [("10.9.0.1", 3002), ("10.9.0.2", 3002)]
    CAP = 12

    def __init__(self):
        self.h = [make_handler("rrs"), make_handler("rrs")]
        self.n_inj = 0
        self.max_deliveries = 0
        self.opc = collections.Counter()

    def apply(self, op):
        if op["k"] in ("repeat", "block"):
            for _ in range(op.get("n", 1)):
                for o in op["ops"] if "ops" in op else [op["op"]]:
                    self.apply(o)
            return
        if op["k"] != "d":
            return
        self.n_inj += 1
        self.opc[op["cls"]] += 1
        to = op.get("to", 0) % 2
        data = build(op)
        marks = [len(self.h[0][1].sent), len(self.h[1][1].sent)]
        deliver(self.h[to][0], data, self.ADDR[1 - to])
        deliveries = 0
        trace = []
        while True:
            moved = False
            for i in (0, 1):
                sent = self.h[i][1].sent
                while marks[i] < len(sent):
                    raw, addr = sent[marks[i]]
                    marks[i] += 1
                    if addr != self.ADDR[1 - i]:
                        continue
                    if classify_emitted(raw)[0] == "heartbeat":
                        continue
                    deliveries += 1
                    trace.append([i, raw.hex()])
                    if deliveries > self.CAP:
                        raise Fail("back_to_back_handlers_become_quiescent", {"deliveries": f"> {self.CAP}", "first": trace[:6]}, f"<= {PINGPONG_BOUND} deliveries")
                    deliver(self.h[1 - i][0], raw, self.ADDR[i])
                    moved = True
            if not moved:
                break
        self.max_deliveries = max(self.max_deliveries, deliveries)
        if deliveries > PINGPONG_BOUND:
            raise Fail("back_to_back_handlers_become_quiescent", {"deliveries": deliveries, "trace": trace}, f"<= {PINGPONG_BOUND} deliveries")

    def nontrivial(self):
        return self.max_deliveries >= 1

    def classes(self):
        return [f"op_{c}" for c, n in sorted(self.opc.items()) for _ in range(n)] + [f"max_deliveries_{self.max_deliveries}"]


oracle_pair = replay_ops_oracle(PairRunner)


# ---------------------------------------------------------------------------------------------------- exhaustive part

_EXH_OPTS = [[[3, "0001869f"], [4, "02"]], [], [[4, "01"]], [[1, ""], [3, "00066b0e"], [7, "01"]]]
_EXH_SN = [0, 1, 0x00FF, 0x0100, 0xFFFF, 0x1234]
_TMP_ODD = {"tmp_raw": {"group": False, "rid": 1, "dst": "0a000001", "src": "0a000002", "text_hex": "410042"}}


def _exh_damaged(p):
    reg = {"k": "d", "cls": "rrs_register", "sn": 9, "opts": _EXH_OPTS[0], "radio": RADIOS[2]}
    return [
        {"k": "d", "cls": "damaged", "base": reg, "trunc": 20},  # cut inside the payload
        {"k": "d", "cls": "damaged", "base": {"k": "d", "cls": "connect", "sn": 3, "opts": []}, "set_type": R.CONNECT | R.CLOSE},
        {"k": "d", "cls": "damaged", "base": reg, "flip": [8 * 22 + 7]},  # radio address bit flipped: checksum wrong
        {"k": "d", "cls": "damaged", "base": {"k": "d", "cls": "heartbeat", "sn": 0}, "set_type": R.HEARTBEAT | R.ACK},
        {"k": "d", "cls": "damaged", "base": reg, "set_type": R.OPT | R.ACK},  # ack carrying a registration request
        {"k": "d", "cls": "damaged", "raw": "0000000000000000"},
        {"k": "d", "cls": "damaged", "base": reg, "flip": [8 * 6 + 3]},  # undocumented option command
        {"k": "d", "cls": "damaged", "base": {"k": "d", "cls": "close", "sn": 0, "opts": []}, "trunc": 5},
    ][p % 8]


def exh_op(ci: int, p: int) -> dict:
    """Concrete datagram for class index ci at history position p."""
    cls = CLASSES[ci]
    if cls == "damaged":
        return _exh_damaged(p)
    op = {"k": "d", "cls": cls, "src": 0}
    if cls == "heartbeat":
        op["sn"] = 0
        return op
    op["opts"] = _EXH_OPTS[(p + ci) % 4]
    if cls in ("connect", "connect_ack", "close", "close_ack"):
        op["sn"] = 0 if p % 2 == 0 else 7 + p
    else:
        op["sn"] = _EXH_SN[(p + ci) % 6]
    if cls == "rrs_register":  # positions 2.. also use addresses whose frame trailer collides with the terminator (see _trailer_collisions)
        op["radio"] = [RADIOS[0], RADIOS[1], A_REG, A_OFF, RADIOS[0], A_REG][p % 6]
    elif cls == "rrs_offline":  # A_OFF registers (fine) at position 3 and goes offline (colliding trailer) at position 4
        op["radio"] = [RADIOS[1], RADIOS[0], A_OFF, A_REG, A_OFF, RADIOS[0]][p % 6]
    elif cls == "rrs_status":
        op["radio"] = [RADIOS[0], RADIOS[1], A_STATUS, RADIOS[2]][p % 4]
    elif cls == "data_other":
        op["pl"] = {"other": (p * 5 + ci) % len(OTHER_PAYLOADS)}
    elif cls == "reject":
        op["pl"] = [None, _TMP_ODD, {"rrs": "rrs_register", "radio": RADIOS[2]}][p % 3]
    return op


def _seq_nontrivial(seq):
    names = {CLASSES[i] for i in seq}
    return bool(("connect" in names and names & DATA_CLASSES) or names & ACK_CLASSES)


def prefix_probes(pos: int):
    """every proper prefix (0 .. len-1 octets) of the datagram of each of the 12 classes at history position pos"""
    for ci in range(len(CLASSES)):
        base = exh_op(ci, pos)
        for cut in range(len(build(base))):
            yield {"k": "d", "cls": "damaged", "src": 0, "base": base, "trunc": cut}


_TLV_LIKE = ["83040001", "04010211", "01008304", "11000300", "09800000", "32420001"]


def _valid_utf16(b: bytes) -> bool:
    try:
        b.decode("utf-16-le")
        return len(b) % 2 == 0
    except UnicodeDecodeError:
        return False


_TMP_COLL = []


def _tmp_trailer_collisions():
    """TMP text messages whose checksum octet equals 03 / 00 / FF / 7E while the text ends in 03 03 (U+0303) or in 03 00: the request id is
    searched with the reference encoder"""
    if not _TMP_COLL:
        for text in ("ab\u0303", "\u0303\u0303", "x\x03", "\u0303"):
            for target in (0x03, 0x00, 0xFF, 0x7E):
                for rid in range(1, 1 << 16):
                    if R.enc_tmp_message(False, rid, bytes.fromhex("0a000003"), bytes.fromhex("0a000303"), text.encode("utf-16-le"))[-2] == target:
                        _TMP_COLL.append({"tmp": {"group": False, "rid": rid, "dst": "0a000003", "src": "0a000303", "text": text}})
                        break
    return _TMP_COLL


def collision_probes(pos: int, strict_only: bool = False):
    """Free octets of one datagram that look like the framing of another: (ci, op) pairs.
    Well-formed (judged strictly): option data equal to the first octets of every class datagram / to option TLV headers / to an HDAP
    header, one-octet options whose value is a TLV command or the magic, RRS radio addresses and TMP texts / addresses made of such
    octets.  Judged by upper bounds ('damaged'): each class header (+ options) followed by the complete datagram of every class as
    its payload, and the option area replaced by the complete datagram of every class."""
    grams = [build(exh_op(ci, pos)) for ci in range(len(CLASSES))]
    heads = sorted({g[:4].ljust(4, b"\x00").hex() for g in grams} | set(_TLV_LIKE))
    opt_lists = [[[3, h]] for h in heads] + [[[3, "0001869f"], [4, "83"]], [[4, "04"], [3, "04010201"]], [[1, ""], [5, "01"], [6, "03"]], [[7, "32"], [4, "11"]],
                                            [[4, "84"], [4, "01"], [3, "32420005"]]] + END_03_OPTS
    for ci, cls in enumerate(CLASSES):
        if cls in ("heartbeat", "damaged"):
            continue
        base = exh_op(ci, pos)
        for ol in opt_lists:
            yield ci, dict(base, opts=ol)
        if cls in RRS_OPCODE:
            for h in _TLV_LIKE:
                yield ci, dict(base, radio=h)
            for h in TRAILER_RADIOS[cls]:  # computed trailer (checksum) colliding with the terminator / other delimiters
                yield ci, dict(base, radio=h)
                yield ci, dict(base, radio=h, opts=[], reliable=True)
        if cls == "data_other":
            for pl in _tmp_trailer_collisions():
                yield ci, dict(base, pl=pl)
        if cls == "data_other":
            for g in grams:
                text = g if len(g) % 2 == 0 else g + b"\x00"
                if _valid_utf16(text):
                    yield ci, dict(base, pl={"tmp_raw": {"group": False, "rid": 0x32420005, "dst": "32420005", "src": "83040001", "text_hex": text.hex()}})
        if strict_only:
            continue
        # upper bounds only: another datagram as payload / in place of the options
        sn = base.get("sn", 0)
        for g in grams:
            for ol in ([], [[3, "0001869f"], [4, "02"]]):
                raw = R.enc_hstrp(TYPE_BITS[cls], sn, [(c, bytes.fromhex(h)) for c, h in ol], g)
                yield len(CLASSES) - 1, {"k": "d", "cls": "damaged", "src": 0, "raw": raw.hex()}
            raw = R.MAGIC + bytes([0, TYPE_BITS[cls] | R.OPT, sn >> 8, sn & 0xFF]) + g
            yield len(CLASSES) - 1, {"k": "d", "cls": "damaged", "src": 0, "raw": raw.hex()}


def drv_exhaustive(ctx: Ctx, sub: SubCheck):
    depth = ctx.pick(5, 6)
    probe_depth = ctx.pick(2, 3)  # truncation probes after every class sequence up to this length
    n = len(CLASSES)
    items = list(itertools.product(range(n), repeat=2))

    def work(prefix, t: Tally):
        r = Runner()
        ops = []
        seq = []
        confirmed = {}

        def visit(ci, op=None):
            """apply class ci (or the given probe op) at the current position; returns False when the history failed (subtree is
            not explored)."""
            op = exh_op(ci, len(seq)) if op is None else op
            seq.append(ci)
            ops.append(op)
            try:
                r.apply(op)
                return True
            except Fail as f:
                failed = f
            except Exception as e:
                if not lib_raised(e):
                    raise
                failed = Fail("no_unexpected_exception", f"{type(e).__name__}: {e}", "no exception", exc_klass(e))
            # judge by a fresh replay of the whole sequence, so that a reported failure never depends on the DFS bookkeeping;
            # after 8 confirmed failures of one bucket in this worker further ones are only counted (keeps failing trees fast)
            bucket = f"{sub.name}|{failed.clause}|{failed.klass}"
            if confirmed.get(bucket, 0) >= 8:
                t.fail_counts[bucket] += 1
                return False
            case = {"ops": list(ops)}
            before = t.fail_counts.get(bucket, 0)
            held = ctx.run_case(sub.name, oracle_history, case, t)
            if t.fail_counts.get(bucket, 0) > before:
                confirmed[bucket] = confirmed.get(bucket, 0) + 1
            if held and not t.known:
                t.errors.append(f"{sub.name}: DFS saw {failed} for class sequence {seq} but the fresh replay holds")
            return False

        def probes():
            """truncated / prefix datagrams of every class as the next datagram of the current history"""
            for probe in prefix_probes(len(seq)):
                s = r.snapshot()
                ok = visit(len(CLASSES) - 1, probe)
                t.case(sub.name, nontrivial=ok and r.st["damaged_reacted"] > 0, cls="prefix_probe" if ok else "failing")
                seq.pop()
                ops.pop()
                r.restore(s)
            if ctx.quick and (seq[0] * 5 + seq[1]) % 3:  # quick: collision probes after a third of the length-2 sequences (all after <= 1 datagram)
                return
            for ci, probe in collision_probes(len(seq), strict_only=ctx.quick):  # quick: the bounded-only ones after <= 1 datagram only
                s = r.snapshot()
                ok = visit(ci, probe)
                t.case(sub.name, nontrivial=ok, cls="collision_probe" if ok else "failing")
                seq.pop()
                ops.pop()
                r.restore(s)

        def rec():
            L = len(seq)
            if L >= 2:
                t.case(sub.name, nontrivial=_seq_nontrivial(seq) or r.st["damaged_reacted"] > 0, cls=f"len_{L}")
                if (sum((i + 1) * 31 ** k for k, i in enumerate(seq)) % 24007) == 0:
                    t.sample(sub.name, {"class_sequence": [CLASSES[i] for i in seq]})
            if 2 <= L <= probe_depth:
                probes()
            if L >= depth:
                return
            for ci in range(n):
                s = r.snapshot()
                if visit(ci):
                    rec()
                else:
                    t.case(sub.name, cls="failing")
                seq.pop()
                ops.pop()
                r.restore(s)

        s0 = r.snapshot()
        ok = True
        for ci in prefix:
            if not visit(ci):
                ok = False
                t.case(sub.name, cls="failing")
                break
        if ok:
            rec()
        r.restore(s0)

    ctx.shards(work, items)
    for i in range(n):
        ctx.run_case(sub.name, oracle_history, {"ops": [exh_op(i, 0)]})
        ctx.tally.case(sub.name, cls="len_1", nontrivial=CLASSES[i] in ACK_CLASSES)
    # truncation probes after the empty history and after every single class (longer histories: inside the DFS)
    for first in [None] + list(range(n)):
        pre = [] if first is None else [exh_op(first, 0)]
        for probe in prefix_probes(len(pre)):
            ctx.run_case(sub.name, oracle_history, {"ops": pre + [probe]})
            ctx.tally.case(sub.name, cls="prefix_probe")
        for _, probe in collision_probes(len(pre)):
            ctx.run_case(sub.name, oracle_history, {"ops": pre + [probe]})
            ctx.tally.case(sub.name, cls="collision_probe", nontrivial=True)
    # directed: own S/N counter at the 16-bit boundary (the alphabet above never gets there)
    for sn0 in (65533, 65534, 65535):
        for kind in ("rrs", "hstrp"):
            reg = [exh_op(CLASSES.index("rrs_register"), p) for p in range(4)]
            ctx.run_case(sub.name, oracle_history, {"ops": [{"k": "init", "handler": kind, "sn": sn0}] + reg})
            ctx.tally.case(sub.name, cls="directed_sn_counter_boundary", nontrivial=False)
    ctx.tally.exhaustive[sub.name] = True
    ctx.tally.extra["exhaustive_history_length"] = depth
    ctx.tally.notes.append(
        f"{sub.name}: all class sequences of length <= {depth} over the 12-class alphabet with position-dependent concrete fields "
        f"(the fields themselves are sampled by random_histories); a failing prefix is reported once and its extensions are not explored; "
        f"after every class sequence of length <= {probe_depth} every proper prefix of each of the 12 class datagrams is delivered as a probe, and "
        f"so are 'collision' datagrams whose free octets (option data, radio address, text, payload, option area) are the header / TLV / complete "
        f"datagram octets of every other class (well-formed ones judged strictly, the others by upper bounds)"
    )


def drv_pair(ctx: Ctx, sub: SubCheck):
    depth = ctx.pick(2, 3)
    n = len(CLASSES)
    # (class, receiving side) symbols
    symbols = [(ci, to) for ci in range(n) for to in (0, 1)]
    items = list(range(len(symbols)))

    def work(first, t: Tally):
        for L in range(1, depth + 1):
            for rest in itertools.product(range(len(symbols)), repeat=L - 1):
                idx = [first] + list(rest)
                ops = [dict(exh_op(symbols[j][0], p), to=symbols[j][1]) for p, j in enumerate(idx)]
                case = {"ops": ops}
                ctx.run_case(sub.name, oracle_pair, case, t)
                t.case(sub.name, nontrivial=True, cls=f"len_{L}")
        # connected on both sides first, then every class
        for ci, to in symbols:
            pre = [dict(exh_op(0, 0), to=0), dict(exh_op(0, 1), to=1)]
            case = {"ops": pre + [dict(exh_op(symbols[first][0], 2), to=symbols[first][1]), dict(exh_op(ci, 3), to=to)]}
            ctx.run_case(sub.name, oracle_pair, case, t)
            t.case(sub.name, nontrivial=True, cls="both_connected_then_2")

    ctx.shards(work, items)
    ctx.tally.notes.append(f"{sub.name}: all sequences of (class, receiving side) injections up to length {depth}, plus all pairs after both sides were connected")

    M = make_machine("HSTRPPairMachine", PairRunner, _strategies(pair=True))

    def rnd(shard, t: Tally):
        ctx.state_machine(sub.name, M, max_examples=ctx.pick(6, 60), step_count=ctx.pick(30, 100), tally=t, shard=shard)

    ctx.shards(rnd, list(range(16)))



# ---------------------------------------------------------------- related values: carriers of a radio's address octets (round 7)
#
# A radio's four address octets also travel in PDUs of the other HDAP services (RCP - little endian -, LP, TMP, RRS answers), in
# DeviceID options and in texts; the handler parses those PDUs under every packet type and formats some of them for its log
# (reject branch, "RRS did not handle").  Whatever such a datagram makes the library remember about the four octets must not
# reach the RRS messages of the radio with that address - or with the octet-reversed address.  These histories need addresses
# that the process has never parsed before: every history gets its own.

CARRIER_FORMS = ([("rcp", f) for f in R.RCP_FORMS] + [("lp", f) for f in R.LP_FORMS] + [("tmp", f) for f in R.TMP_FORMS]
                 + [("rrs", "registration_answer"), ("rrs", "status_check_answer"), ("rrs_request", "rrs_register"), ("rrs_request", "rrs_offline"),
                    ("rrs_request", "rrs_status"), ("text", "tmp_text"), ("option", "device_id")])
CARRIER_TYPES = {"data": 0, "reject": R.REJECT, "ack": R.ACK, "connect": R.CONNECT, "close": R.CLOSE, "heartbeat": R.HEARTBEAT, "connect_ack": R.CONNECT | R.ACK,
                 "reject_ack": R.REJECT | R.ACK}
_CARRIER_OPTS = [[], [[3, "0001869f"], [4, "02"]], [[4, "01"]]]


def carrier_op(svc: str, form: str, ids, m: int, ctype: str, src: int = 0) -> dict:
    """the datagram of HSTRP type ``ctype`` whose payload (option / text) of the given form carries the octets ``ids`` (hex8 strings)"""
    opts = _CARRIER_OPTS[m % 3]
    sn = [0, 1, 0x1234, 0xFFFF][m % 4]
    blob = ["", "680069002100", "4142", "00d8"][(m // 4) % 4]  # text / alias / short data octets ("hi!", odd-looking, a lone surrogate)
    if svc == "option":
        opts = [[3, ids[0]]] + ([[4, "02"]] if m % 2 else [])
        pl = {"other": m}
    elif svc == "rrs_request":
        pl = {"rrs": form, "radio": ids[0], "reliable": bool(m % 2)}
    elif svc == "text":
        pl = {"tmp_raw": {"group": bool(m % 2), "rid": m, "dst": ids[1 % len(ids)], "src": "0a000001", "text_hex": ids[0] + ids[1 % len(ids)]}}
    else:
        pl = {"svc": svc, "form": form, "ids": list(ids), "m": m, "blob": blob, "reliable": bool((m // 2) % 2)}
        if svc == "tmp":
            pl["opt"] = [None, "", "0102" + ids[0]][m % 3]
            pl["confirmed"] = bool(m % 2)
    data = {"k": "d", "cls": "data_other", "src": src, "sn": sn, "opts": opts, "pl": pl}
    if ctype == "data" and svc != "rrs_request":
        return data
    if ctype == "data":  # a data datagram with an RRS request IS that radio's message: judged as such
        return {"k": "d", "cls": form, "src": src, "sn": sn, "opts": opts, "radio": ids[0], "reliable": bool(m % 2)}
    if ctype == "reject":
        return dict(data, cls="reject")
    return {"k": "d", "cls": "damaged", "src": src, "base": data, "set_type": CARRIER_TYPES[ctype] | (R.OPT if opts else 0)}


def _rrs(cls, radio, p, src=0):
    return {"k": "d", "cls": cls, "src": src, "sn": _EXH_SN[p % 6], "opts": _EXH_OPTS[p % 4], "radio": radio, "reliable": bool(p % 2)}


def related_history(svc, form, ctype, arrangement, template, v: str, m: int):
    """v: the radio's address (hex8); w: the octet-reversed address"""
    w = bytes.fromhex(v)[::-1].hex()
    ids = {"asis": [v, v, v], "reversed": [w, w, w], "mixed": [v, w, v]}[arrangement]
    other = {"asis": [w, w, w], "reversed": [v, v, v], "mixed": [w, v, w]}[arrangement]
    c = carrier_op(svc, form, ids, m, ctype)
    c2 = carrier_op(svc, form, other, m + 1, ctype)
    connect = {"k": "d", "cls": "connect", "src": 0, "sn": 0, "opts": []}
    if template == "carrier_first":
        return [connect, c, _rrs("rrs_register", v, 1), c, _rrs("rrs_offline", v, 2), _rrs("rrs_register", w, 3), _rrs("rrs_status", v, 4)]
    if template == "register_first":
        return [_rrs("rrs_register", v, 0), c, _rrs("rrs_offline", v, 1), c2, _rrs("rrs_register", v, 2), _rrs("rrs_offline", w, 3)]
    if template == "offline_first":
        return [c, _rrs("rrs_offline", v, 0), c, _rrs("rrs_register", v, 1), c2, _rrs("rrs_status", w, 2), _rrs("rrs_register", w, 3)]
    if template == "both_orders":
        return [c, c2, _rrs("rrs_register", v, 0), _rrs("rrs_register", w, 1), c2, c, _rrs("rrs_offline", v, 2)]
    if template == "near_twins":  # radios that differ from v only in the first octet (subnet) / only in the last octet / only in one middle octet
        b = bytes.fromhex(v)
        t1, t2, t3 = bytes([b[0] ^ 1]) + b[1:], b[:3] + bytes([b[3] ^ 0x80]), b[:1] + bytes([b[1] ^ 0xFF]) + b[2:]
        return [_rrs("rrs_register", v, 0), _rrs("rrs_register", t1.hex(), 1), c, _rrs("rrs_offline", v, 2), _rrs("rrs_register", t2.hex(), 3), _rrs("rrs_offline", t1.hex(), 4),
                carrier_op(svc, form, [t1.hex(), t2.hex(), t3.hex()], m + 2, ctype), _rrs("rrs_offline", t3.hex(), 5), _rrs("rrs_register", v, 0), _rrs("rrs_status", t2.hex(), 1)]
    raise ValueError(template)


RELATED_TEMPLATES = ["carrier_first", "register_first", "offline_first", "both_orders", "near_twins"]


def fresh_radios(label: str, n: int):
    """n addresses (hex8), deterministic, pairwise distinct together with their octet-reversed images, none a palindrome, none in the
    10.x pool the other sub-checks use"""
    import hashlib

    out, seen, i = [], set(), 0
    while len(out) < n:
        b = hashlib.sha256(f"{label}/{i}".encode()).digest()[:4]
        i += 1
        twins = [bytes([b[0] ^ 1]) + b[1:], b[:3] + bytes([b[3] ^ 0x80]), b[:1] + bytes([b[1] ^ 0xFF]) + b[2:]]  # see template near_twins
        group = [x for t in [b] + twins for x in (t, t[::-1])]
        if b == b[::-1] or b[0] in (10, 11) or b[3] in (10, 11) or any(x in seen for x in group):
            continue
        seen.update(group)
        out.append(b.hex())
    return out


def drv_related(ctx: Ctx, sub: SubCheck):
    arrangements = ["asis", "reversed"]
    combos = [(fi, ctype, arr, tpl) for fi in range(len(CARRIER_FORMS)) for ctype in CARRIER_TYPES for arr in arrangements for tpl in RELATED_TEMPLATES]
    # 'mixed' arrangement (both orders of the octets in one PDU): forms with two or more slots
    combos += [(fi, ctype, "mixed", tpl) for fi, (svc, _) in enumerate(CARRIER_FORMS) if svc in ("rcp", "tmp", "lp") for ctype in ("data", "reject", "ack") for tpl in RELATED_TEMPLATES]
    radios = fresh_radios(f"{sub.name}/{ctx.seed}", len(combos))
    items = list(range(len(CARRIER_FORMS)))

    def work(fi, t: Tally):
        for idx, (f, ctype, arr, tpl) in enumerate(combos):
            if f != fi:
                continue
            svc, form = CARRIER_FORMS[f]
            ops = related_history(svc, form, ctype, arr, tpl, radios[idx], idx)
            ctx.run_case(sub.name, oracle_history, {"ops": ops}, t)
            t.case(sub.name, nontrivial=True, cls=f"carrier_{ctype}")
            t.cls(sub.name, f"payload_{svc}")
            t.cls(sub.name, f"template_{tpl}")
            if idx % 97 == 0:
                t.sample(sub.name, {"carrier": [svc, form, ctype, arr], "template": tpl, "radio": radios[idx]})

    ctx.shards(work, items)
    ctx.tally.notes.append(
        f"{sub.name}: {len(combos)} histories = {len(CARRIER_FORMS)} carrier forms (every RCP / LP / TMP / RRS PDU layout the library parses, DeviceID option, text) x "
        f"{len(CARRIER_TYPES)} HSTRP packet types x octet order x {len(RELATED_TEMPLATES)} orders of carrier and the radio's own RRS messages; every history uses a radio address "
        f"that no earlier history of the process used"
    )


# ---------------------------------------------------------------------------------------------------- random part


def _strategies(pair: bool = False, long_runs: bool = True):
    from hypothesis import strategies as st

    sn = st.one_of(st.sampled_from([0, 1, 2, 255, 256, 32767, 32768, 65534, 65535]), st.integers(0, 65535))
    sn0 = st.one_of(st.just(0), sn)  # connect / close / heartbeat / reject: "should be 0"
    opt = st.one_of(
        st.just([1, ""]),
        st.binary(min_size=4, max_size=4).map(lambda b: [3, b.hex()]),
        st.builds(lambda c, v: [c, bytes([v]).hex()], st.sampled_from([4, 5, 6, 7]), st.integers(0, 255)),
    )
    opts = st.one_of(st.just([]), st.just([[3, "0001869f"], [4, "02"]]), st.lists(opt, max_size=3))
    ip4 = st.binary(min_size=4, max_size=4).map(bytes.hex)
    colliding = st.sampled_from(sorted({a for v in TRAILER_RADIOS.values() for a in v}))
    radio = st.one_of(st.sampled_from(RADIOS), st.sampled_from(RADIOS), ip4, colliding, st.sampled_from([A_REG, A_OFF, A_STATUS]))
    src = st.integers(0, len(PEERS) - 1)
    # texts: random, constant fill, a short record repeated, characters codecs treat specially (BOM, U+FFFE, U+FFFD, NUL, CR/LF) and
    # characters whose UTF-16-LE image contains the octets of an enclosing layer ('2B' magic, 0x03 HDAP end, 7E, option TLV headers)
    special = st.sampled_from(["\ufeff", "\ufffe", "\ufffd", "\x00", "\r\n", " ", "\t", "\u4232", "\u0003", "\u0303", "\u007e", "\u0483", "\u0011", "\u0300", "\u0500"])
    text = st.one_of(
        st.text(max_size=12),
        st.builds(lambda c, n: c * n, st.sampled_from(["A", "\x00", "\u4232", "\u0303"]), st.integers(1, 40)),
        st.builds(lambda r, n: r * n, st.text(min_size=1, max_size=3), st.integers(2, 12)),
        st.builds(lambda a, m, b, e: a + m + b + e, st.one_of(st.just(""), special), st.text(max_size=6), special, st.one_of(st.just(""), special)),
        st.builds(lambda pre, m: pre + m, st.text(min_size=6, max_size=8), special),
    )
    tmp = st.builds(lambda g, rid, d, s, x, rel, conf: {"tmp": {"group": g, "rid": rid, "dst": d, "src": s, "text": x, "reliable": rel, "confirmed": conf}},
                    st.booleans(), st.integers(0, 2**32 - 1), ip4, ip4, text, st.booleans(), st.booleans())
    tmp_raw = st.builds(lambda g, rid, d, s, x: {"tmp_raw": {"group": g, "rid": rid, "dst": d, "src": s, "text_hex": x.hex()}},
                        st.booleans(), st.integers(0, 2**32 - 1), ip4, ip4, st.binary(max_size=9))
    other = st.one_of(st.integers(0, len(OTHER_PAYLOADS) - 1).map(lambda i: {"other": i}), tmp)
    rrs_pl = st.builds(lambda c, r: {"rrs": c, "radio": r}, st.sampled_from(sorted(RRS_OPCODE)), radio)
    extra = {"to": st.integers(0, 1)} if pair else {}

    def mk(cls, **fields):
        return st.fixed_dictionaries({"k": st.just("d"), "cls": st.just(cls), "src": src, **fields, **extra})

    wf = {
        "connect": mk("connect", sn=sn0, opts=opts),
        "connect_ack": mk("connect_ack", sn=sn0, opts=opts),
        "close": mk("close", sn=sn0, opts=opts),
        "close_ack": mk("close_ack", sn=sn0, opts=opts),
        "heartbeat": mk("heartbeat", sn=sn0),
        "rrs_register": mk("rrs_register", sn=sn, opts=opts, radio=radio, reliable=st.booleans()),
        "rrs_offline": mk("rrs_offline", sn=sn, opts=opts, radio=radio, reliable=st.booleans()),
        "rrs_status": mk("rrs_status", sn=sn, opts=opts, radio=radio, reliable=st.booleans()),
        "data_other": mk("data_other", sn=sn, opts=opts, pl=other),
        "data_ack": mk("data_ack", sn=sn, opts=opts),
        "reject": mk("reject", sn=sn0, opts=opts, pl=st.one_of(st.none(), tmp_raw, other, rrs_pl)),
    }
    base = st.one_of(*wf.values())
    bit = st.one_of(st.integers(16, 47), st.integers(0, 799))
    damaged = st.one_of(
        mk("damaged", base=base, trunc=st.integers(0, 40)),
        mk("damaged", base=base, flip=st.lists(bit, min_size=1, max_size=3)),
        mk("damaged", base=base, flip=st.lists(bit, min_size=1, max_size=2), trunc=st.integers(4, 60)),
        mk("damaged", base=base, set_type=st.integers(0, 255)),
        mk("damaged", base=base, set_version=st.integers(1, 255)),
        mk("damaged", raw=st.binary(max_size=24).map(bytes.hex)),
        mk("damaged", raw=st.binary(max_size=24).map(lambda b: (b"2B\x00" + b).hex())),
    )
    rules = dict(wf)
    rules["damaged"] = damaged
    # long homogeneous runs: the same op, or a short block (op + garbage / op + ack / two or three ops), N times
    garbage = st.one_of(mk("damaged", raw=st.binary(max_size=12).map(bytes.hex)), mk("damaged", base=base, trunc=st.integers(0, 5)))
    anyop = st.one_of(base, base, damaged)
    block = st.one_of(
        anyop.map(lambda o: [o]),
        anyop.map(lambda o: [o]),
        st.tuples(anyop, garbage).map(list),
        st.tuples(anyop, wf["data_ack"]).map(list),
        st.tuples(anyop, anyop).map(list),
        st.tuples(anyop, garbage, anyop).map(list),
    )
    small = st.sampled_from([2, 3, 4, 5, 6, 7, 8, 9, 10, 11, 12, 16, 17, 31, 32, 33])
    # (quick: runs up to 33 here - class_runs covers 300 deterministically; thorough: the whole list)
    n_rep = (st.one_of(small, small, st.sampled_from(REPEAT_COUNTS)) if long_runs else small) if not pair else st.sampled_from([2, 3, 5, 10, 11, 17])
    rules["repeat"] = st.fixed_dictionaries({"k": st.just("repeat"), "n": n_rep, "ops": block})
    if not pair:
        # a radio address the process has (almost surely) never parsed: a bijective scramble of the drawn integer, so that the small and
        # boundary integers Hypothesis favours do not map to the same few addresses
        fresh = st.integers(0, 2**32 - 1).map(lambda n: ((n * 0x9E3779B1 + 0x7F4A7C15) & 0xFFFFFFFF).to_bytes(4, "big").hex())
        rrs_cls = st.sampled_from(["rrs_register", "rrs_register", "rrs_offline", "rrs_status"])

        def mk_related(v, carriers, m, fillers, follow, again, srcs):
            w = bytes.fromhex(v)[::-1].hex()
            ops = []
            for j, (fi, ctype, arr) in enumerate(carriers):
                svc, form = CARRIER_FORMS[fi]
                ids = {"asis": [v, v, v], "reversed": [w, w, w], "mixed": [v, w, v]}[arr]
                ops.append(carrier_op(svc, form, ids, m + j, ctype, src=srcs[0]))
            ops += list(fillers)
            for i, (cls, rev) in enumerate(follow):
                ops.append(_rrs(cls, w if rev else v, m + i, src=srcs[1]))
            if again:
                ops.append(dict(ops[0]))
                ops.append(_rrs("rrs_offline" if follow[0][0] == "rrs_register" else "rrs_register", v, m + 5, src=srcs[1]))
            return {"k": "block", "ops": ops}

        ctypes = st.sampled_from(["reject"] * 4 + ["data"] * 3 + sorted(CARRIER_TYPES))
        carrier = st.tuples(st.integers(0, len(CARRIER_FORMS) - 1), ctypes, st.sampled_from(["asis", "asis", "reversed", "mixed"]))
        rules["related"] = st.builds(mk_related, fresh, st.lists(carrier, min_size=1, max_size=3), st.integers(0, 4000), st.lists(anyop, max_size=2),
                                     st.lists(st.tuples(rrs_cls, st.booleans()), min_size=1, max_size=3), st.booleans(), st.tuples(src, src))
    return rules


def _initial_ops():
    from hypothesis import strategies as st

    near = st.sampled_from([65533, 65534, 65535, 65532, 32767, 255])
    init = st.fixed_dictionaries({"k": st.just("init"), "handler": st.sampled_from(["rrs", "rrs", "rrs", "hstrp"]), "sn": st.one_of(st.just(0), near)})
    return st.one_of(st.just([]), init.map(lambda o: [o]))


def drv_random(ctx: Ctx, sub: SubCheck):
    M = make_machine("HSTRPHandlerMachine", Runner, _strategies(long_runs=not ctx.quick), initial_ops=_initial_ops())

    def work(shard, t: Tally):
        ctx.state_machine(sub.name, M, max_examples=ctx.pick(20, 100), step_count=ctx.pick(50, 200), tally=t, shard=shard)

    ctx.shards(work, list(range(16)))


def drv_runs(ctx: Ctx, sub: SubCheck):
    """every class repeated 300 times in each of {fresh, connected, closed}, for both handler kinds; plain, with position-dependent
    fields, and with garbage / truncated datagrams / acks interleaved (which must not reset or trigger anything)"""
    n = ctx.pick(300, 1000)
    connect, close = exh_op(CLASSES.index("connect"), 0), exh_op(CLASSES.index("close"), 1)
    modes = {"fresh": [], "connected": [connect], "closed": [connect, close]}
    garbage = {"k": "d", "cls": "damaged", "src": 0, "raw": "00112233445566778899"}
    cut = {"k": "d", "cls": "damaged", "src": 0, "base": exh_op(CLASSES.index("rrs_register"), 0), "trunc": 5}
    ack = exh_op(CLASSES.index("data_ack"), 0)
    hb = exh_op(CLASSES.index("heartbeat"), 0)
    items = [(kind, mode, ci) for kind in ("rrs", "hstrp") for mode in modes for ci in range(len(CLASSES))]

    def work(item, t: Tally):
        kind, mode, ci = item
        op = exh_op(ci, 2)
        blocks = {"same_op": [op], "position_variants": [exh_op(ci, p) for p in range(8)], "with_garbage": [op, garbage], "with_truncated": [op, cut],
                  "with_ack": [op, ack], "heartbeat_between": [op, hb]}
        if CLASSES[ci] in RRS_OPCODE:  # every address whose computed trailer collides with a delimiter; register first so that offline is a change
            reg = CLASSES.index("rrs_register")
            blocks["trailer_collisions"] = [o for a in TRAILER_RADIOS[CLASSES[ci]] for o in (dict(exh_op(reg, 0), radio=a), dict(op, radio=a))]
        for name, block in blocks.items():
            reps = n if len(block) <= 2 else max(1, n // len(block))
            case = {"ops": [{"k": "init", "handler": kind, "sn": 0}] + modes[mode] + [{"k": "repeat", "n": reps, "ops": block}, hb, connect, hb, close, hb]}
            ctx.run_case(sub.name, oracle_history, case, t)
            t.case(sub.name, nontrivial=True, cls=f"{mode}_{name}")
            t.cls(sub.name, f"class_{CLASSES[ci]}")
        t.sample(sub.name, {"handler": kind, "mode": mode, "class": CLASSES[ci], "repeats": n})

    ctx.shards(work, items)
    ctx.tally.exhaustive[sub.name] = True
    ctx.tally.notes.append(f"{sub.name}: each of the 12 classes x {{fresh, connected, closed}} x both handler kinds x 6 block shapes, {n} repetitions, every datagram judged")


def drv_long(ctx: Ctx, sub: SubCheck):
    reg = {"k": "d", "cls": "rrs_register", "src": 0, "sn": 1, "opts": [[3, "0001869f"], [4, "02"]], "radio": RADIOS[0]}
    case = {"ops": [{"k": "repeat", "n": 66000, "op": reg}, {"k": "d", "cls": "rrs_offline", "src": 0, "sn": 2, "opts": [], "radio": RADIOS[0]}]}
    ctx.run_case(sub.name, oracle_history, case)
    ctx.tally.case(sub.name, key={"history": "66000 registration requests to a fresh handler, then going-offline"}, nontrivial=True, cls="registrations_66000")


# ------------------------------------------------------------------------------------------------ preludes (stimulus only)


def _case_radios(case, limit=4):
    """4-octet address / id values (hex8) that occur in the case, in order of first occurrence"""
    found = []

    def walk(x):
        if len(found) >= limit:
            return
        if isinstance(x, dict):
            for k, v in x.items():
                if k == "radio" and isinstance(v, str) and len(v) == 8 and v not in found:
                    found.append(v)
                elif k == "ids" and isinstance(v, list):
                    for h in v:
                        if isinstance(h, str) and len(h) == 8 and h not in found:
                            found.append(h)
                else:
                    walk(v)
        elif isinstance(x, list):
            for v in x:
                walk(v)

    walk(case)
    return found[:limit]


def _op_sibling_parses(a):
    """the same four octets (and their reversed image) through every other entry point that reads a radio address / id"""
    from okdmr.dmrlib.hytera.pdu.hdap import HDAP
    from okdmr.dmrlib.hytera.pdu.hstrp import HSTRP
    from okdmr.dmrlib.hytera.pdu.radio_ip import RadioIP

    v = bytes.fromhex(a["radio"])
    for fn in (lambda: RadioIP.from_bytes(v, endian="little"), lambda: RadioIP.from_bytes(v[::-1]), lambda: RadioIP.from_ip(R.ip_str(v[::-1])),
               lambda: RadioIP.from_ip(R.ip_str(v), endian="little"), lambda: repr(RadioIP(radio_id=v[1:], subnet=v[0])), lambda: RadioIP.from_bytes(v[:3])):
        try:
            fn()
        except Exception:
            pass
    for svc, form in CARRIER_FORMS[a.get("m", 0) % 5 :: 5]:  # a fifth of the forms per call
        for ids in ([v.hex()] * 3, [v[::-1].hex()] * 3):
            try:
                raw = build(carrier_op(svc, form, ids, a.get("m", 0), "reject"))
                repr(HSTRP.from_bytes(raw))
                pdu = HDAP.from_bytes(R.dec_hstrp(raw, tolerant_options=True)["payload"])
                repr(pdu)
                pdu.as_bytes()
            except Exception:
                pass


def _op_other_handler(a):
    """another handler instance (the sibling object) sees the octet-reversed radios register / go offline, carriers, a refused datagram"""
    h, _ = make_handler(a.get("handler", "rrs"))
    for i, hx in enumerate(a["radios"]):
        w = bytes.fromhex(hx)[::-1].hex()
        for op in ([{"k": "d", "cls": "connect", "src": 1, "sn": 0, "opts": []}] if i == 0 else []) + [
                carrier_op("rcp", "radio_ip_query_reply", [hx], i, "reject"), _rrs("rrs_register", w, i, src=1), _rrs("rrs_offline", hx, i + 1, src=1),
                {"k": "d", "cls": "damaged", "src": 1, "base": _rrs("rrs_register", hx, i), "trunc": 21 + i}, {"k": "d", "cls": "close", "src": 1, "sn": 0, "opts": []}][: 4 + a.get("n", 2)]:
            try:
                h.datagram_received(build(op), tuple(PEERS[1]))
            except Exception:
                pass


PRELUDE_OPS = {"sibling_parses": _op_sibling_parses, "other_handler": _op_other_handler}


def prelude_for(sub, case, rng):
    radios = _case_radios(case)
    if not radios:
        radios = [RADIOS[rng.randrange(len(RADIOS))]]
    calls = [{"x": "sibling_parses", "a": {"radio": r, "m": rng.randrange(4000)}} for r in radios[:2]]
    calls.append({"x": "other_handler", "a": {"radios": radios[:3], "handler": "rrs", "n": rng.randrange(3)}})
    return calls


SUBCHECKS = [
    SubCheck("exhaustive_class_sequences", oracle_history, drv_exhaustive, "all sequences over the 12 datagram classes up to length 5 (quick) / 6 (thorough) vs the reference model"),
    SubCheck("random_histories", oracle_history, drv_random, "Hypothesis RuleBasedStateMachine histories (<= 60 / 200 datagrams) with random fields, truncation and bit corruption"),
    SubCheck("class_runs", oracle_history, drv_runs, "every class repeated 300 (quick) / 1000 (thorough) times in each mode {fresh, connected, closed}, both handler kinds, also interleaved with garbage / acks"),
    SubCheck("related_value_histories", oracle_history, drv_related, "a datagram of every packet type carrying a radio's address octets (either order) in a PDU of every other HDAP service / option / text, before and between that radio's own RRS messages; fresh address per history"),
    SubCheck("back_to_back_quiescence", oracle_pair, drv_pair, "two handlers wired back to back: quiescent after <= 3 deliveries per injected datagram"),
    SubCheck("counter_wrap_long_run", oracle_history, drv_long, "66 000 registration requests to one fresh handler (own S/N crosses 2^16)", tiers=("thorough",)),
]
PREDICATES = {}
