"""C13 — Hytera IPSC 72-octet frames map to bursts identically by the raw-bytes decoder and the generic-parser decoder,
the decoded values are the encoded ones, and the decoded frame re-encodes to the same 72 octets.

Frames are produced by the independent encoder vp/refs/hytera_ref.ipsc_frame (layout from the kaitai spec / the dissected
frame in hytera_ipsc_sync.py, validated against captured frames), the payload is the 16-bit-word-swapped form of
(library-serialised burst of the kind the slot type announces + pad octet); sync / wake-up frames carry arbitrary octets.
"""
from __future__ import annotations

import itertools

from vp.core import Ctx, Fail, HarnessError, SubCheck, Tally, call
from vp.refs import hytera_ref as ref
from vp.refs.hytera_captures import CAPTURED_IPSC_FRAMES

LEVEL = "exploration"
RULE = (
    "frames = reference encoder(sequence 0..255, packet type in 4 defined, slot type in 15 defined, frame type in 6 defined, "
    "call type in 4 defined, colour code 0..15, timeslot 1/2, destination / source id 0..2^24-1 weighted to 0, 1, 255, 256, "
    "65535, 65536, 2^24-1, first header and the reserved octet groups arbitrary (weighted to the captured defaults), second "
    "header 5a5a, octets 63 / 67 zero as in every capture); payload = word-swapped (burst + pad octet, pad weighted to "
    "0x00): PI header / voice LC header / terminator / CSBK preamble / unconfirmed data header / rate 1/2 / rate 3/4 bursts "
    "built with the library's own constructors from drawn fields, voice bursts A (voice sync) and B..F (EMB + 32 embedded "
    "bits) with 216 drawn vocoder bits, sync and wake-up frames (slot type sync / wake-up, or a wake-up call type with any "
    "slot type) with 34 arbitrary octets.  (a) Hypothesis over all of it, "
    "(b) enumeration of the cross product slot type x call type x timeslot x colour code (quick) x packet type x frame "
    "type (thorough) with the remaining fields drawn from the seeded RNG, (c) the 47 frames captured from real repeaters that "
    "the repository's tests carry (expected values read with the reference dissector), (d) deterministic boundary pass, both "
    "tiers: destination x source id over {0, 1, 0xFF, 0x100, 0xFFFF, 0x10000, 0xFFFFFE, 0xFFFFFF} x sequence {0, 0xFF} x reserved "
    "octets {all 00, all FF, seeded} x pad {00, FF} (768 frames, sync / wake-up payloads all-00 / all-FF too) and the complete "
    "product packet type x frame type x slot type x call type x timeslot (2880 frames: every pair of enum members) with the "
    "colour code cycling and ids / sequence / reserved / pad from the edge lists.  Sub-check 'interleaved': batches of 2..4 "
    "frames (Hypothesis lists of the single-frame strategy + a permutation; deterministic batches of captured frames and of "
    "seeded frames whose opaque segments - first header, reserved 3 / 7a / 2a / 2b / 1, pad - are forced to differ: all-00, "
    "all-FF, seeded, documented defaults rotating) decoded through all four entry points, then observed and re-serialised in "
    "another order - where each frame is also decoded AGAIN (X, Y, X again) - and once more in the original order.  Near-twins "
    "(round 7): a near-twin of a frame equals it in most fields; modes: counter (reserved_3 moved on: the same burst 256 frames "
    "later), one opaque segment, pad (34th payload octet) only, all opaque segments, one DMR-level field (sequence, packet / "
    "frame type, colour code, timeslot, one id) with the opaque octets kept, one DMR-level field + one opaque segment, one "
    "vocoder / sync payload bit.  About 40 % of the Hypothesis frames, every 3rd cross-product frame, every 4th boundary frame "
    "and every 2nd captured frame carry 1..3 near-twins that are decoded through all four entry points BEFORE the judged frame "
    "and judged again after it; 'interleaved' batches (2..6 frames) contain 0..3 near-twins of their members (twins of twins "
    "too) and deterministic batches of a seeded / captured frame + 1..3 twins in every mode with 0..2 unrelated frames between.  "
    "Distinct = hash of the 72 octets; non-trivial = both ids >= 256 and colour code != 0."
)
ASSUMPTIONS = [
    "near-twins / batches: decoding one well-formed frame must not change what the objects decoded from another frame carry or "
    "serialise to, whichever decoder produced them and in whatever order; expected values of every object come from ITS 72 octets "
    "(reference dissector).  Clause ids say which history produced a failure: '.._with_near_twins_decoded_first', '..near_twin..', "
    "'..judged_frame_decoded_after_near_twins..' and 'interleaved' cases contain their history and replay on their own; a plain "
    "re-encode / value clause failing on a case without twins is either independent of any history or caused by a frame an earlier "
    "case of the same process decoded (such a stored case need not fail when replayed alone).  Hypothesis does not shrink "
    "'interleaved' batches (shrinking replays candidates in the process the failure may have left dirty)",
    "provenance of the generic-parser object (kaitai API, not under test): IpSiteConnectProtocol.from_bytes(frame); the class "
    "constructed on a KaitaiStream that holds 14 / 42 / 72 / n other octets before the frame (positioned at the frame) and 0..80 "
    "octets behind it (the parser stores those as extra_data); close() called after parsing; copy.deepcopy of the parsed object; "
    "in 'interleaved' also all frames of a batch parsed from ONE concatenated stream (last frame first), the objects sharing the "
    "stream.  /repo decodes all of them correctly (it reads attributes only); expected values always come from the 72 octets",
    "every oracle parses the generic-parser (kaitai) object of a frame ONCE and hands the same object (and the same bytes object on "
    "the raw path) to the library 3 times per entry point, Burst.from_hytera_ipsc and HyteraIPSC.from_kaitai / from_ipsc_bytes "
    "alternating: every result must satisfy the value clauses, repeated results must equal the first, the public attribute tree "
    "of the parsed object (bytes by content) must be unchanged after every library call (clause generic_parser_object_unchanged), "
    "as_ipsc_bytes must give the 72 octets on every decoded object, twice in a row and again after the burst was serialised.  "
    "bytearray / memoryview are outside the documented parameter type (bytes | IpSiteConnectProtocol); a bytearray is handed to "
    "from_ipsc_bytes only to check that the caller's buffer is not written to (exceptions there are ignored)",
    "frame reference vp/refs/hytera_ref.py validated against 4 captured IPSC frames with documented ids / colour code / "
    "timeslot (selfcheck at start of every run); the generic parser is the kaitai class of the separately installed package "
    "okdmr.kaitai (not under test)",
    "well-formed = the four enumerated fields hold defined values, colour-code octets are the nibble repeated four times, "
    "octets 63 and 67 (low octets of the little-endian id words, ignored by both decoders) are 0x00 as in every capture",
    "burst class expected from the documented dispatch: slot type sync -> HyteraIPSCSync, else slot type wake-up or a "
    "wake-up call type -> HyteraIPSCWakeup, else Burst",
    "Burst.target_radio_id falls back to the address inside a CSBK / data header when the frame's destination id is 0 "
    "(documented 'guess'); the value clause for target_radio_id is therefore evaluated for destination ids != 0 and the "
    "frame-level attribute hytera_ipsc.destination_radio_id is compared always",
]

_REF_VECTORS = ref.selfcheck()

DATA_KINDS = {"PrivacyIndicator": "pi", "VoiceLCHeader": "vlc", "TerminatorWithLC": "tlc", "CSBK": "csbk", "DataHeader": "dh",
              "Rate12Data": "r12", "Rate34Data": "r34"}
VOICE_KINDS = {"VoiceFrameA": "va", "VoiceFrameB": "vx", "VoiceFrameC": "vx", "VoiceFrameD": "vx", "VoiceFrameE": "vx", "VoiceFrameF": "vx"}
RAW_KINDS = {"Wakeup": "raw", "VoiceOrDataSync": "raw"}
KIND_OF_SLOT = {**DATA_KINDS, **VOICE_KINDS, **RAW_KINDS}
assert set(KIND_OF_SLOT) == set(ref.IPSC_SLOT_TYPES)


def payload_kind(slot_type: str, call_type: str) -> str:
    """the burst kind a frame indicates: wake-up call types indicate a wake-up frame whatever the slot type says, and wake-up
    / sync frames carry no DMR burst (arbitrary octets)"""
    return "raw" if call_type in ("WakeupCall_2", "WakeupCall_c") else KIND_OF_SLOT[slot_type]


DATA_SYNCS = ["BsSourcedData", "MsSourcedData", "Tdma1Data", "Tdma2Data"]
VOICE_SYNCS = ["BsSourcedVoice", "MsSourcedVoice", "Tdma1Voice", "Tdma2Voice"]


# ------------------------------------------------------------------------------------------ building payload bursts


def make_burst(kind: str, p: dict) -> bytes:
    """33 burst octets (or 34 arbitrary octets for kind 'raw') from drawn parameters, serialised by the library itself"""
    from bitarray import bitarray
    from bitarray.util import int2ba

    from okdmr.dmrlib.etsi.layer2.burst import Burst
    from okdmr.dmrlib.etsi.layer2.elements.burst_types import BurstTypes
    from okdmr.dmrlib.etsi.layer2.elements.data_types import DataTypes
    from okdmr.dmrlib.etsi.layer2.elements.sync_patterns import SyncPatterns

    if kind == "raw":
        return bytes.fromhex(p["octets"])
    if kind in ("va", "vx"):
        v = int2ba(p["voice"], 216)
        if kind == "va":
            centre = SyncPatterns[p["sync"]].as_bits()
        else:
            from okdmr.dmrlib.etsi.layer2.pdu.embedded_signalling import EmbeddedSignalling

            emb = EmbeddedSignalling(p["cc"], p["pi"], p["lcss"]).as_bits()
            centre = emb[:8] + int2ba(p["embedded"], 32) + emb[8:]
        return (v[:108] + centre + v[108:]).tobytes()

    from okdmr.dmrlib.etsi.layer2.pdu.slot_type import SlotType

    if kind == "pi":
        from okdmr.dmrlib.etsi.layer2.pdu.pi_header import PIHeader

        pdu, dt = PIHeader(data=bytes.fromhex(p["data"])), DataTypes.PIHeader
    elif kind in ("vlc", "tlc"):
        from okdmr.dmrlib.etsi.layer2.pdu.full_link_control import FullLinkControl

        bits = bitarray([0, 0]) + int2ba(p["flco"], 6) + int2ba(0, 8) + int2ba(p["so"], 8) + int2ba(p["a"], 24) + int2ba(p["b"], 24) + int2ba(p["parity"], 24)
        pdu, dt = FullLinkControl.from_bits(bits), (DataTypes.VoiceLCHeader if kind == "vlc" else DataTypes.TerminatorWithLC)
    elif kind == "csbk":
        from okdmr.dmrlib.etsi.layer2.elements.csbk_opcodes import CsbkOpcodes
        from okdmr.dmrlib.etsi.layer2.pdu.csbk import CSBK

        pdu, dt = CSBK(source_address=p["a"], target_address=p["b"], blocks_to_follow=p["btf"], csbko=CsbkOpcodes.PreambleCSBK,
                       target_address_is_individual=p["individual"], last_block=True), DataTypes.CSBK
    elif kind == "dh":
        from okdmr.dmrlib.etsi.layer2.elements.data_packet_formats import DataPacketFormats
        from okdmr.dmrlib.etsi.layer2.elements.full_message_flag import FullMessageFlag
        from okdmr.dmrlib.etsi.layer2.elements.sap_identifier import SAPIdentifier
        from okdmr.dmrlib.etsi.layer2.pdu.data_header import DataHeader

        pdu, dt = DataHeader(dpf=DataPacketFormats.DataPacketUnconfirmed, sap_identifier=SAPIdentifier.UDP_IP_compression, is_response_requested=False,
                             pad_octet_count=p["poc"], llid_destination=p["b"], llid_source=p["a"], blocks_to_follow=p["btf"] & 0x7F,
                             fragment_sequence_number=p["fsn"], full_message_flag=FullMessageFlag.FirstTryToCompletePacket), DataTypes.DataHeader
    elif kind == "r12":
        from okdmr.dmrlib.etsi.layer2.pdu.rate12_data import Rate12Data

        pdu, dt = Rate12Data(data=bytes.fromhex(p["data"])), DataTypes.Rate12Data
    elif kind == "r34":
        from okdmr.dmrlib.etsi.layer2.pdu.rate34_data import Rate34Data

        pdu, dt = Rate34Data(data=bytes.fromhex(p["data"])), DataTypes.Rate34Data
    else:
        raise HarnessError(f"unknown burst kind {kind}")
    b = Burst(burst_type=BurstTypes.DataAndControl)
    b.has_emb = False
    b.data = pdu
    b.slot_type = SlotType(colour_code=p["cc"], data_type=dt)
    b.sync_or_embedded_signalling = SyncPatterns[p["sync"]]
    out = b.as_bytes()
    if len(out) != 33:
        raise HarnessError(f"library serialised a {len(out)}-octet burst for kind {kind}")
    return out


def make_case(h: dict, kind: str, bp: dict) -> dict:
    """h: header fields; returns the plain-JSON case {frame: hex72, exp: {...}}"""
    body = make_burst(kind, bp)
    if kind == "raw":
        payload34 = body
        swapped = ref.swap16(body)
        burst33, pad = swapped[:33], swapped[33]
    else:
        burst33, pad = body, h["pad"]
        payload34 = ref.ipsc_payload(body, pad)
    frame = ref.ipsc_frame(
        h["seq"], ref.IPSC_PACKET_TYPES[h["packet_type"]], ref.IPSC_SLOT_TYPES[h["slot_type"]], ref.IPSC_FRAME_TYPES[h["frame_type"]],
        ref.IPSC_CALL_TYPES[h["call_type"]], h["cc"], h["ts"], h["dst"], h["src"], payload34, bytes.fromhex(h["first_header"]),
        bytes.fromhex(h["reserved_3"]), bytes.fromhex(h["reserved_7a"]), bytes.fromhex(h["reserved_2a"]), bytes.fromhex(h["reserved_2b"]),
        bytes.fromhex(h["reserved_1"]),
    )
    exp = {k: h[k] for k in ("seq", "packet_type", "slot_type", "frame_type", "call_type", "cc", "ts", "dst", "src")}
    exp.update(kind=kind, burst=burst33.hex(), pad=pad)
    return {"frame": frame.hex(), "exp": exp}


# ---------------------------------------------------------------------------------------------------------- oracles


def case_from_capture(hexframe: str) -> dict:
    """expected values of a captured frame, read with the reference dissector"""
    d = ref.ipsc_dissect(bytes.fromhex(hexframe))
    inv = lambda table, v: [k for k, x in table.items() if x == v][0]
    swapped = ref.swap16(d["payload34"])
    exp = {"seq": d["seq"], "packet_type": inv(ref.IPSC_PACKET_TYPES, d["packet_type"]), "slot_type": inv(ref.IPSC_SLOT_TYPES, d["slot_type"]),
           "frame_type": inv(ref.IPSC_FRAME_TYPES, d["frame_type"]), "call_type": inv(ref.IPSC_CALL_TYPES, d["call_type"]), "cc": d["colour_code"],
           "ts": d["timeslot"], "dst": d["dst"], "src": d["src"], "kind": "captured", "burst": swapped[:33].hex(), "pad": swapped[33]}
    return {"frame": hexframe, "exp": exp}


# ------------------------------------------------------------------------------------------------------ near-twin frames
#
# A near-twin of a frame X is a well-formed frame Y that equals X in most fields and differs in a few - above all in fields
# that independent draws never hold equal: the same burst with the same addressing and sequence number whose opaque octets
# (first header, reserved 3 / 7a / 2a / 2b / 1, the 34th payload octet) moved on ("the same burst 256 frames later"), or the same
# opaque octets with ONE DMR-level field changed.  Decoding X and Y one after another, through both decoders, is the only way
# to see an equality / a memo / a lookup key that is too wide (or too narrow).

OPAQUE_FIELDS = ("first_header", "reserved_3", "reserved_7a", "reserved_2a", "reserved_2b", "reserved_1", "pad")
DMR_FIELDS = ("seq", "packet_type", "frame_type", "cc", "ts", "dst", "src")
TWIN_MODES = ("counter", "one_opaque", "pad_only", "all_opaque", "one_dmr_field", "one_dmr_field_and_opaque", "voice_bit")


def twin_case(case: dict, changes: dict) -> dict:
    """the single-frame case with some fields replaced; ``changes`` is plain JSON: opaque segments as hex, pad / seq / cc / ts / dst /
    src as int, packet_type / frame_type by name, "burst_xor": [octet index 0..32, mask] for the burst octets.  The frame is
    re-assembled by the reference encoder; expected values follow."""
    d = ref.ipsc_dissect(bytes.fromhex(case["frame"]))
    exp = dict(case["exp"])
    swapped = bytearray(ref.swap16(d["payload34"]))
    seg = {k: bytes(d[k]) for k in RES_LEN}
    for k, v in changes.items():
        if k in RES_LEN:
            seg[k] = bytes.fromhex(v)
            if len(seg[k]) != RES_LEN[k]:
                raise HarnessError(f"twin segment {k} has the wrong length")
        elif k == "pad":
            swapped[33] = v
        elif k == "burst_xor":
            swapped[v[0]] ^= v[1]
        elif k in DMR_FIELDS:
            exp[k] = v
        else:
            raise HarnessError(f"unknown twin change {k}")
    exp.update(burst=bytes(swapped[:33]).hex(), pad=swapped[33])
    frame = ref.ipsc_frame(
        exp["seq"], ref.IPSC_PACKET_TYPES[exp["packet_type"]], ref.IPSC_SLOT_TYPES[exp["slot_type"]], ref.IPSC_FRAME_TYPES[exp["frame_type"]],
        ref.IPSC_CALL_TYPES[exp["call_type"]], exp["cc"], exp["ts"], exp["dst"], exp["src"], ref.swap16(bytes(swapped)), seg["first_header"],
        seg["reserved_3"], seg["reserved_7a"], seg["reserved_2a"], seg["reserved_2b"], seg["reserved_1"],
    )
    out = {"frame": frame.hex(), "exp": exp}
    if "prov" in case:
        out["prov"] = case["prov"]
    return out


def twin_changes(rng, case: dict, mode: str) -> dict:
    """changes (see twin_case) of one of the TWIN_MODES, every changed field really different from the frame's own value"""
    d = ref.ipsc_dissect(bytes.fromhex(case["frame"]))
    exp = case["exp"]

    def other_octets(k):
        cur = bytes(d[k])
        mask = bytearray(len(cur))
        mask[rng.randrange(len(cur))] = rng.randrange(1, 256)
        if rng.random() < 0.5:
            mask = bytearray(rng.randbytes(len(cur)))
            mask[0] |= 1
        return bytes(a ^ b for a, b in zip(cur, mask)).hex()

    def dmr_change():
        k = rng.choice(DMR_FIELDS)
        if k == "seq":
            return {k: (exp[k] + rng.choice([1, 255, 128, rng.randrange(1, 256)])) % 256}
        if k == "cc":
            return {k: (exp[k] + rng.randrange(1, 16)) % 16}
        if k == "ts":
            return {k: 3 - exp[k]}
        if k in ("dst", "src"):
            return {k: exp[k] ^ rng.choice([1, 0x100, 0x10000, 0x800000, rng.randrange(1, 2**24)])}
        table = sorted(ref.IPSC_PACKET_TYPES if k == "packet_type" else ref.IPSC_FRAME_TYPES)
        return {k: rng.choice([n for n in table if n != exp[k]])}

    pad = lambda: {"pad": exp["pad"] ^ rng.choice([1, 0x80, 0xFF, rng.randrange(1, 256)])}
    if mode == "counter":  # the 8-bit sequence number came round: only the counter-like reserved octets moved on
        cur = int.from_bytes(bytes(d["reserved_3"]), "little")
        return {"reserved_3": ((cur + rng.choice([1, 2, 256, 257, 65536])) % 2**24).to_bytes(3, "little").hex()}
    if mode == "one_opaque":
        k = rng.choice(OPAQUE_FIELDS)
        return pad() if k == "pad" else {k: other_octets(k)}
    if mode == "pad_only":
        return pad()
    if mode == "all_opaque":
        return {**{k: other_octets(k) for k in RES_LEN}, **pad()}
    if mode == "one_dmr_field":
        return dmr_change()
    if mode == "one_dmr_field_and_opaque":
        k = rng.choice(sorted(RES_LEN))
        return {**dmr_change(), k: other_octets(k)}
    if mode == "voice_bit":  # one payload bit: only where any octet string is a valid payload (vocoder bits, sync / wake-up frames)
        kind = exp.get("kind")
        if kind == "raw" or expected_class(exp) != "Burst":
            return {"burst_xor": [rng.randrange(33), 1 << rng.randrange(8)]}
        if kind in ("va", "vx") or (kind == "captured" and exp["slot_type"].startswith("VoiceFrame")):
            return {"burst_xor": [rng.randrange(13), 1 << rng.randrange(8)]}  # first 104 bits: vocoder payload
        return {"reserved_2b": other_octets("reserved_2b")}
    raise HarnessError(f"unknown twin mode {mode}")


def make_twins(rng, case: dict, n: int, modes=None) -> list:
    """n near-twins of a single-frame case (each derived from the case itself, modes rotating from a seeded start)"""
    start = rng.randrange(len(TWIN_MODES))
    out = []
    for j in range(n):
        mode = modes[j % len(modes)] if modes else TWIN_MODES[(start + j) % len(TWIN_MODES)]
        t = twin_case(case, twin_changes(rng, case, mode))
        t.pop("prov", None)
        out.append(t)
    return out


def expected_class(exp) -> str:
    if exp["slot_type"] == "VoiceOrDataSync":
        return "HyteraIPSCSync"
    if exp["slot_type"] == "Wakeup" or exp["call_type"] in ("WakeupCall_2", "WakeupCall_c"):
        return "HyteraIPSCWakeup"
    return "Burst"


def _integrity(case):
    """the case must be self-consistent (frame == reference encoding of the expected values) - guards replay files"""
    frame, exp = bytes.fromhex(case["frame"]), case["exp"]
    try:
        d = ref.ipsc_dissect(frame)
    except ref.RefError as e:
        raise HarnessError(f"case frame is not well-formed: {e}")
    got = (d["seq"], d["packet_type"], d["slot_type"], d["frame_type"], d["call_type"], d["colour_code"], d["timeslot"], d["dst"], d["src"], d["dst_low"], d["src_low"])
    want = (exp["seq"], ref.IPSC_PACKET_TYPES[exp["packet_type"]], ref.IPSC_SLOT_TYPES[exp["slot_type"]], ref.IPSC_FRAME_TYPES[exp["frame_type"]],
            ref.IPSC_CALL_TYPES[exp["call_type"]], exp["cc"], exp["ts"], exp["dst"], exp["src"], 0, 0)
    if got != want or ref.swap16(d["payload34"]) != bytes.fromhex(exp["burst"]) + bytes([exp["pad"]]):
        raise HarnessError("case frame and expected values disagree")
    return frame, exp


def snapshot(o, depth=0):
    """public attribute tree of an input object (bytes by content, enums by name); private attributes (kaitai's _io / _parent /
    cached _m_* instances) are not part of the value"""
    import enum

    if isinstance(o, (bytes, bytearray, memoryview)):
        return ("octets", bytes(o).hex())
    if isinstance(o, enum.Enum):
        return ("enum", type(o).__name__, o.name)
    if o is None or isinstance(o, (bool, int, float, str)):
        return o
    if isinstance(o, (list, tuple)):
        return [snapshot(x, depth + 1) for x in o]
    if isinstance(o, dict):
        return {str(k): snapshot(v, depth + 1) for k, v in o.items()}
    if hasattr(o, "__dict__") and depth < 4:
        return {k: snapshot(v, depth + 1) for k, v in sorted(vars(o).items()) if not k.startswith("_")}
    return type(o).__name__


# Provenance of the generic-parser object: the same logical object obtained in every way the parser's public API offers.  The
# expected values always come from the 72 octets; where the object came from must not matter.
PROVENANCE_KINDS = ("from_bytes", "stream", "closed", "deepcopy")


def make_parser_object(frame: bytes, prov=None):
    """prov = None | {"kind": "from_bytes"} | {"kind": "stream", "prefix": hex, "suffix": hex} (parsed from a longer stream that
    is positioned at the frame: capture-record headers / an earlier frame before it, trailing octets / a later frame behind it)
    | {"kind": "closed"} (stream closed after parsing) | {"kind": "deepcopy"} (deep copy of the parsed object)"""
    import copy
    from io import BytesIO

    from kaitaistruct import KaitaiStream
    from okdmr.kaitai.hytera.ip_site_connect_protocol import IpSiteConnectProtocol

    kind = (prov or {}).get("kind", "from_bytes")
    if kind == "stream":
        prefix, suffix = bytes.fromhex(prov.get("prefix", "")), bytes.fromhex(prov.get("suffix", ""))
        io = KaitaiStream(BytesIO(prefix + frame + suffix))
        io.seek(len(prefix))
        return IpSiteConnectProtocol(io)
    obj = IpSiteConnectProtocol.from_bytes(frame)
    if kind == "closed":
        obj.close()
    elif kind == "deepcopy":
        obj = copy.deepcopy(obj)
    elif kind != "from_bytes":
        raise HarnessError(f"unknown provenance {kind}")
    return obj


def parser_objects_from_one_stream(frames, prefix: bytes = b""):
    """all frames concatenated in ONE stream (after ``prefix``); each frame is parsed at its own offset, last frame first (the
    parser reads trailing octets as extra data), so all objects share the stream"""
    from io import BytesIO

    from kaitaistruct import KaitaiStream
    from okdmr.kaitai.hytera.ip_site_connect_protocol import IpSiteConnectProtocol

    io = KaitaiStream(BytesIO(prefix + b"".join(frames)))
    objs = [None] * len(frames)
    for i in reversed(range(len(frames))):
        io.seek(len(prefix) + 72 * i)
        objs[i] = IpSiteConnectProtocol(io)
    return objs


def _rand_prov(rng, i: int):
    """deterministic rotation over the provenances, prefixes of 14 / 42 / 72 octets (Ethernet, Ethernet+IP+UDP, an earlier frame) or a
    seeded length, with and without trailing octets"""
    kind = ("from_bytes", "stream", "closed", "stream", "deepcopy", "stream")[i % 6]
    if kind != "stream":
        return {"kind": kind}
    n = (14, 42, 72, rng.randrange(1, 200))[(i // 6) % 4]
    m = (0, 0, 72, rng.randrange(1, 50))[(i // 24) % 4]
    return {"kind": "stream", "prefix": rng.randbytes(n).hex(), "suffix": rng.randbytes(m).hex()}


class _Parsed:
    """the generic-parser object of a frame, parsed ONCE; every library call on it goes through .call(), which compares the
    object's public attribute tree with the snapshot taken before the first call"""

    def __init__(self, frame: bytes, prov=None, obj=None):
        self.obj = obj if obj is not None else make_parser_object(frame, prov)
        self.before = snapshot(self.obj)
        self.n_calls = 0

    def call(self, fn, clause):
        out = call(fn, self.obj, clause=clause)[1]
        self.n_calls += 1
        after = snapshot(self.obj)
        if after != self.before:
            changed = sorted(k for k in set(after) | set(self.before) if after.get(k) != self.before.get(k))
            raise Fail("generic_parser_object_unchanged", {"after_library_call_number": self.n_calls, "changed_attributes": changed,
                                                           "now": {k: after.get(k) for k in changed}}, {k: self.before.get(k) for k in changed})
        return out


def _observe(b, path: str, with_as_bits: bool = True):
    out = {
        "class": type(b).__name__,
        "payload_bits": b.full_bits.tobytes().hex(),
        "timeslot": b.timeslot,
        "sequence_no": b.sequence_no,
        "colour_code": b.hytera_ipsc.color_code,
        "source_id": b.source_radio_id,
        "frame_source_id": b.hytera_ipsc.source_radio_id,
        "frame_destination_id": b.hytera_ipsc.destination_radio_id,
        "target_id": b.target_radio_id,
    }
    if with_as_bits:
        out["as_bits"] = call(b.as_bits, clause=f"{path}_as_bits_no_exception")[1].tobytes().hex()
    return out


def _observe_frame(h):
    """the same observables on a HyteraIPSC object (result of HyteraIPSC.from_kaitai / from_ipsc_bytes)"""
    return {"payload_bits": bytes(h.payload).hex(), "timeslot": {0x1111: 1, 0x2222: 2}.get(getattr(h.timeslot, "value", h.timeslot)), "sequence_no": h.sequence_number,
            "colour_code": h.color_code, "frame_source_id": h.source_radio_id, "frame_destination_id": h.destination_radio_id}


REPEATS = 3  # every input object is decoded this many times by each entry point, alternating


def _decode_all(frame: bytes, parsed: "_Parsed"):
    """one frame through the four entry points"""
    from okdmr.dmrlib.etsi.layer2.burst import Burst
    from okdmr.dmrlib.hytera.hytera_ipsc import HyteraIPSC

    return [
        ("raw", call(Burst.from_hytera_ipsc, frame, clause="raw_decoder_no_exception")[1]),
        ("raw", call(HyteraIPSC.from_ipsc_bytes, frame, clause="raw_decoder_no_exception")[1]),
        ("generic", parsed.call(Burst.from_hytera_ipsc, "generic_decoder_no_exception")),
        ("generic", parsed.call(HyteraIPSC.from_kaitai, "generic_decoder_no_exception")),
    ]


def _check_kept(i: int, frame: bytes, exp: dict, objs, phase: str, all_frames):
    """objects decoded earlier from ``frame`` still show that frame's values (frame level, and burst level for bursts) and
    as_ipsc_bytes() gives that frame's 72 octets"""
    want = {"payload_bits": exp["burst"], "timeslot": exp["ts"], "sequence_no": exp["seq"], "colour_code": exp["cc"],
            "frame_source_id": exp["src"], "frame_destination_id": exp["dst"]}
    want_burst = {"class": expected_class(exp), "payload_bits": exp["burst"], "timeslot": exp["ts"], "sequence_no": exp["seq"], "source_id": exp["src"]}
    if exp["dst"] != 0:
        want_burst["target_id"] = exp["dst"]
    n = len(all_frames)
    for path, o in objs:
        h = getattr(o, "hytera_ipsc", o)
        obs = _observe_frame(h)
        for k, v in want.items():
            if obs[k] != v:
                raise Fail(f"{path}_path_{phase}_{k}_equals_encoded_value", {"frame_index": i, "got": obs[k]}, v)
        if h is not o:
            bobs = _observe(o, path, with_as_bits=False)
            for k, v in want_burst.items():
                if bobs[k] != v:
                    raise Fail(f"{path}_path_{phase}_burst_{k}_equals_encoded_value", {"frame_index": i, "got": bobs[k]}, v)
        out = call(h.as_ipsc_bytes, clause=f"{path}_path_as_ipsc_bytes_no_exception")[1]
        if not isinstance(out, bytes) or out != frame:
            others = [j for j in range(n) if j != i and isinstance(out, bytes) and len(out) == 72 and any(out[k] != frame[k] and out[k] == all_frames[j][k] for k in range(72))]
            raise Fail(f"{path}_path_{phase}_reencode_equal_octets",
                       {"frame_index": i, "differing_offsets": [k for k in range(min(len(out), 72)) if out[k] != frame[k]], "got": out.hex() if isinstance(out, bytes) else type(out).__name__,
                        "octets_of_other_frames_in_batch": others}, frame.hex())


def _decode_twins(case):
    """near-twins riding on a single-frame case (case["twins"]: single-frame cases that equal the judged frame in most fields) are
    decoded through all four entry points BEFORE the judged frame; the objects are kept and judged after it"""
    kept = []
    for tw in case.get("twins") or []:
        frame, exp = _integrity(tw)
        kept.append((frame, exp, _decode_all(frame, _Parsed(frame, tw.get("prov")))))
    return kept


def _check_twins(kept, judged: bytes, judged_exp=None, judged_objs=None):
    """the twins' objects still belong to the twins; with ``judged_objs`` (objects decoded from the judged frame after the twins)
    also: those belong to the judged frame (values and 72 octets), not to a twin"""
    frames = [k[0] for k in kept] + [judged]
    for i, (frame, exp, objs) in enumerate(kept):
        _check_kept(i, frame, exp, objs, "near_twin_decoded_before_the_judged_frame", frames)
    if kept and judged_objs:
        _check_kept(len(kept), judged, judged_exp, judged_objs, "judged_frame_decoded_after_near_twins", frames)


def _twin_bucket(oracle):
    """failures of a case that carries near-twins get their own clause ids (".._with_near_twins_decoded_first"): the history that
    produced them is inside the case, so the stored case replays on its own; the same clause failing on a case without twins
    points at state left by an earlier case of the process"""
    import functools

    @functools.wraps(oracle)
    def wrapped(case):
        try:
            return oracle(case)
        except Fail as f:
            if case.get("twins") and "near_twin" not in f.clause:
                f.clause = f.clause + "_with_near_twins_decoded_first"
            raise

    return wrapped


def oracle_decode(case):
    """(R) each path returns the encoded values; (D) both paths agree; decoding neither alters its input object nor depends on
    how often the same input was decoded before (same bytes object / same parsed generic-parser object, 3 times per entry
    point, Burst.from_hytera_ipsc and HyteraIPSC.from_kaitai / from_ipsc_bytes alternating)"""
    frame, exp = _integrity(case)
    from okdmr.dmrlib.etsi.layer2.burst import Burst
    from okdmr.dmrlib.hytera.hytera_ipsc import HyteraIPSC

    want = {
        "class": expected_class(exp), "payload_bits": exp["burst"], "timeslot": exp["ts"], "sequence_no": exp["seq"], "colour_code": exp["cc"],
        "source_id": exp["src"], "frame_source_id": exp["src"], "frame_destination_id": exp["dst"],
    }
    if exp["dst"] != 0:
        want["target_id"] = exp["dst"]
    keep = bytes(bytearray(frame))  # independent copy of the input octets
    twins = _decode_twins(case)
    parsed = _Parsed(frame, case.get("prov"))
    first = {}
    for i in range(REPEATS):
        rep = "" if i == 0 else "repeat_decode_"
        results = [
            ("raw", _observe(call(Burst.from_hytera_ipsc, frame, clause="raw_decoder_no_exception")[1], "raw", i == 0)),
            ("raw", _observe_frame(call(HyteraIPSC.from_ipsc_bytes, frame, clause="raw_decoder_no_exception")[1])),
            ("generic", _observe(parsed.call(Burst.from_hytera_ipsc, "generic_decoder_no_exception"), "generic", i == 0)),
            ("generic", _observe_frame(parsed.call(HyteraIPSC.from_kaitai, "generic_decoder_no_exception"))),
        ]
        if frame != keep:
            raise Fail("raw_input_octets_unchanged", frame.hex(), keep.hex())
        for path, obs in results:
            for k, v in want.items():
                if k in obs and obs[k] != v:
                    raise Fail(f"{path}_path_{rep}{k}_equals_encoded_value", obs[k], v)
        if i == 0:
            first = {"raw": results[0][1], "generic": results[2][1]}
            for k in first["raw"]:
                if first["raw"][k] != first["generic"][k]:
                    raise Fail(f"both_paths_agree_on_{k}", {"raw": first["raw"][k], "generic": first["generic"][k]}, "equal")
        else:
            for path, obs in (results[0], results[2]):
                for k, v in obs.items():
                    if first[path][k] != v:
                        raise Fail(f"{path}_path_repeat_decode_same_{k}", v, first[path][k])
    # undocumented but plausible callers hand over a mutable buffer: whatever the decoder does with it, it must not write to it
    buf = bytearray(frame)
    try:
        HyteraIPSC.from_ipsc_bytes(buf)
    except Exception:
        pass  # bytearray is outside the documented parameter type: not accepting it is fine
    if bytes(buf) != keep:
        raise Fail("raw_input_buffer_unchanged", bytes(buf).hex(), keep.hex())
    if twins:
        _check_twins(twins, frame, exp, _decode_all(frame, parsed))


def _expect_frame(out, frame: bytes, path: str, what: str):
    if not isinstance(out, bytes) or len(out) != 72:
        raise Fail(f"{path}_path_{what}gives_72_octets", len(out) if hasattr(out, "__len__") else type(out).__name__, 72)
    if out != frame:
        diff = [i for i in range(72) if out[i] != frame[i]]
        raise Fail(f"{path}_path_{what}equal_octets", {"differing_offsets": diff, "got": out.hex()}, frame.hex())


def _oracle_reencode(path: str):
    def oracle(case):
        """as_ipsc_bytes of every object decoded from the same input (3 x Burst.from_hytera_ipsc, 3 x HyteraIPSC.from_kaitai /
        from_ipsc_bytes, alternating) reproduces the 72 octets; calling it twice gives the same octets (stable), also after the
        burst itself was serialised"""
        frame, exp = _integrity(case)
        from okdmr.dmrlib.etsi.layer2.burst import Burst
        from okdmr.dmrlib.hytera.hytera_ipsc import HyteraIPSC

        keep = bytes(bytearray(frame))
        twins = _decode_twins(case)
        parsed = _Parsed(frame, case.get("prov")) if path == "generic" else None
        for i in range(REPEATS):
            rep = "reencode_" if i == 0 else "repeat_decode_reencode_"
            if path == "raw":
                b = call(Burst.from_hytera_ipsc, frame, clause="raw_decoder_no_exception")[1]
                h = call(HyteraIPSC.from_ipsc_bytes, frame, clause="raw_decoder_no_exception")[1]
            else:
                b = parsed.call(Burst.from_hytera_ipsc, "generic_decoder_no_exception")
                h = parsed.call(HyteraIPSC.from_kaitai, "generic_decoder_no_exception")
            for obj in (b.hytera_ipsc, h):
                _expect_frame(call(obj.as_ipsc_bytes, clause=f"{path}_path_as_ipsc_bytes_no_exception")[1], frame, path, rep)
                _expect_frame(call(obj.as_ipsc_bytes, clause=f"{path}_path_as_ipsc_bytes_no_exception")[1], frame, path, "second_" + rep)
            if i == 0:
                call(b.as_bytes, clause=f"{path}_path_burst_as_bytes_no_exception")
                _expect_frame(call(b.hytera_ipsc.as_ipsc_bytes, clause=f"{path}_path_as_ipsc_bytes_no_exception")[1], frame, path, "after_burst_serialised_" + rep)
            if frame != keep:
                raise Fail("raw_input_octets_unchanged", frame.hex(), keep.hex())
        if parsed is not None:
            after = snapshot(parsed.obj)
            if after != parsed.before:
                raise Fail("generic_parser_object_unchanged", "changed by as_ipsc_bytes / as_bytes", "unchanged")
        _check_twins(twins, frame)

    return oracle


oracle_reencode_raw = _twin_bucket(_oracle_reencode("raw"))
oracle_reencode_generic = _twin_bucket(_oracle_reencode("generic"))


# ------------------------------------------------------------------------------------------------------- generators

ID_POINTS = [0, 1, 255, 256, 65535, 65536, 2**24 - 1]
DEFAULTS = {"first_header": "5a5a", "reserved_3": "000000", "reserved_7a": "00050101000000", "reserved_2a": "4000", "reserved_2b": "e208", "reserved_1": "00"}
RES_LEN = {"first_header": 2, "reserved_3": 3, "reserved_7a": 7, "reserved_2a": 2, "reserved_2b": 2, "reserved_1": 1}


def _strategy(twins: bool = True):
    """single-frame cases; with ``twins`` about 40 % of them carry 1..3 near-twins (derived from the drawn frame by a generator
    seeded with a drawn integer - a pure function of the draw)"""
    import random

    from hypothesis import strategies as st

    u24 = st.one_of(st.sampled_from(ID_POINTS), st.integers(0, 2**24 - 1), st.integers(256, 2**24 - 1))
    hexb = lambda n: st.binary(min_size=n, max_size=n).map(bytes.hex)
    header = {
        "seq": st.integers(0, 255), "packet_type": st.sampled_from(sorted(ref.IPSC_PACKET_TYPES)), "slot_type": st.sampled_from(sorted(ref.IPSC_SLOT_TYPES)),
        "frame_type": st.sampled_from(sorted(ref.IPSC_FRAME_TYPES)),
        "call_type": st.one_of(st.sampled_from(["PrivateCall", "GroupCall"]), st.sampled_from(sorted(ref.IPSC_CALL_TYPES))),
        "cc": st.integers(0, 15), "ts": st.sampled_from([1, 2]), "dst": u24, "src": u24, "pad": st.one_of(st.just(0), st.just(0), st.integers(0, 255)),
    }
    for k, n in RES_LEN.items():
        header[k] = st.one_of(st.just(DEFAULTS[k]), hexb(n))
    header = st.fixed_dictionaries(header)
    cc, a24 = st.integers(0, 15), st.integers(0, 2**24 - 1)
    params = {
        "raw": st.fixed_dictionaries({"octets": hexb(34)}),
        "va": st.fixed_dictionaries({"voice": st.integers(0, 2**216 - 1), "sync": st.sampled_from(VOICE_SYNCS)}),
        "vx": st.fixed_dictionaries({"voice": st.integers(0, 2**216 - 1), "cc": cc, "pi": st.integers(0, 1), "lcss": st.integers(0, 3), "embedded": st.integers(0, 2**32 - 1)}),
        "pi": st.fixed_dictionaries({"data": hexb(10), "cc": cc, "sync": st.sampled_from(DATA_SYNCS)}),
        "vlc": st.fixed_dictionaries({"flco": st.sampled_from([0, 3]), "so": st.integers(0, 255), "a": a24, "b": a24, "parity": a24, "cc": cc, "sync": st.sampled_from(DATA_SYNCS)}),
        "csbk": st.fixed_dictionaries({"a": a24, "b": a24, "btf": st.integers(0, 255), "individual": st.booleans(), "cc": cc, "sync": st.sampled_from(DATA_SYNCS)}),
        "dh": st.fixed_dictionaries({"a": a24, "b": a24, "btf": st.integers(0, 127), "poc": st.integers(0, 31), "fsn": st.integers(0, 15), "cc": cc, "sync": st.sampled_from(DATA_SYNCS)}),
        "r12": st.fixed_dictionaries({"data": hexb(12), "cc": cc, "sync": st.sampled_from(DATA_SYNCS)}),
        "r34": st.fixed_dictionaries({"data": hexb(18), "cc": cc, "sync": st.sampled_from(DATA_SYNCS)}),
    }
    params["tlc"] = params["vlc"]

    def with_payload(h):
        kind = payload_kind(h["slot_type"], h["call_type"])
        return params[kind].map(lambda bp: make_case(h, kind, bp))

    # cheap to draw: length + one fill octet + 4 leading octets (the content of the surrounding octets is irrelevant to a correct decoder)
    fillb = lambda n_strat: st.tuples(n_strat, st.integers(0, 255), st.binary(min_size=4, max_size=4)).map(lambda t: (t[2] + bytes([t[1]]) * t[0])[: t[0]].hex())
    prefix = fillb(st.one_of(st.sampled_from([14, 42, 72]), st.integers(1, 200)))
    suffix = st.one_of(st.just(""), st.just(""), fillb(st.one_of(st.just(72), st.integers(1, 80))))
    prov = st.one_of(st.just({"kind": "from_bytes"}), st.just({"kind": "closed"}), st.just({"kind": "deepcopy"}),
                     st.fixed_dictionaries({"kind": st.just("stream"), "prefix": prefix, "suffix": suffix}),
                     st.fixed_dictionaries({"kind": st.just("stream"), "prefix": prefix, "suffix": suffix}))
    single = st.tuples(header.flatmap(with_payload), prov).map(lambda t: dict(t[0], prov=t[1]))
    if not twins:
        return single

    def add_twins(t):
        case, n, seed = t
        return dict(case, twins=make_twins(random.Random(seed), case, n)) if n else case

    return st.tuples(single, st.sampled_from([0, 0, 0, 1, 1, 2, 3]), st.integers(0, 2**32 - 1)).map(add_twins)


def _rand_params(rng, kind: str) -> dict:
    r24 = lambda: rng.choice([rng.randrange(2**24), rng.choice(ID_POINTS)])
    base = {"cc": rng.randrange(16), "sync": rng.choice(DATA_SYNCS)}
    if kind == "raw":
        return {"octets": rng.randbytes(34).hex()}
    if kind == "va":
        return {"voice": rng.getrandbits(216), "sync": rng.choice(VOICE_SYNCS)}
    if kind == "vx":
        return {"voice": rng.getrandbits(216), "cc": rng.randrange(16), "pi": rng.randrange(2), "lcss": rng.randrange(4), "embedded": rng.getrandbits(32)}
    if kind == "pi":
        return {**base, "data": rng.randbytes(10).hex()}
    if kind in ("vlc", "tlc"):
        return {**base, "flco": rng.choice([0, 3]), "so": rng.randrange(256), "a": r24(), "b": r24(), "parity": rng.randrange(2**24)}
    if kind == "csbk":
        return {**base, "a": r24(), "b": r24(), "btf": rng.randrange(256), "individual": rng.random() < 0.5}
    if kind == "dh":
        return {**base, "a": r24(), "b": r24(), "btf": rng.randrange(128), "poc": rng.randrange(32), "fsn": rng.randrange(16)}
    if kind == "r12":
        return {**base, "data": rng.randbytes(12).hex()}
    if kind == "r34":
        return {**base, "data": rng.randbytes(18).hex()}
    raise HarnessError(kind)


def _rand_header(rng, slot_type, call_type, ts, cc, packet_type=None, frame_type=None) -> dict:
    rid = lambda: rng.choice([rng.randrange(2**24), rng.randrange(256, 2**24), rng.choice(ID_POINTS)])
    h = {
        "seq": rng.randrange(256), "packet_type": packet_type or rng.choice(sorted(ref.IPSC_PACKET_TYPES)), "slot_type": slot_type,
        "frame_type": frame_type or rng.choice(sorted(ref.IPSC_FRAME_TYPES)), "call_type": call_type, "cc": cc, "ts": ts, "dst": rid(), "src": rid(),
        "pad": rng.choice([0, 0, rng.randrange(256)]),
    }
    for k, n in RES_LEN.items():
        h[k] = rng.choice([DEFAULTS[k], rng.randbytes(n).hex()])
    return h


# ---------------------------------------------------------------------------------------------------------- drivers


def _classes(case):
    e = case["exp"]
    cls = [f"slot.{e['slot_type']}", f"call.{e['call_type']}", f"class.{expected_class(e)}", f"ts.{e['ts']}",
           "ids." + ("both>=256" if min(e["dst"], e["src"]) >= 256 else "some<256"), "cc." + ("0" if e["cc"] == 0 else "1-15"),
           "pad." + ("00" if e["pad"] == 0 else "nonzero")]
    pv = case.get("prov") or {"kind": "from_bytes"}
    cls.append("parser_object." + pv["kind"] + (".with_trailing_octets" if pv.get("suffix") else ""))
    for tw in case.get("twins") or []:
        cls.append("near_twin_decoded_first." + _twin_relation(case, tw))
    return (min(e["dst"], e["src"]) >= 256 and e["cc"] != 0), cls


def _twin_relation(a: dict, b: dict) -> str:
    """how two single-frame cases differ: in opaque octets only / in DMR-level fields only / in both / not at all"""
    fa, fb = bytes.fromhex(a["frame"]), bytes.fromhex(b["frame"])
    opaque = set(range(0, 2)) | set(range(5, 8)) | set(range(9, 16)) | {24, 25, 58, 60, 61, 71}
    diff = {k for k in range(72) if fa[k] != fb[k]}
    if not diff:
        return "identical"
    return "opaque_octets_only" if diff <= opaque else "dmr_fields_only" if not (diff & opaque) else "dmr_fields_and_opaque_octets"


def _record(sub):
    def rec(case, t: Tally):
        nt, cls = _classes(case)
        t.case(sub, key=case, nontrivial=nt, cls=cls[0])
        for c in cls[1:]:
            t.cls(sub, c)

    return rec


def make_driver(n_quick: int, n_thorough: int):
    def drv(ctx: Ctx, sub: SubCheck):
        strat = _strategy()

        # fixed corpus: the 47 frames captured from real repeaters that the repository's tests carry
        prng = ctx.rng("provenance", "captured")
        for ci, h in enumerate(CAPTURED_IPSC_FRAMES):
            case = dict(case_from_capture(h), prov=_rand_prov(prng, ci))
            if ci % 2:
                case["twins"] = make_twins(prng, case, 1 + ci % 3)
            ctx.run_case(sub.name, sub.oracle, case, ctx.tally)
            ctx.tally.case(sub.name, key=case, nontrivial=_classes(case)[0], cls="captured_frame")

        def hyp(i, t: Tally):
            ctx.hypothesis(sub.name, strat, sub.oracle, ctx.pick(n_quick, n_thorough) // 16, tally=t, shard=i, record=_record(sub.name))

        ctx.shards(hyp, list(range(16)))

        # cross product of the enumerated fields (same frames for every sub-check: the RNG label does not contain the name)
        slots, calls = sorted(ref.IPSC_SLOT_TYPES), sorted(ref.IPSC_CALL_TYPES)
        if ctx.quick:
            combos = [(s, c, ts, cc, None, None) for s in slots for c in calls for ts in (1, 2) for cc in range(16)]
        else:
            combos = [(s, c, ts, cc, p, f) for s in slots for c in calls for ts in (1, 2) for cc in range(16)
                      for p in sorted(ref.IPSC_PACKET_TYPES) for f in sorted(ref.IPSC_FRAME_TYPES)]
        rounds = ctx.pick(1, 3)  # thorough: the whole product three times, each round with freshly drawn remaining fields / payloads
        chunks = [(i, r, combos[i::64]) for r in range(rounds) for i in range(64)]

        def work(chunk, t: Tally):
            i, r, part = chunk
            rng = ctx.rng("cross_product", i, *([r] if r else []))
            seen = set()
            for s, c, ts, cc, p, f in part:
                kind = payload_kind(s, c)
                case = make_case(_rand_header(rng, s, c, ts, cc, p, f), kind, _rand_params(rng, kind))
                case["prov"] = _rand_prov(rng, len(seen))
                if len(seen) % 3 == 1:
                    case["twins"] = make_twins(rng, case, 1 + len(seen) % 2)
                ctx.run_case(sub.name, sub.oracle, case, t)
                nt, cls = _classes(case)
                t.case(sub.name, nontrivial=nt and case["frame"] not in seen, cls="cross_product")
                for c in cls:
                    if c.startswith(("parser_object.", "near_twin")):
                        t.cls(sub.name, c)
                seen.add(case["frame"])
            t.sample(sub.name, case)

        ctx.shards(work, chunks)

        # deterministic boundary pass (both tiers): ids at their edges crossed with each other x sequence 0 / 0xFF x reserved
        # octets all-00 / all-FF / seeded x pad 00 / FF; every defined member of every enumerated field crossed with every other
        # (complete product packet x frame x slot x call x timeslot, colour code cycling) with ids from the edge list
        id_edges = [0, 1, 0xFF, 0x100, 0xFFFF, 0x10000, 0xFFFFFE, 0xFFFFFF]
        packets, frames_ = sorted(ref.IPSC_PACKET_TYPES), sorted(ref.IPSC_FRAME_TYPES)
        bcombos = []
        n = 0
        for dst in id_edges:
            for src in id_edges:
                for seq in (0, 0xFF):
                    for res in ("00", "ff", "seeded"):
                        for pad in (0, 0xFF):
                            bcombos.append(("ids", slots[n % 15], ["PrivateCall", "GroupCall", "GroupCall", calls[n % 4]][n % 4], 1 + n % 2, (n * 7) % 16, packets[n % 4], frames_[n % 6], dst, src, seq, res, pad))
                            n += 1
        for pkt in packets:
            for frm in frames_:
                for sl in slots:
                    for cl in calls:
                        for ts in (1, 2):
                            bcombos.append(("enum_pairs", sl, cl, ts, n % 16, pkt, frm, id_edges[n % 8], id_edges[(n // 8) % 8], (0, 0xFF, n % 256)[n % 3], ("00", "ff", "seeded")[(n // 3) % 3], (0, 0xFF)[(n // 2) % 2]))
                            n += 1
        bchunks = [(i, bcombos[i::64]) for i in range(64)]

        def bwork(chunk, t: Tally):
            i, part = chunk
            rng = ctx.rng("boundary", i)
            n_done = 0
            for label, sl, cl, ts, cc, pkt, frm, dst, src, seq, res, pad in part:
                kind = payload_kind(sl, cl)
                h = _rand_header(rng, sl, cl, ts, cc, pkt, frm)
                h.update(dst=dst, src=src, seq=seq, pad=pad)
                if res != "seeded":
                    for k, ln in RES_LEN.items():
                        h[k] = res * ln
                bp = _rand_params(rng, kind)
                if kind == "raw" and pad in (0, 0xFF) and res != "seeded":
                    bp = {"octets": (bytes([pad]) * 34).hex()}  # sync / wake-up payload all-00 / all-FF as well
                case = make_case(h, kind, bp)
                case["prov"] = _rand_prov(rng, n_done)
                if n_done % 4 == 2:
                    case["twins"] = make_twins(rng, case, 1 + n_done % 3)
                n_done += 1
                ctx.run_case(sub.name, sub.oracle, case, t)
                t.case(sub.name, nontrivial=_classes(case)[0], cls=f"boundary.{label}")
                for tw in case.get("twins") or []:
                    t.cls(sub.name, "near_twin_decoded_first." + _twin_relation(case, tw))
            t.sample(sub.name, case)

        ctx.shards(bwork, bchunks)
        ctx.tally.extra["boundary_cases"] = len(bcombos)
        ctx.tally.extra["cross_product_combinations"] = len(combos)
        ctx.tally.extra["cross_product_rounds"] = rounds
        ctx.tally.extra["reference_vectors_reproduced"] = _REF_VECTORS
        ctx.tally.notes.append(
            "cross product of the enumerated header fields is complete (slot type x call type x timeslot x colour code"
            + ("" if ctx.quick else " x packet type x frame type") + "); the remaining fields and the payload are sampled"
        )

    return drv


# ------------------------------------------------------------------------------------------ interleaved two-phase batches


def oracle_interleaved(case):
    """case = {"frames": [2..6 single-frame cases], "order": permutation of their indices}.  Phase 1 decodes every frame through
    all four entry points (raw: Burst.from_hytera_ipsc(bytes), HyteraIPSC.from_ipsc_bytes; generic: Burst.from_hytera_ipsc(parsed),
    HyteraIPSC.from_kaitai) and keeps the objects; phase 2 visits the frames in the other order: every kept object must still
    show its own frame's values (frame level and burst level) and as_ipsc_bytes() must give its own 72 octets, and the frame is
    decoded AGAIN through the four entry points (X, Y, X again) - the fresh objects must satisfy the same clauses; phase 3
    repeats the check of all objects, old and fresh, in the original order.
    (State shared between decoded objects - a class-level holder, a cache / an equality keyed too coarsely - shows only here;
    the batches contain near-twins: frames equal in the DMR-level fields and different in opaque octets only, and the reverse.)"""
    items = []
    shared = None
    if case.get("shared_stream"):
        shared = parser_objects_from_one_stream([bytes.fromhex(sub["frame"]) for sub in case["frames"]], bytes.fromhex(case.get("stream_prefix", "")))
    for idx, sub in enumerate(case["frames"]):
        frame, exp = _integrity(sub)
        parsed = _Parsed(frame, sub.get("prov"), obj=None if shared is None else shared[idx])
        items.append((frame, exp, _decode_all(frame, parsed), parsed))
    n = len(items)
    frames = [it[0] for it in items]
    again = {}
    for i in case["order"]:
        frame, exp, objs, parsed = items[i]
        _check_kept(i, frame, exp, objs, "after_other_frames_were_decoded", frames)
        again[i] = _decode_all(frame, parsed)
        _check_kept(i, frame, exp, again[i], "decoded_again_after_other_frames", frames)
    for i in range(n):
        frame, exp, objs, parsed = items[i]
        _check_kept(i, frame, exp, objs + again.get(i, []), "second_pass", frames)


SEGMENT_MODES = ("00", "ff", "seeded", "default")


def _force_segments(rng, h: dict, mode: str) -> dict:
    for k, ln in RES_LEN.items():
        h[k] = "00" * ln if mode == "00" else "ff" * ln if mode == "ff" else DEFAULTS[k] if mode == "default" else rng.randbytes(ln).hex()
    return h


def _batch_with_twins(rng, frames: list, n_twins: int, modes=None) -> list:
    """inserts n near-twins (of seeded members of the batch - also twins of twins) at seeded positions"""
    frames = list(frames)
    for j in range(n_twins):
        base = frames[rng.randrange(len(frames))]
        tw = make_twins(rng, base, 1, modes and [modes[j % len(modes)]])[0]
        tw["prov"] = _rand_prov(rng, rng.randrange(48))
        frames.insert(rng.randrange(len(frames) + 1), tw)
    return frames


def _batch_classes(case):
    fr = case["frames"]
    rel = {_twin_relation(fr[i], fr[j]) for i in range(len(fr)) for j in range(i)}
    out = []
    for r in ("opaque_octets_only", "dmr_fields_only", "identical"):
        if r in rel:
            out.append("batch_contains_pair_differing_in." + r)
    # "dmr_fields_and_opaque_octets" is what independent draws give; a pair that differs in ONE DMR-level field and opaque octets:
    for i in range(len(fr)):
        for j in range(i):
            ea, eb = fr[i]["exp"], fr[j]["exp"]
            if sum(ea[k] != eb[k] for k in DMR_FIELDS + ("slot_type", "call_type")) == 1 and ea["burst"] == eb["burst"]:
                out.append("batch_contains_pair_differing_in.one_dmr_field")
                return out
    return out


def drv_interleaved(ctx: Ctx, sub: SubCheck):
    import random

    from hypothesis import strategies as st

    single = _strategy(twins=False)

    def build(t):
        fr, n_tw, seed, shared, prefix = t
        rng = random.Random(seed)
        frames = _batch_with_twins(rng, fr, n_tw if len(fr) > 1 else max(1, n_tw))
        order = list(range(len(frames)))
        rng.shuffle(order)
        return {"frames": frames, "order": order, "shared_stream": shared, "stream_prefix": prefix}

    batches = st.tuples(st.lists(single, min_size=1, max_size=3), st.sampled_from([0, 1, 1, 2, 3]), st.integers(0, 2**32 - 1), st.booleans(),
                        st.sampled_from(["", "00" * 14, "ab" * 42])).map(build)

    def rec(case, t: Tally):
        segs = {bytes.fromhex(f["frame"])[0:2] + bytes.fromhex(f["frame"])[5:8] + bytes.fromhex(f["frame"])[9:16] + bytes.fromhex(f["frame"])[24:26] + bytes.fromhex(f["frame"])[60:62] + bytes.fromhex(f["frame"])[71:72] for f in case["frames"]}
        t.case(sub.name, key=case, nontrivial=len(segs) >= 2, cls=f"batch_of_{len(case['frames'])}")
        t.cls(sub.name, "opaque_segments_differ_within_batch" if len(segs) >= 2 else "opaque_segments_equal_within_batch")
        if case["order"] != sorted(case["order"]):
            t.cls(sub.name, "second_phase_in_another_order")
        t.cls(sub.name, "parser_objects_share_one_stream" if case.get("shared_stream") else "parser_objects_of_separate_provenance")
        for c in _batch_classes(case):
            t.cls(sub.name, c)

    def hyp(i, t: Tally):
        # not shrunk: shrinking replays candidates in the process the first failure may have left dirty and drifts to batches that
        # fail only there; the first failing batch of a process replays on its own
        ctx.hypothesis(sub.name, batches, oracle_interleaved, ctx.pick(1200, 64000) // 16, tally=t, shard=i, record=rec, shrink=False)

    ctx.shards(hyp, list(range(16)))

    # deterministic batches: (1) captured frames in windows of 4, (2) seeded frames whose opaque segments are forced to differ
    # (all-00 / all-FF / seeded / documented defaults rotate through the batch), every slot type, both orders reversed / rotated,
    # (3) near-twins: one seeded frame X of every slot type / a captured frame, 1..3 twins of it in every twin mode, with 0..2
    # unrelated frames between them; orders: as decoded / reversed / rotated
    caps = [case_from_capture(h) for h in CAPTURED_IPSC_FRAMES]
    slots, calls = sorted(ref.IPSC_SLOT_TYPES), sorted(ref.IPSC_CALL_TYPES)
    jobs = ([("captured", i) for i in range(0, len(caps) - 3, 3)] + [("segments", i) for i in range(ctx.pick(240, 6000))]
            + [("twins", i) for i in range(ctx.pick(len(TWIN_MODES) * 30, len(TWIN_MODES) * 600))])

    def work(chunk, t: Tally):
        ci, part = chunk
        rng = ctx.rng("interleaved", ci)
        for kind, i in part:
            if kind == "captured":
                frames = caps[i : i + 4]
            elif kind == "twins":
                mode = TWIN_MODES[i % len(TWIN_MODES)]
                k = i // len(TWIN_MODES)
                if k % 6 == 5:
                    base = caps[(k // 6) % len(caps)]
                else:
                    sl, cl = slots[k % 15], calls[(k // 15) % 4] if k % 5 == 0 else ["PrivateCall", "GroupCall"][k % 2]
                    kd = payload_kind(sl, cl)
                    base = make_case(_rand_header(rng, sl, cl, 1 + k % 2, (3 * k) % 16), kd, _rand_params(rng, kd))
                frames = [base] + make_twins(rng, base, 1 + k % 3, [mode, mode, TWIN_MODES[(i + 3) % len(TWIN_MODES)]])
                for _ in range((k // 3) % 3):  # unrelated frames between / around the twins
                    sl = slots[rng.randrange(15)]
                    kd = payload_kind(sl, "GroupCall")
                    frames.insert(rng.randrange(1, len(frames) + 1), make_case(_rand_header(rng, sl, "GroupCall", 1 + rng.randrange(2), rng.randrange(16)), kd, _rand_params(rng, kd)))
            else:
                n = 2 + i % 3
                frames = []
                for j in range(n):
                    sl, cl = slots[(i + 7 * j) % 15], calls[(i // 15 + j) % 4] if (i + j) % 5 == 0 else ["PrivateCall", "GroupCall"][(i + j) % 2]
                    h = _force_segments(rng, _rand_header(rng, sl, cl, 1 + (i + j) % 2, (i + 5 * j) % 16), SEGMENT_MODES[(i + j) % 4])
                    h["pad"] = (0, 0xFF, rng.randrange(256))[(i + j) % 3]
                    kd = payload_kind(sl, cl)
                    frames.append(make_case(h, kd, _rand_params(rng, kd)))
            n = len(frames)
            order = list(range(n)) if (kind == "twins" and i % 3 == 2) else list(reversed(range(n))) if i % 2 == 0 else [(k + 1) % n for k in range(n)]
            frames = [dict(f, prov=_rand_prov(rng, i + j)) for j, f in enumerate(frames)]
            case = {"frames": frames, "order": order, "shared_stream": i % 3 == 1, "stream_prefix": ("", "00" * 14, rng.randbytes(42).hex())[i % 3]}
            ctx.run_case(sub.name, oracle_interleaved, case, t)
            t.case(sub.name, nontrivial=True, cls=f"deterministic_batch.{kind}" + (f".{TWIN_MODES[i % len(TWIN_MODES)]}" if kind == "twins" else ""))
            for c in _batch_classes(case):
                t.cls(sub.name, c)
        t.sample(sub.name, case)

    ctx.shards(work, [(c, jobs[c::32]) for c in range(32)])


# ------------------------------------------------------------------------------------------------------------ preludes
#
# Between the two judgements of a case the framework runs these calls (stimulus only): the judged frame's near-twins through
# every sibling entry point (both decoders x Burst / HyteraIPSC, serialiser, repr, the burst octets through Burst.from_bytes and the
# 16-bit word swap directly) and rightly refused variants of the same frame (truncated, an undefined value in each enumerated
# field, an odd-length swap).


def _op_decode(a):
    """a = {"frame": hex, "generic": bool}: the frame through the raw (and generic) decoders, then serialise / repr every object"""
    from okdmr.dmrlib.etsi.layer2.burst import Burst
    from okdmr.dmrlib.hytera.hytera_ipsc import HyteraIPSC

    frame = bytes.fromhex(a["frame"])
    objs = []
    steps = [lambda: Burst.from_hytera_ipsc(frame), lambda: HyteraIPSC.from_ipsc_bytes(frame)]
    if a.get("generic", True):
        steps += [lambda: Burst.from_hytera_ipsc(make_parser_object(frame)), lambda: HyteraIPSC.from_kaitai(make_parser_object(frame))]
    for st_ in steps:
        try:
            objs.append(st_())
        except Exception:
            pass
    for o in objs:
        for fn in (lambda: getattr(o, "hytera_ipsc", o).as_ipsc_bytes(), lambda: repr(o), lambda: repr(getattr(o, "hytera_ipsc", o)),
                   lambda: o.as_bytes() if hasattr(o, "as_bytes") else None, lambda: hash(getattr(o, "hytera_ipsc", o)),
                   lambda: [getattr(o, "hytera_ipsc", o) == getattr(p, "hytera_ipsc", p) for p in objs]):
            try:
                fn()
            except Exception:
                pass


def _op_burst33(a):
    """a = {"burst": hex33, "vocoder": bool}: the same 33 burst octets through the plain burst constructors and the 16-bit word swap"""
    from okdmr.dmrlib.etsi.layer2.burst import Burst
    from okdmr.dmrlib.etsi.layer2.elements.burst_types import BurstTypes
    from okdmr.dmrlib.utils.bits_bytes import byteswap_bytearray, byteswap_bytes, bytes_to_bits

    octets = bytes.fromhex(a["burst"])
    for fn in (lambda: byteswap_bytes(octets), lambda: byteswap_bytearray(bytearray(octets + b"\x00")), lambda: byteswap_bytes(octets[:-2]),
               lambda: repr(Burst.from_bytes(octets, BurstTypes.Vocoder if a.get("vocoder") else BurstTypes.DataAndControl)),
               lambda: Burst(full_bits=bytes_to_bits(octets), burst_type=BurstTypes.Undefined).as_bytes()):
        try:
            fn()
        except Exception:
            pass


PRELUDE_OPS = {"decode": _op_decode, "burst33": _op_burst33}


def prelude_for(sub, case, rng):
    """calls derived from the case: near-twins of the judged frame(s) through every entry point, refused variants of the same
    frame, the burst octets through the sibling constructors"""
    try:
        base = case["frames"][rng.randrange(len(case["frames"]))] if sub == "interleaved" else case
        frame = bytes.fromhex(base["frame"])
        calls = []
        modes = rng.sample(TWIN_MODES, 3)
        for m in modes:
            calls.append({"x": "decode", "a": {"frame": twin_case(base, twin_changes(rng, base, m))["frame"], "generic": True}})
        # rightly refused variants of the same frame: truncated; an undefined value in one enumerated field
        bad = bytearray(frame)
        off, val = rng.choice([(8, 0x40), (18, 0x12), (19, 0x34), (22, 0x12), (62, 0x07), (16, 0x33)])
        bad[off] = val
        calls.append({"x": "decode", "a": {"frame": bytes(bad).hex(), "generic": rng.random() < 0.5}})
        calls.append({"x": "decode", "a": {"frame": frame[: rng.choice([71, 60, 26, 4, 0])].hex(), "generic": False}})
        calls.append({"x": "burst33", "a": {"burst": base["exp"]["burst"], "vocoder": base["exp"]["slot_type"].startswith("VoiceFrame")}})
        calls.append({"x": "decode", "a": {"frame": base["frame"], "generic": True}})
        return calls
    except (KeyError, IndexError, TypeError):
        return []


SUBCHECKS = [
    SubCheck("decode", _twin_bucket(oracle_decode), make_driver(12000, 400000), "raw-bytes and generic-parser decoders: values equal the encoded ones and both paths agree"),
    SubCheck("reencode_raw", oracle_reencode_raw, make_driver(5600, 200000), "as_ipsc_bytes of the frame decoded from raw bytes reproduces the 72 octets"),
    SubCheck("reencode_generic", oracle_reencode_generic, make_driver(5600, 200000), "as_ipsc_bytes of the frame decoded through the generic parser reproduces the 72 octets"),
    SubCheck("interleaved", oracle_interleaved, drv_interleaved, "batches of 2..6 frames incl. near-twins: decode all through every entry point, then re-serialise / re-observe / decode again in another order; each object keeps its own frame"),
]
PREDICATES = {}
