"""C11 — Reed-Solomon (12,9): field multiplication, systematic encoding with zero syndromes, exact checker, detection of
every error in one to three octets.

Reference: vp/refs/gf256.py (shift-and-add multiplication modulo x^8+x^4+x^3+x^2+1, g(x) built from its roots
alpha^1..alpha^3, Horner syndromes).  Word orientation worked out from the library's LFSR and confirmed on captured full-LC
words: octet 0 is the coefficient of x^11, the three parity octets are the coefficients of x^2, x^1, x^0.
"""
from __future__ import annotations

import itertools

from vp.core import Ctx, Fail, HarnessError, SubCheck, Tally, call
from vp.refs import gf256

LEVEL = "fault_enumeration"
RULE = (
    "products: ALL 65536 operand pairs.  Encoder: the zero message and ALL 9x255 single-symbol messages x the masks "
    "{000000, 969696, 999999} (complete basis), two-symbol messages (all 36 position pairs x sampled first value x ALL 255 "
    "second values; thorough: all 36x255x255), Hypothesis-drawn messages (uniform, sparse, and constructed so that a "
    "quotient symbol of the division is 0 while the register is loaded) x masks, messages with three symbols solved over "
    "GF(256) on the reference so that the returned parity octets are an edge value (000000, ffffff, 000001, 800000, "
    "fffffe, 7fffff, the mask, its complement) under each standard mask (standard's and random), GF(2)- and "
    "GF(256)-linearity and mask-is-XOR relations on Hypothesis-drawn pairs.  Checker: Hypothesis-drawn 12-octet words of "
    "the classes {random, generated, generated under another mask, generated + error in 1..12 symbols, sum of two "
    "codewords} compared with the reference syndrome test in both directions.  Faults: per sampled (message, mask) ALL "
    "12x255 single-symbol errors; double errors: all 66 position pairs x sampled first values x ALL 255 second values "
    "(thorough: the complete set of 66x255x255 for one codeword); triple errors: all 220 position triples x sampled "
    "(v1, v2) x ALL 255 third values; all ordered pairs of distinct standard masks.  Distinct by construction in the "
    "enumerations, by hash in the Hypothesis parts.  Non-trivial: messages with >= 2 non-zero symbols; every error pattern; "
    "products with both operands >= 2.  Interleaved histories: judged generate / check / multiply operations with stimulus in "
    "between - calls of the same module that are rightly refused (15 unusable mask shapes, 16 wrong data shapes incl. list "
    "messages with an octet out of range at position k = refused in the middle of the division, operands out of range for the "
    "field helpers), rightly negative (check of a word with 1..3 wrong symbols / under another mask), accepted outside the "
    "judged domain, or ordinary calls on near twins (same message under another mask; same mask, message differing in the "
    "first / last / one octet, trailing / leading zeros); complete over the stimulus shapes x 7 judged operations (directed) plus "
    "seeded random histories of 2..9 operations; retained results are compared with their snapshots at the end and every "
    "(message, mask) pair used is generated and checked once more; non-trivial = a judged operation follows a stimulus, or near "
    "twins.  The same stimuli serve as the module's prelude (prelude_for) for every 8th case of all other sub-checks."
)
ASSUMPTIONS = [
    "reference GF(2^8) arithmetic by shift-and-add modulo 0x11D; g(x) = (x+a)(x+a^2)(x+a^3), a = 2 (self-test: equals the "
    "standard's x^3+14x^2+56x+64; two captured full-LC words have zero syndromes)",
    "orientation: octet 0 of the 12-octet word = coefficient of x^11 (derived from the library's LFSR and confirmed by the "
    "captured words; the reverse orientation does not give zero syndromes on them)",
    "an RS(12,9) code has minimum distance 4 (any three columns alpha^(j*e) of the parity-check matrix are Vandermonde), so "
    "'check is False' is the expected verdict for every error of 1..3 symbols; the oracle recomputes the verdict from the "
    "reference syndromes for every pattern instead of assuming it",
    "inputs: bytes objects of length 9 / 12 and 3-octet masks (other lengths are documented assertion errors); every "
    "generate / check_word case is repeated with the containers the unchanged tree accepts and gets right (probed 2026-09: "
    "message / word as bytes or bytearray, mask as bytes, bytearray or memoryview; memoryview / list / tuple messages raise "
    "TypeError today and are not generated)",
    "interleaved / preludes: a stimulus (refused call, negative check, out-of-domain argument, helper with operands out of "
    "range) is never judged - only generate / check / multiply on 9- / 12-octet inputs with 3-octet masks around it are; a worker "
    "stops after its first failing history so that every reported history is self-contained (replays in a fresh interpreter)",
]

STD_MASKS = {"none": "000000", "VoiceLCHeader": "969696", "TerminatorWithLC": "999999"}


def RS():
    from okdmr.dmrlib.etsi.fec.reed_solomon_12_9_4 import ReedSolomon1294

    return ReedSolomon1294


# ---------------------------------------------------------------------------------------------- oracles


def oracle_multiply(case):
    """case = {a, b}"""
    a, b = case["a"], case["b"]
    got = call(RS().log_multiply, a, b)[1]
    exp = gf256.mul(a, b)
    if got != exp or isinstance(got, bool) or not isinstance(got, int):
        raise Fail("product_equals_gf256", got, exp)


REJECTIONS = (TypeError, AttributeError, ValueError, NotImplementedError)  # policy of vp/containers.py for non-default containers
DATA_REPS = ["bytes", "bytearray"]
MASK_REPS = ["bytes", "bytearray", "memoryview"]


def _octets(raw: bytes, rep: str):
    return bytearray(raw) if rep == "bytearray" else memoryview(raw) if rep == "memoryview" else raw


def _generate(msg: bytes, mask: bytes):
    got = call(RS().generate, msg, mask)[1]
    if not isinstance(got, (bytes, bytearray)) or len(got) != 12:
        raise Fail("generate_returns_12_octets", repr(got), "12 octets")
    return bytes(got)


def oracle_generate(case):
    """case = {msg: hex18, mask: hex6}"""
    msg, mask = bytes.fromhex(case["msg"]), bytes.fromhex(case["mask"])
    word = _generate(msg, mask)
    if word[:9] != msg:
        raise Fail("message_octets_first_unchanged", word[:9].hex(), msg.hex())
    syn = gf256.syndromes(gf256.unmask(word, mask))
    if syn != [0, 0, 0]:
        raise Fail("zero_syndromes_with_mask_removed", syn, [0, 0, 0])
    ref = bytes(gf256.rs_encode(list(msg), list(mask)))
    if word != ref:
        raise HarnessError(f"systematic word with zero syndromes differs from the reference encoder: {word.hex()} vs {ref.hex()}")
    if mask == b"\x00\x00\x00":
        dflt = call(RS().generate, msg)[1]
        if bytes(dflt) != word:
            raise Fail("default_mask_is_zero", bytes(dflt).hex(), word.hex())
    ok = call(RS().check, word, mask)[1]
    if ok is not True:
        raise Fail("generated_word_accepted_under_same_mask", ok, True)
    # the same octets in the other containers the unchanged tree accepts (lesson A.1; see ASSUMPTIONS)
    for dk in DATA_REPS:
        for mk in MASK_REPS:
            if (dk, mk) == ("bytes", "bytes"):
                continue
            d, k = _octets(msg, dk), _octets(mask, mk)
            st, got = call(RS().generate, d, k, allowed=REJECTIONS)
            if st == "raised":
                case.setdefault("_container_not_accepted", []).append(f"generate:{dk}/{mk}")
                continue
            if bytes(d) != msg or bytes(k) != mask:
                raise Fail("input_not_mutated", [bytes(d).hex(), bytes(k).hex()], [msg.hex(), mask.hex()], f"{dk}/{mk}")
            if not isinstance(got, (bytes, bytearray)) or bytes(got) != word:
                raise Fail("generate_independent_of_container", repr(got), word.hex(), f"{dk}/{mk}")
            st, ok = call(RS().check, _octets(word, dk), _octets(mask, mk), allowed=REJECTIONS)
            if st == "raised":
                case.setdefault("_container_not_accepted", []).append(f"check:{dk}/{mk}")
            elif ok is not True:
                raise Fail("generated_word_accepted_under_same_mask", ok, True, f"{dk}/{mk}")


_GMUL = []


def _fast_parity(msg):
    """reference parity through a 256-entry table of c*g1, c*g2, c*g3 built from the shift-and-add product"""
    if not _GMUL:
        g = gf256.generator()
        _GMUL.extend((gf256.mul(c, g[1]), gf256.mul(c, g[2]), gf256.mul(c, g[3])) for c in range(256))
    r0 = r1 = r2 = 0
    for d in msg:
        a, b, c = _GMUL[d ^ r0]
        r0, r1, r2 = r1 ^ a, r2 ^ b, c
    return bytes((r0, r1, r2))


def oracle_two_symbol(case):
    """case = {i, vi, j, mask}: ALL 255 messages with value vi at octet i, a swept non-zero value at octet j, zeros elsewhere:
    generate == message || reference parity ^ mask (the unique systematic word with zero syndromes)."""
    i, vi, j, mask = case["i"], case["vi"], case["j"], bytes.fromhex(case["mask"])
    if i == j or not (1 <= vi <= 255):
        raise HarnessError(f"bad case {case}")
    gen = RS().generate
    probe = None
    for vj in range(1, 256):
        m = bytearray(9)
        m[i] = vi
        m[j] = vj
        m = bytes(m)
        exp = m + _xor(_fast_parity(m), mask)
        got = call(gen, m, mask)[1]
        if got != exp:
            if gf256.syndromes(gf256.unmask(list(exp), list(mask))) != [0, 0, 0]:
                raise HarnessError("fast reference parity is wrong")
            raise Fail("zero_syndromes_with_mask_removed", {"msg": m.hex(), "word": bytes(got).hex(), "syndromes": gf256.syndromes(gf256.unmask(list(got), list(mask))) if len(got) == 12 else None}, {"msg": m.hex(), "word": exp.hex(), "syndromes": [0, 0, 0]})
        probe = exp
    if gf256.syndromes(gf256.unmask(list(probe), list(mask))) != [0, 0, 0]:
        raise HarnessError("fast reference parity is wrong")


def oracle_extreme_parity(case):
    """case = {msg: hex18, mask: hex6, want: hex6}: a message CONSTRUCTED (3x3 system over GF(2^8) on the reference) so that
    the three parity octets generate() returns under this mask are exactly an edge value (00 00 00, FF FF FF, 00 00 01,
    80 00 00, FF FF FE, 7F FF FF, the mask itself, its complement).  The reference must hit it (else harness error); then
    the generate clauses, and check() rejects every single-bit neighbour and parity +-1 as a 24-bit number incl. wrap-around."""
    msg, mask, want = bytes.fromhex(case["msg"]), bytes.fromhex(case["mask"]), bytes.fromhex(case["want"])
    ref = bytes(gf256.rs_encode(list(msg), list(mask)))
    if ref[9:] != want:
        raise HarnessError(f"construction failed: reference parity {ref[9:].hex()} is not {want.hex()}")
    oracle_generate({"msg": case["msg"], "mask": case["mask"]})
    word = _generate(msg, mask)
    if word[9:] != want:
        raise Fail("zero_syndromes_with_mask_removed", word.hex(), ref.hex(), "extreme_parity")
    p = int.from_bytes(want, "big")
    for q in sorted(({p ^ (1 << k) for k in range(24)} | {(p + 1) % (1 << 24), (p - 1) % (1 << 24)}) - {p}):
        w = msg + q.to_bytes(3, "big")
        if gf256.is_codeword(list(w), list(mask)):
            raise HarnessError("a word differing from a codeword only in the parity octets cannot be a codeword")
        ok = call(RS().check, w, mask)[1]
        if ok is not False:
            raise Fail("checker_accepts_exactly_zero_syndrome_words", {"word": w.hex(), "check": ok}, {"word": w.hex(), "check": False}, "neighbour_of_extreme_parity")


def _xor(a: bytes, b: bytes) -> bytes:
    return bytes(x ^ y for x, y in zip(a, b))


def oracle_linearity(case):
    """case = {a: hex18, b: hex18, c: scalar, mask: hex6}"""
    a, b, mask, c = bytes.fromhex(case["a"]), bytes.fromhex(case["b"]), bytes.fromhex(case["mask"]), case["c"]
    z = b"\x00\x00\x00"
    ga, gb, gab = _generate(a, z), _generate(b, z), _generate(_xor(a, b), z)
    if gab != _xor(ga, gb):
        raise Fail("generate_additive", gab.hex(), _xor(ga, gb).hex())
    ca = bytes(gf256.mul(c, x) for x in a)
    gca = _generate(ca, z)
    exp = bytes(gf256.mul(c, x) for x in ga)
    if gca != exp:
        raise Fail("generate_commutes_with_scalar_multiplication", gca.hex(), exp.hex())
    gm = _generate(a, mask)
    if gm != ga[:9] + _xor(ga[9:], mask):
        raise Fail("mask_is_xor_on_parity_octets", gm.hex(), (ga[:9] + _xor(ga[9:], mask)).hex())


def oracle_check_word(case):
    """case = {word: hex24, mask: hex6}: check(word, mask) is True exactly when the unmasked word has zero syndromes."""
    word, mask = bytes.fromhex(case["word"]), bytes.fromhex(case["mask"])
    exp = gf256.is_codeword(list(word), list(mask))
    for dk in DATA_REPS:
        for mk in MASK_REPS:
            if (dk, mk) == ("bytes", "bytes"):
                ok = call(RS().check, word, mask)[1]
            else:
                st, ok = call(RS().check, _octets(word, dk), _octets(mask, mk), allowed=REJECTIONS)
                if st == "raised":
                    case.setdefault("_container_not_accepted", []).append(f"check:{dk}/{mk}")
                    continue
            if ok is not exp:
                raise Fail("checker_accepts_exactly_zero_syndrome_words", ok, exp, ("accepts_non_codeword" if not exp else "rejects_codeword") + ("" if (dk, mk) == ("bytes", "bytes") else f":{dk}/{mk}"))


def oracle_fault(case):
    """case = {msg, mask, errors: [[pos, xor_value], …] (1..3 distinct positions, values 1..255), sweep: pos|None}.
    The generated word with these octets altered (and, with 'sweep', every one of the 255 alterations of one more octet)
    is rejected."""
    msg, mask = bytes.fromhex(case["msg"]), bytes.fromhex(case["mask"])
    errors = case["errors"]
    sweep = case.get("sweep")
    pos = [p for p, _ in errors] + ([sweep] if sweep is not None else [])
    if len(set(pos)) != len(pos) or not 1 <= len(pos) <= 3 or any(not (0 <= p < 12) for p in pos) or any(not (1 <= v <= 255) for _, v in errors):
        raise HarnessError(f"bad error pattern {case}")
    word = _generate(msg, mask)
    if list(word) != gf256.rs_encode(list(msg), list(mask)):
        raise Fail("generate_equals_reference", word.hex(), bytes(gf256.rs_encode(list(msg), list(mask))).hex())
    base = bytearray(word)
    for p, v in errors:
        base[p] ^= v
    check = RS().check
    for v in range(1, 256) if sweep is not None else [0]:
        w = bytearray(base)
        if sweep is not None:
            w[sweep] ^= v
        w = bytes(w)
        if gf256.is_codeword(list(w), list(mask)):
            raise HarnessError(f"reference says a word at symbol distance <= 3 from a codeword is a codeword: {w.hex()}")
        ok = call(check, w, mask)[1]
        if ok is not False:
            raise Fail("error_in_1_to_3_octets_detected", {"word": w.hex(), "check": ok}, {"word": w.hex(), "check": False}, f"symbols_{len(pos)}")


def oracle_mask_change(case):
    """case = {msg, mask, other}: a word generated under one mask is rejected under any other mask."""
    msg, mask, other = bytes.fromhex(case["msg"]), bytes.fromhex(case["mask"]), bytes.fromhex(case["other"])
    if mask == other:
        raise HarnessError("masks must differ")
    word = _generate(msg, mask)
    ok = call(RS().check, word, other)[1]
    if ok is not False:
        raise Fail("word_rejected_under_another_mask", ok, False)


# ---------------------------------------------------------------------------------------------- drivers


def drv_multiply(ctx: Ctx, sub: SubCheck):
    gf256.self_test()

    def work(a, t: Tally):
        for b in range(256):
            ctx.run_case(sub.name, oracle_multiply, {"a": a, "b": b}, t)
        t.case(sub.name, nontrivial=False, cls="operand_0_or_1", n=(256 if a < 2 else 2))
        if a >= 2:
            t.case(sub.name, nontrivial=True, cls="both_operands_ge_2", n=254)
            t.sample(sub.name, {"a": a, "b": (a * 7 + 3) % 256})

    ctx.shards(work, list(range(256)), chunksize=16)
    ctx.tally.exhaustive[sub.name] = True


def drv_generate_basis(ctx: Ctx, sub: SubCheck):
    items = [(p, mk) for p in range(9) for mk in STD_MASKS.values()]

    def work(it, t: Tally):
        p, mk = it
        for v in range(1, 256):
            m = bytearray(9)
            m[p] = v
            ctx.run_case(sub.name, oracle_generate, {"msg": bytes(m).hex(), "mask": mk}, t)
        t.case(sub.name, nontrivial=False, cls=f"single_symbol_message:mask_{mk}", n=255)
        t.sample(sub.name, {"msg": bytes(m).hex(), "mask": mk})

    ctx.shards(work, items)
    for mk in STD_MASKS.values():
        ctx.run_case(sub.name, oracle_generate, {"msg": "00" * 9, "mask": mk})
        ctx.tally.case(sub.name, cls="zero_message")
    ctx.tally.exhaustive[sub.name] = True


def drv_two_symbol(ctx: Ctx, sub: SubCheck):
    complete = ctx.tier == "thorough"
    masks = sorted(STD_MASKS.values())
    items = [(i, j) for i in range(9) for j in range(9) if i < j]

    def work(it, t: Tally):
        i, j = it
        rng = ctx.rng("two_symbol", i, j)
        vals = list(range(1, 256)) if complete else sorted(rng.sample(range(1, 256), 12))
        n_zq = 0
        for vi in vals:
            case = {"i": i, "vi": vi, "j": j, "mask": masks[(vi + i + j) % 3]}
            ctx.run_case(sub.name, oracle_two_symbol, case, t)
            # of the 255 swept messages exactly one has quotient symbol 0 at step j while the register is loaded: the one
            # whose octet j equals the (non-zero) top stage of the register there
            m = [0] * 9
            m[i] = vi
            top = gf256.register_top_after(m[:j])
            n_zq += 1 if top != 0 else 0
        t.case(sub.name, nontrivial=True, cls="two_symbol_messages", n=255 * len(vals))
        t.cls(sub.name, "of_which_zero_quotient_at_second_symbol", n_zq)
        t.sample(sub.name, {"i": i, "vi": vals[0], "j": j, "mask": masks[(vals[0] + i + j) % 3]})

    ctx.shards(work, items)
    ctx.tally.exhaustive[sub.name] = complete
    ctx.tally.notes.append("generate_two_symbol: " + ("ALL 36*255*255 = 2340900 two-symbol messages" if complete else "all 36 position pairs x 12 sampled first values x all 255 second values"))


EXTREME_PARITY = {"zero": "000000", "all_ones": "ffffff", "one": "000001", "top_bit_only": "800000", "all_ones_minus_1": "fffffe", "top_bit_clear": "7fffff"}


def drv_extreme_parity(ctx: Ctx, sub: SubCheck):
    rng = ctx.rng("extreme_parity")
    triples = [(6, 7, 8), (0, 1, 2), (0, 4, 8)] + [tuple(sorted(rng.sample(range(9), 3))) for _ in range(5)]
    items = []
    for tr in triples:
        bases = [bytes(9), bytes(rng.getrandbits(8) for _ in range(9)), bytes(rng.getrandbits(8) for _ in range(9))]
        for base in bases:
            for mk in sorted(STD_MASKS.values()):
                items.append((tr, base.hex(), mk))

    def work(it, t: Tally):
        tr, base, mk = it
        mask = bytes.fromhex(mk)
        targets = dict(EXTREME_PARITY)
        if mk != "000000":
            targets["equals_mask"] = mk
            targets["complement_of_mask"] = bytes(x ^ 0xFF for x in mask).hex()
        for name, want in targets.items():
            unmasked = [x ^ y for x, y in zip(bytes.fromhex(want), mask)]
            m = bytes(gf256.steer_parity(list(bytes.fromhex(base)), tr, unmasked))
            case = {"msg": m.hex(), "mask": mk, "want": want}
            ctx.run_case(sub.name, oracle_extreme_parity, case, t)
            t.case(sub.name, key=case, nontrivial=_nz(case["msg"]) >= 2, cls=f"{name}:mask_{mk}")
            if name == "all_ones" and tr == (6, 7, 8):
                t.sample(sub.name, case)

    ctx.shards(work, items, chunksize=4)
    ctx.tally.notes.append("extreme_parity: 8 position triples x 3 base messages x 3 standard masks x 6..8 edge values of the returned parity octets; messages solved on the reference")


def _st():
    from hypothesis import strategies as st

    return st


def st_mask():
    st = _st()
    return st.one_of(st.sampled_from(sorted(STD_MASKS.values())), st.binary(min_size=3, max_size=3).map(bytes.hex))


def st_msg():
    st = _st()
    # uniform 9 octets, or sparse messages (few non-zero symbols)
    sparse = st.lists(st.tuples(st.integers(0, 8), st.integers(1, 255)), min_size=0, max_size=3).map(_sparse)
    uniform = st.binary(min_size=9, max_size=9)
    # constructed: at position p the octet equals the top stage of the division register, i.e. the quotient symbol is 0
    # while the register is loaded (random messages do this with probability ~3 %, basis words never)
    zero_quotient = st.builds(_force_zero_quotient, uniform, st.integers(1, 8))
    return st.one_of(uniform.map(bytes.hex), sparse, zero_quotient)


def _force_zero_quotient(raw: bytes, pos: int):
    m = bytearray(raw)
    m[pos] = gf256.register_top_after(list(m[:pos]))
    return bytes(m).hex()


def _zq(hexmsg):
    return ":zero_quotient_step" if gf256.division_trace(list(bytes.fromhex(hexmsg)))[1] else ""


def _sparse(pairs):
    m = bytearray(9)
    for p, v in pairs:
        m[p] = v
    return bytes(m).hex()


def _nz(hexmsg):
    return sum(1 for x in bytes.fromhex(hexmsg) if x)


def _hyp(ctx, sub, strat, oracle, nq, nt, record):
    def work(shard, t: Tally):
        ctx.hypothesis(sub.name, strat, oracle, ctx.pick(nq, nt), tally=t, shard=shard, record=record)

    ctx.shards(work, list(range(16)))


def drv_generate_random(ctx: Ctx, sub: SubCheck):
    st = _st()
    strat = st.builds(lambda m, k: {"msg": m, "mask": k}, st_msg(), st_mask())
    _hyp(ctx, sub, strat, oracle_generate, 120, 3000,
         lambda c, t: t.case(sub.name, key=c, nontrivial=_nz(c["msg"]) >= 2, cls=("standard_mask" if c["mask"] in STD_MASKS.values() else "random_mask") + (":dense" if _nz(c["msg"]) > 3 else ":sparse") + _zq(c["msg"])))


def drv_linearity(ctx: Ctx, sub: SubCheck):
    st = _st()
    strat = st.builds(lambda a, b, c, k: {"a": a, "b": b, "c": c, "mask": k}, st_msg(), st_msg(), st.integers(0, 255), st_mask())
    _hyp(ctx, sub, strat, oracle_linearity, 80, 2000,
         lambda c, t: t.case(sub.name, key=c, nontrivial=(_nz(c["a"]) >= 2 and _nz(c["b"]) >= 1 and c["a"] != c["b"] and c["c"] >= 2), cls="scalar_ge_2" if c["c"] >= 2 else "scalar_0_or_1"))


def _ref_word(msg_hex, mask_hex):
    return bytes(gf256.rs_encode(list(bytes.fromhex(msg_hex)), list(bytes.fromhex(mask_hex))))


def drv_check_word(ctx: Ctx, sub: SubCheck):
    st = _st()
    err = st.lists(st.tuples(st.integers(0, 11), st.integers(1, 255)), min_size=1, max_size=12, unique_by=lambda pv: pv[0])

    def with_errors(m, k, es):
        w = bytearray(_ref_word(m, k))
        for p, v in es:
            w[p] ^= v
        return {"word": bytes(w).hex(), "mask": k, "_cls": f"codeword_plus_{min(len(es), 5)}{'+' if len(es) >= 5 else ''}_symbol_errors"}

    strat = st.one_of(
        st.builds(lambda w, k: {"word": w.hex(), "mask": k, "_cls": "random_word"}, st.binary(min_size=12, max_size=12), st_mask()),
        st.builds(lambda m, k: {"word": _ref_word(m, k).hex(), "mask": k, "_cls": "codeword"}, st_msg(), st_mask()),
        st.builds(lambda m, k, k2: {"word": _ref_word(m, k).hex(), "mask": k2, "_cls": "codeword_of_another_mask" if k != k2 else "codeword"}, st_msg(), st_mask(), st_mask()),
        st.builds(with_errors, st_msg(), st_mask(), err),
        st.builds(
            lambda a, b, k: {
                "word": bytes(x ^ y for x, y in zip(_ref_word(a, k), _ref_word(b, "000000"))).hex(),
                "mask": k,
                "_cls": {0: "codeword", 1: "codeword_plus_codeword_of_weight_le_4"}.get(_nz(b), "sum_of_two_codewords"),
            },
            st_msg(), st_msg(), st_mask(),
        ),
    )

    def rec(c, t):
        is_cw = gf256.is_codeword(list(bytes.fromhex(c["word"])), list(bytes.fromhex(c["mask"])))
        t.case(sub.name, key={"word": c["word"], "mask": c["mask"]}, nontrivial=any(bytes.fromhex(c["word"])[:9]), cls=c["_cls"] + (":is_codeword" if is_cw else ":not_codeword"))

    _hyp(ctx, sub, strat, oracle_check_word, 150, 2500, rec)


def _codewords(ctx: Ctx, n: int):
    rng = ctx.rng("codewords")
    masks = sorted(STD_MASKS.values())
    out = []
    for i in range(n):
        if i % 4 == 3:
            mk = bytes(rng.getrandbits(8) for _ in range(3)).hex()
        else:
            mk = masks[(i + ctx.seed) % 3]
        out.append((bytes(rng.getrandbits(8) for _ in range(9)).hex(), mk))
    return out


def drv_fault_single(ctx: Ctx, sub: SubCheck):
    cws = _codewords(ctx, ctx.pick(4, 40))
    if ctx.tier == "thorough":
        cws.append(("00" * 9, "000000"))
    items = [(m, k, p) for m, k in cws for p in range(12)]

    def work(it, t: Tally):
        m, k, p = it
        ctx.run_case(sub.name, oracle_fault, {"msg": m, "mask": k, "errors": [], "sweep": p}, t)
        t.case(sub.name, nontrivial=True, cls="message_symbol" if p < 9 else "parity_symbol", n=255)
        if p in (0, 10):
            t.sample(sub.name, {"msg": m, "mask": k, "errors": [], "sweep": p})

    ctx.shards(work, items, chunksize=4)
    ctx.tally.exhaustive[sub.name] = True
    ctx.tally.extra["codewords_under_single_symbol_fault_enumeration"] = len(cws)


def drv_fault_double(ctx: Ctx, sub: SubCheck):
    cws = _codewords(ctx, ctx.pick(1, 4))
    pairs = list(itertools.combinations(range(12), 2))
    items = []
    complete = ctx.tier == "thorough"
    for ci, (m, k) in enumerate(cws):
        for i, j in pairs:
            if complete and ci == 0:
                for lo in range(1, 256, 51):
                    items.append((m, k, i, j, list(range(lo, min(256, lo + 51)))))
            else:
                rng = ctx.rng("double", ci, i, j)
                items.append((m, k, i, j, sorted(rng.sample(range(1, 256), ctx.pick(8, 24)))))

    def work(it, t: Tally):
        m, k, i, j, vals = it
        for v in vals:
            ctx.run_case(sub.name, oracle_fault, {"msg": m, "mask": k, "errors": [[i, v]], "sweep": j}, t)
        kind = ("message" if i < 9 else "parity") + "+" + ("message" if j < 9 else "parity")
        t.case(sub.name, nontrivial=True, cls=kind, n=255 * len(vals))
        if (i + j) % 9 == 0:
            t.sample(sub.name, {"msg": m, "mask": k, "errors": [[i, vals[0]]], "sweep": j})

    ctx.shards(work, items, chunksize=4)
    ctx.tally.exhaustive[sub.name] = complete
    if complete:
        ctx.tally.notes.append(f"fault_double: ALL 66*255*255 = 4291650 double-symbol errors of the codeword of message {cws[0][0]} mask {cws[0][1]}; sampled for the other codewords")
    else:
        ctx.tally.notes.append("fault_double (quick): all 66 position pairs x 8 sampled first values x all 255 second values")


def drv_fault_triple(ctx: Ctx, sub: SubCheck):
    cws = _codewords(ctx, ctx.pick(1, 4))
    triples = list(itertools.combinations(range(12), 3))
    items = [(ci, m, k, tr) for ci, (m, k) in enumerate(cws) for tr in triples]
    n_first = ctx.pick(2, 12)

    def work(it, t: Tally):
        ci, m, k, (a, b, c) = it
        rng = ctx.rng("triple", ci, a, b, c)
        for r in range(n_first):
            va, vb = rng.randrange(1, 256), rng.randrange(1, 256)
            # rotate which of the three positions is swept so that each takes all 255 values
            order = [(a, b, c), (b, c, a), (c, a, b)][r % 3]
            case = {"msg": m, "mask": k, "errors": [[order[0], va], [order[1], vb]], "sweep": order[2]}
            ctx.run_case(sub.name, oracle_fault, case, t)
        n_par = sum(1 for p in (a, b, c) if p >= 9)
        t.case(sub.name, nontrivial=True, cls=f"{3 - n_par}_message_{n_par}_parity_symbols", n=255 * n_first)
        if (a + b + c) % 11 == 0:
            t.sample(sub.name, case)

    ctx.shards(work, items, chunksize=8)
    ctx.tally.notes.append("fault_triple: sampled (all 220 position triples; (v1, v2) sampled; third value swept over all 255)")


def drv_mask_change(ctx: Ctx, sub: SubCheck):
    st = _st()
    def other(k, es):
        o = bytearray(bytes.fromhex(k))
        for p, v in es:
            o[p] ^= v
        return bytes(o).hex()

    alter = st.lists(st.tuples(st.integers(0, 2), st.integers(1, 255)), min_size=1, max_size=3, unique_by=lambda pv: pv[0])
    strat = st.builds(lambda m, k, es: {"msg": m, "mask": k, "other": other(k, es)}, st_msg(), st_mask(), alter)
    _hyp(ctx, sub, strat, oracle_mask_change, 40, 1000,
         lambda c, t: t.case(sub.name, key=c, nontrivial=True, cls=f"differ_in_{sum(1 for x, y in zip(bytes.fromhex(c['mask']), bytes.fromhex(c['other'])) if x != y)}_octets"))
    # all ordered pairs of distinct standard masks on a basis of messages
    for k, k2 in itertools.permutations(sorted(STD_MASKS.values()), 2):
        for m in ("00" * 9, "0300002635a903d475", "ff" * 9):
            ctx.run_case(sub.name, oracle_mask_change, {"msg": m, "mask": k, "other": k2})
            ctx.tally.case(sub.name, key={"msg": m, "mask": k, "other": k2}, nontrivial=True, cls="standard_mask_pair")


# ---------------------------------------------------------------------------------------------- interleaved histories (round 7)
#
# Stimulus = every way of calling reed_solomon_12_9_4.py that is not "generate a word for a 9-octet message and a 3-octet mask /
# check a 12-octet word under a 3-octet mask": calls that are rightly refused (a mask that cannot be indexed: None, an int, the
# CrcMasks member itself, too short; data of the wrong length or type; a list message with an octet out of range at position k,
# which is refused in the middle of the division), calls with a rightly negative answer (check of a corrupted word / under
# another mask), accepted out-of-domain arguments (a 4-octet mask, list masks), the field helpers with operands out of
# range, and ordinary calls on near twins (same message under another mask, same mask and a message that differs in one
# octet).  Nothing is claimed about a stimulus; the judged operations around it must not notice it.


def _masks_enum():
    from okdmr.dmrlib.etsi.layer2.elements.crc_masks import CrcMasks

    return CrcMasks


_BAD_MASKS = ["none", "int", "enum", "empty", "one", "two", "four", "str", "list_ok", "list_oob", "list_none", "list_float", "tuple", "bytes_obj_hex", "dict"]
_BAD_DATA = ["len0", "len8", "len10", "len12", "len18", "str", "none", "int", "list", "tuple", "list_oob", "list_neg", "list_none", "memoryview", "bytearray", "bits"]
_BAD_WORD = ["len0", "len9", "len11", "len13", "len24", "str", "none", "list", "list_oob", "list_none", "memoryview"]
_MUL_BAD = ["a256", "b256", "a_neg", "b_neg", "float", "none", "str", "bool", "huge", "valid", "zero"]
_XOR_BAD = ["short_mask", "long_mask", "none", "str", "ints", "valid"]
RS_STIM_KINDS = ["gen_bad_mask", "chk_bad_mask", "gen_bad_data", "chk_bad_data", "chk_false", "chk_true", "gen_twin", "mul_bad", "xor_bad"]


def _bad_mask(mask: bytes, how: str):
    return {
        "none": lambda: None, "int": lambda: mask[0], "enum": lambda: _masks_enum().VoiceLCHeader, "empty": lambda: b"", "one": lambda: mask[:1],
        "two": lambda: mask[:2], "four": lambda: mask + b"\x5a", "str": lambda: mask.hex(), "list_ok": lambda: list(mask), "list_oob": lambda: [mask[0], 256 + mask[1], mask[2]],
        "list_none": lambda: [mask[0], None, mask[2]], "list_float": lambda: [float(x) for x in mask], "tuple": lambda: tuple(mask), "bytes_obj_hex": lambda: mask.hex().encode(), "dict": lambda: {0: 1},
    }[how]()


def _bad_data(raw: bytes, how: str, pos: int):
    """raw: 9 or 12 octets"""
    n = len(raw)
    pos %= n
    return {
        "len0": lambda: b"", "len8": lambda: raw[:8], "len9": lambda: raw[:9], "len10": lambda: (raw + raw)[:10], "len11": lambda: raw[:11], "len12": lambda: (raw + raw)[:12],
        "len13": lambda: (raw + raw)[:13], "len18": lambda: (raw + raw)[:18], "len24": lambda: (raw + raw)[:24], "str": lambda: raw.hex()[:n], "none": lambda: None, "int": lambda: len(raw),
        "list": lambda: list(raw), "tuple": lambda: tuple(raw), "list_oob": lambda: list(raw[:pos]) + [256 + raw[pos]] + list(raw[pos + 1 :]),
        "list_neg": lambda: list(raw[:pos]) + [-1 - raw[pos]] + list(raw[pos + 1 :]), "list_none": lambda: list(raw[:pos]) + [None] + list(raw[pos + 1 :]),
        "memoryview": lambda: memoryview(raw), "bytearray": lambda: bytearray(raw), "bits": lambda: "".join(format(x, "08b") for x in raw),
    }[how]()


def rs_twin(msg: bytes, kind: str, pos: int = 0) -> bytes:
    m = bytearray(msg)
    if kind == "last_octet":
        m[8] ^= 1 + pos % 255
    elif kind == "first_octet":
        m[0] ^= 1 + pos % 255
    elif kind == "one_octet":
        m[pos % 9] ^= 0x80 >> (pos % 8)
    elif kind == "trailing_zeros":
        for i in range(9 - 1 - pos % 8, 9):
            m[i] = 0
    elif kind == "leading_zeros":
        for i in range(0, 1 + pos % 8):
            m[i] = 0
    elif kind == "reversed":
        m.reverse()
    return bytes(m)


RS_TWIN_KINDS = ["same", "last_octet", "first_octet", "one_octet", "trailing_zeros", "leading_zeros", "reversed"]


def rs_stim_call(msg: bytes, mask: bytes, op):
    """(function, args) of the library call the abstract stimulus ``op`` stands for, on values derived from (msg, mask)"""
    rs = RS()
    k, how, pos = op["k"], op.get("how", ""), int(op.get("pos", 0))
    word = bytes(gf256.rs_encode(list(msg), list(mask)))
    if k == "gen_bad_mask":
        return rs.generate, (msg, _bad_mask(mask, how or "none"))
    if k == "chk_bad_mask":
        return rs.check, (word, _bad_mask(mask, how or "none"))
    if k == "gen_bad_data":
        return rs.generate, (_bad_data(msg, how or "len8", pos), mask)
    if k == "chk_bad_data":
        return rs.check, (_bad_data(word, how or "len11", pos), mask)
    if k == "chk_false":  # rightly negative: corrupted in 1..3 symbols, or under another mask
        if how == "other_mask":
            return rs.check, (word, bytes(x ^ (1 + pos % 255) for x in mask))
        w = bytearray(word)
        for j in range(1 + pos % 3):
            w[(pos + 5 * j) % 12] ^= 1 + (pos * 7 + j) % 255
        return rs.check, (bytes(w), mask)
    if k == "chk_true":
        return rs.check, (_octets(word, "bytearray" if how == "bytearray" else "bytes"), mask)
    if k == "gen_twin":
        other = bytes(x ^ (1 + pos % 255) for x in mask) if how == "other_mask" else mask
        return rs.generate, (rs_twin(msg, how if how in RS_TWIN_KINDS else "same", pos), other)
    if k == "mul_bad":
        a, b = msg[pos % 9], mask[pos % 3]
        return rs.log_multiply, {
            "a256": (256 + a, b or 1), "b256": (a or 1, 256 + b), "a_neg": (-1 - a, b or 1), "b_neg": (a or 1, -1 - b), "float": (float(a or 1), b or 1), "none": (None, b or 1),
            "str": ("%d" % a, b or 1), "bool": (True, b or 1), "huge": (10 ** 9 + a, b or 1), "valid": (a, b), "zero": (0, 256 + b),
        }[how or "a256"]
    if k == "xor_bad":
        return rs.xor_bytes, {
            "short_mask": (word[9:], mask[:2]), "long_mask": (word[9:], mask + mask), "none": (word[9:], None), "str": (word[9:].hex(), mask), "ints": (list(word[9:]), [300, -1, None]), "valid": (word[9:], mask),
        }[how or "short_mask"]
    raise HarnessError(f"unknown stimulus {k}")


def rs_run_stim(msg: bytes, mask: bytes, op):
    fn, args = rs_stim_call(msg, mask, op)
    try:
        res = fn(*args)
    except (KeyboardInterrupt, SystemExit, MemoryError):
        raise
    except BaseException:
        return None
    if isinstance(res, bytearray) and op.get("damage"):  # the caller owns what it got back
        for i in range(len(res)):
            res[i] ^= 0xFF
    return res


def _op_stim(a):
    rs_run_stim(bytes.fromhex(a["msg"]), bytes.fromhex(a["mask"]), a["op"])


PRELUDE_OPS = {"stim": _op_stim}


def rs_random_stim(rng):
    k = rng.choice(RS_STIM_KINDS + ["gen_bad_mask", "chk_bad_mask", "gen_bad_data", "chk_bad_data"])
    op = {"k": k, "pos": rng.choice([0, 1, 2, 7, 8, 9, 11, rng.randrange(256)]), "damage": rng.random() < 0.3}
    op["how"] = rng.choice({
        "gen_bad_mask": _BAD_MASKS, "chk_bad_mask": _BAD_MASKS, "gen_bad_data": _BAD_DATA, "chk_bad_data": _BAD_WORD, "chk_false": ["errors", "other_mask"], "chk_true": ["bytes", "bytearray"],
        "gen_twin": RS_TWIN_KINDS + ["other_mask"], "mul_bad": _MUL_BAD, "xor_bad": _XOR_BAD,
    }[k])
    return op


def _case_values(case, rng):
    """(message, mask) a case is about, as hex - for deriving related stimulus"""
    msg, mask = None, None
    if isinstance(case, dict):
        mask = case.get("mask") if isinstance(case.get("mask"), str) and len(case.get("mask")) == 6 else None
        if isinstance(case.get("msg"), str) and len(case["msg"]) == 18:
            msg = case["msg"]
        elif isinstance(case.get("msgs"), list) and case["msgs"]:
            msg = rng.choice(case["msgs"])
            mask = rng.choice(case["masks"]) if case.get("masks") else mask
        elif isinstance(case.get("word"), str) and len(case["word"]) == 24:
            msg = case["word"][:18]
        elif isinstance(case.get("a"), str) and len(case["a"]) == 18:
            msg = rng.choice([case["a"], case.get("b", case["a"])])
        elif "i" in case and "vi" in case and "j" in case:
            m = bytearray(9)
            m[case["i"]], m[case["j"]] = case["vi"], rng.randrange(1, 256)
            msg = bytes(m).hex()
        elif isinstance(case.get("a"), int) and isinstance(case.get("b"), int):
            m = bytearray(9)
            m[rng.randrange(9)], m[rng.randrange(9)] = case["a"] & 0xFF, case["b"] & 0xFF
            msg = bytes(m).hex()
    if msg is None or len(msg) != 18:
        msg = "%018x" % rng.getrandbits(72)
    if mask is None:
        mask = rng.choice(sorted(STD_MASKS.values()))
    return msg, mask


def prelude_for(sub, case, rng):
    """refused / negative / out-of-domain calls and near twins of the case's own message and mask"""
    msg, mask = _case_values(case, rng)
    return [{"x": "stim", "a": {"msg": msg, "mask": mask, "op": rs_random_stim(rng)}} for _ in range(3)]


def oracle_interleaved(case):
    """case = {msgs: [hex18...], masks: [hex6...], ops: [op...]}; op = {k: "gen", i, m, rep, mrep} | {k: "chk", i, m, m2, err: [[pos, v]...],
    rep, mrep} | {k: "mul", a, b} | stimulus {k: one of RS_STIM_KINDS, i, m, how, pos}.  Judged against vp/refs/gf256.py: every gen
    (message first, zero syndromes with the mask removed = the reference word), every chk (True exactly for zero-syndrome words),
    every mul.  Results of judged generate calls are retained and compared at the end; every (message, mask) pair used is
    generated and checked once more after the last operation."""
    msgs = [bytes.fromhex(x) for x in case["msgs"]]
    masks = [bytes.fromhex(x) for x in case["masks"]]
    kept, used = [], []

    def gen(msg, mask, rep, mrep, where):
        d, k = _octets(msg, rep), _octets(mask, mrep)
        got = call(RS().generate, d, k)[1]
        if not isinstance(got, (bytes, bytearray)) or len(got) != 12:
            raise Fail("generate_returns_12_octets", repr(got), "12 octets", where)
        if bytes(d) != msg or bytes(k) != mask:
            raise Fail("input_not_mutated", [bytes(d).hex(), bytes(k).hex()], [msg.hex(), mask.hex()], where)
        word = bytes(got)
        if word[:9] != msg:
            raise Fail("message_octets_first_unchanged", word[:9].hex(), msg.hex(), where)
        syn = gf256.syndromes(gf256.unmask(word, mask))
        if syn != [0, 0, 0]:
            raise Fail("zero_syndromes_with_mask_removed", {"word": word.hex(), "syndromes": syn}, {"word": bytes(gf256.rs_encode(list(msg), list(mask))).hex(), "syndromes": [0, 0, 0]}, where)
        kept.append((got, word))
        if (msg, mask) not in used:
            used.append((msg, mask))
        return word

    def chk(word, mask, rep, mrep, where):
        exp = gf256.is_codeword(list(word), list(mask))
        w = _octets(word, rep)
        ok = call(RS().check, w, _octets(mask, mrep))[1]
        if bytes(w) != word:
            raise Fail("input_not_mutated", bytes(w).hex(), word.hex(), where)
        if ok is not exp:
            raise Fail("checker_accepts_exactly_zero_syndrome_words", {"word": word.hex(), "mask": mask.hex(), "check": ok}, {"check": exp}, ("rejects_codeword" if exp else "accepts_non_codeword") + ":" + where)

    for op in case["ops"]:
        k = op["k"]
        msg = msgs[op.get("i", 0) % len(msgs)]
        mask = masks[op.get("m", 0) % len(masks)]
        if k == "gen":
            gen(msg, mask, op.get("rep", "bytes"), op.get("mrep", "bytes"), "op_gen")
        elif k == "chk":
            w = bytearray(gf256.rs_encode(list(msg), list(mask)))
            for p, v in op.get("err", []):
                w[p % 12] ^= v & 0xFF
            chk(bytes(w), masks[op.get("m2", op.get("m", 0)) % len(masks)], op.get("rep", "bytes"), op.get("mrep", "bytes"), "op_chk")
            if (msg, mask) not in used:
                used.append((msg, mask))
        elif k == "mul":
            oracle_multiply({"a": op["a"], "b": op["b"]})
        else:
            rs_run_stim(msg, mask, op)
    for obj, snap in kept:
        if bytes(obj) != snap:
            raise Fail("earlier_result_unchanged_by_later_calls", bytes(obj).hex(), snap.hex())
    for msg, mask in list(used):
        word = gen(msg, mask, "bytes", "bytes", "at_end_of_history")
        chk(word, mask, "bytes", "bytes", "at_end_of_history")


def _rs_stim_catalogue():
    out = []
    for how in _BAD_MASKS:
        out.append({"k": "gen_bad_mask", "how": how})
        out.append({"k": "chk_bad_mask", "how": how})
    for how in _BAD_DATA:
        for pos in ((0, 4, 8) if how.startswith("list_") else (0,)):
            out.append({"k": "gen_bad_data", "how": how, "pos": pos})
    for how in _BAD_WORD:
        for pos in ((0, 8, 9, 11) if how.startswith("list_") else (0,)):
            out.append({"k": "chk_bad_data", "how": how, "pos": pos})
    for pos in (0, 1, 2, 9, 10, 11):
        out.append({"k": "chk_false", "how": "errors", "pos": pos})
    out.append({"k": "chk_false", "how": "other_mask", "pos": 0})
    out.append({"k": "chk_false", "how": "other_mask", "pos": 254})
    out += [{"k": "chk_true", "how": "bytes"}, {"k": "chk_true", "how": "bytearray", "damage": True}]
    for how in RS_TWIN_KINDS + ["other_mask"]:
        out.append({"k": "gen_twin", "how": how, "pos": 3})
    for how in _MUL_BAD:
        out.append({"k": "mul_bad", "how": how, "pos": 2})
    for how in _XOR_BAD:
        out.append({"k": "xor_bad", "how": how})
    return out


def drv_interleaved(ctx: Ctx, sub: SubCheck):
    rng = ctx.rng("interleaved")
    std = sorted(STD_MASKS.values())
    judged = [
        {"k": "gen"}, {"k": "gen", "rep": "bytearray", "mrep": "memoryview"}, {"k": "chk", "err": []}, {"k": "chk", "err": [[10, 1]]}, {"k": "chk", "err": [], "m2": 1},
        {"k": "chk", "err": [], "rep": "bytearray", "mrep": "bytearray"}, {"k": "mul", "a": 0x53, "b": 0xCA},
    ]

    def rnd_msg(r):
        x = r.random()
        if x < 0.6:
            return bytes(r.getrandbits(8) for _ in range(9))
        m = bytearray(9)
        for _ in range(r.randrange(0, 4)):
            m[r.randrange(9)] = r.randrange(1, 256)
        return bytes(m)

    det = []
    for stim in _rs_stim_catalogue():
        m0 = rnd_msg(rng)
        tw = rs_twin(m0, rng.choice(RS_TWIN_KINDS[1:]), rng.randrange(256))
        mk = [std[rng.randrange(1, 3)], rng.choice([std[0], "%06x" % rng.getrandbits(24)])]
        for j in judged:
            det.append({"msgs": [m0.hex(), tw.hex()], "masks": mk, "ops": [dict(j, i=0, m=0), dict(stim, i=0, m=0), dict(j, i=0, m=0)]})
        det.append({"msgs": [m0.hex(), tw.hex()], "masks": mk, "ops": [dict(judged[0], i=0, m=0), dict(stim, i=1, m=1), dict(judged[2], i=0, m=0), dict(stim, i=0, m=0), dict(judged[0], i=1, m=0)]})
        det.append({"msgs": [m0.hex(), tw.hex()], "masks": mk, "ops": [dict(stim, i=0, m=0), dict(judged[0], i=1, m=1)]})
        det.append({"msgs": [m0.hex(), tw.hex()], "masks": mk, "ops": [dict(stim, i=0, m=0), dict(judged[2], i=0, m=0)]})
    # near twins generated / checked alternately: every twin kind x same / other mask
    for kind in RS_TWIN_KINDS:
        for pos in (0, 3, 8, 200):
            m0 = rnd_msg(rng)
            tw = rs_twin(m0, kind, pos)
            mk = [std[1 + pos % 2], std[2 - pos % 2], std[0]]
            det.append({"msgs": [m0.hex(), tw.hex()], "masks": mk, "ops": [{"k": "gen", "i": 0, "m": 0}, {"k": "gen", "i": 1, "m": 0}, {"k": "gen", "i": 0, "m": 1}, {"k": "chk", "i": 0, "m": 0, "err": []},
                                                                                   {"k": "chk", "i": 1, "m": 0, "m2": 1, "err": []}, {"k": "chk", "i": 1, "m": 1, "err": []}, {"k": "gen", "i": 1, "m": 2, "rep": "bytearray"}, {"k": "gen", "i": 0, "m": 0}]})
    chunks = [det[i::16] for i in range(16)]

    def is_judged(o):
        return o["k"] in ("gen", "chk", "mul")

    def cls_of(c):
        ks = [o["k"] for o in c["ops"] if not is_judged(o)]
        return "stimulus_" + ks[0] if ks else "judged_only"

    def nontriv(c):
        ks = [is_judged(o) for o in c["ops"]]
        return (False in ks and True in ks[ks.index(False):]) or len(set(c["msgs"])) > 1

    def random_history(r):
        m0, m1 = rnd_msg(r), rnd_msg(r)
        ops = []
        for _ in range(r.randrange(2, 10)):
            i, m, x = r.randrange(3), r.randrange(3), r.random()
            if x < 0.25:
                ops.append({"k": "gen", "i": i, "m": m, "rep": r.choice(DATA_REPS), "mrep": r.choice(MASK_REPS)})
            elif x < 0.45:
                err = [[r.randrange(12), r.randrange(1, 256)] for _ in range(r.choice([0, 0, 1, 1, 2, 3, 4]))]
                ops.append({"k": "chk", "i": i, "m": m, "m2": r.choice([m, m, r.randrange(3)]), "err": err, "rep": r.choice(DATA_REPS), "mrep": r.choice(MASK_REPS)})
            elif x < 0.5:
                ops.append({"k": "mul", "a": r.randrange(256), "b": r.randrange(256)})
            else:
                ops.append(dict(rs_random_stim(r), i=i, m=m))
        return {"msgs": [m0.hex(), rs_twin(m0, r.choice(RS_TWIN_KINDS), r.randrange(256)).hex(), m1.hex()], "masks": [r.choice(std[1:]), r.choice(std), "%06x" % r.getrandbits(24)], "ops": ops}

    n_random = ctx.pick(80, 1500)

    def work(item, t: Tally):
        r = ctx.rng("interleaved-random", item)
        todo = [(c, None) for c in chunks[item]] + [(random_history(r), True) for _ in range(n_random)]
        for n, (c, keyed) in enumerate(todo):
            if not ctx.run_case(sub.name, oracle_interleaved, c, t):
                # what a failing history left behind in this process may taint the next ones: report this one (it replays in a
                # fresh interpreter) and stop this worker
                t.excluded["histories not run after a failing history in the same worker"] += len(todo) - n - 1
                break
            t.case(sub.name, key=c if keyed else None, nontrivial=nontriv(c), cls=cls_of(c))
        if chunks[item]:
            t.sample(sub.name, chunks[item][0])

    ctx.shards(work, list(range(16)))
    ctx.tally.extra["interleaved_directed_histories"] = len(det)
    ctx.tally.notes.append(f"interleaved: {len(det)} directed histories (every refusable / negative / out-of-domain call shape of reed_solomon_12_9_4.py between two judged operations on the same message and mask, on a near twin, and first in the history) + 16 x {n_random} seeded random histories of 2..9 operations over a message, its near twin and a third message under three masks")



SUBCHECKS = [
    SubCheck("multiply", oracle_multiply, drv_multiply, "all 65536 products == shift-and-add GF(2^8) modulo 0x11D"),
    SubCheck("generate_basis", oracle_generate, drv_generate_basis, "zero + all 9x255 single-symbol messages x 3 masks: systematic, zero syndromes, accepted"),
    SubCheck("generate_two_symbol", oracle_two_symbol, drv_two_symbol, "two-symbol messages (complete in thorough): generate == message || reference parity ^ mask"),
    SubCheck("extreme_parity", oracle_extreme_parity, drv_extreme_parity, "messages constructed so that the returned parity octets are 000000 / ffffff / 000001 / 800000 / fffffe / 7fffff / mask / ~mask under each standard mask"),
    SubCheck("generate_random", oracle_generate, drv_generate_random, "Hypothesis messages x masks: systematic, zero syndromes with the mask removed, accepted"),
    SubCheck("linearity", oracle_linearity, drv_linearity, "generate is GF(256)-linear with mask 0 and the mask is an XOR on the parity octets"),
    SubCheck("check_word", oracle_check_word, drv_check_word, "check(word, mask) == zero syndromes of the unmasked word, both directions"),
    SubCheck("fault_single", oracle_fault, drv_fault_single, "all 12x255 single-symbol errors per sampled codeword rejected"),
    SubCheck("fault_double", oracle_fault, drv_fault_double, "double-symbol errors (complete for one codeword in thorough) rejected"),
    SubCheck("fault_triple", oracle_fault, drv_fault_triple, "sampled triple-symbol errors rejected"),
    SubCheck("mask_change", oracle_mask_change, drv_mask_change, "a generated word is rejected under any other mask"),
    SubCheck("interleaved", oracle_interleaved, drv_interleaved, "histories: judged generate / check / multiply with rightly refused calls (unusable mask, wrong length or type, list message out of range at position k), rightly negative checks, out-of-domain arguments and near twins in between; earlier results re-inspected and every pair re-judged at the end"),
]
PREDICATES = {}
