"""C05 — each DMR CRC equals the polynomial remainder the standard defines, with its mask.

Engines (CRC-7/8/9/16/32, bitwise and table-driven calculators, the class-level CALC singletons, single calls and
call histories) against the GF(2) polynomial division of vp/refs/gf2.py for every length 0..400; front ends (CRC8, CRC9,
CRC9.calculate_from_parts, CRC16, CRC32) against vp/refs/crc_ref.py (inversion, data-type mask, octet-pair swap written
from ETSI TS 102 361-1 B.3.7-B.3.12); `check`/`verify_checksum` accept exactly the computed value; detection of every
burst no longer than the CRC width and of every 1..3-bit error of a 96-bit CRC-CCITT PDU through the library API.

Domain note (DESIGN.md §4 C05): bit strings are big-endian `bitarray`s (the library default); the only little-endian
array in the library is built inside CRC32.calculate and is reached through that front end.
"""
from __future__ import annotations

import importlib
import itertools
import json

from bitarray import bitarray, frozenbitarray
from bitarray.util import ba2int

from vp.core import Ctx, Fail, HarnessError, SubCheck, Tally, call
from vp.refs import crc_ref

LEVEL = "exploration"
RULE = (
    "engines: configurations {crc7,crc8,crc9,crc16,crc32} x EVERY length 0..400 x {zero word, all-ones, seeded random "
    "contents} (enumeration over lengths), all unit vectors of lengths {w-1,w,w+1,2w+3,96,183,400}, Hypothesis-drawn "
    "(config, length, contents, previous message) and GF(2)-linearity pairs; each case runs a freshly built bitwise and "
    "table calculator plus the class-level CALC singleton (reset to import-time state), each after a 'previous' message "
    "(none, random, or related: zero-extended inside the same octet, one bit shorter, last / first bit inverted) that "
    "dirties the calculator; the bit sequence is handed over in rotating containers (big / little-endian bitarray, "
    "frozenbitarray of either bit order for the bitwise register; big-endian bitarray / frozenbitarray for the table register "
    "and the bit-level front ends; bytes / bytearray / memoryview for the octet front ends).  Verify consistency: every "
    "config x {bitwise, table, CALC singleton} x all four bit containers (incl. little-endian arrays on the table register, "
    "where only the consistency clause is in scope) on Hypothesis-drawn bit strings and on arrays built exactly like the "
    "octet front ends build them (bytes_to_bits(octets, 'big' | 'little')): verify_checksum accepts the value "
    "calculate_checksum returns and refuses all its single-bit neighbours and value +-1.  Streaming: the register "
    "workflow init(); update() x n; digest() on Hypothesis-drawn chunk lists (empty, one-bit, chunks starting with 1..3 "
    "whole feeds of zeros, a long message cut at random points, a second round on the same register) plus directed "
    "loaded-register-then-z-zeros chunks for z = 0..3 feeds + 1, both register classes, all five configurations.  Histories: Hypothesis-drawn sequences of 2..10 random / related messages through ONE "
    "calculator or front end starting from freshly re-imported modules.  Front ends: Hypothesis-drawn bit strings 0..400 (CRC8, CRC9 x 3 masks), octet strings 0..64 (CRC16 x 5 "
    "masks, CRC32), CRC-9 parts (data 0..24 octets, serial 0..127, crc32 absent / int in [1,2^32) / 4 octets).  Acceptance: "
    "all 2^w check values for w<=16 on sampled messages, computed value +-1 and all single-bit neighbours elsewhere.  "
    "Extreme outputs: for every engine configuration and front end (x mask) several message shapes with a solved window "
    "(GF(2) elimination on the reference's affine map) whose CRC is exactly 0 / all ones / 1 / top bit only / all ones - 1 / "
    "top bit clear.  Detection: ALL error patterns of weight 1..3 over the 96 bits (80 data + 16 CRC) of a CRC-CCITT PDU per sampled "
    "(message, mask); bursts: all 2^(w-1) burst patterns for w<=9 (w=16: all in thorough, sampled in quick; w=32 sampled) "
    "at sampled offsets, through engines and front ends.  Distinct = hash of the case (Hypothesis parts) or distinct by "
    "construction (enumerations).  Non-trivial: engine / bit-level front-end cases whose length is >= one table feed and "
    "not a multiple of the feed width (partial-feed fallback after >= 1 table step) with non-zero contents; octet front "
    "ends: >= 2 octets, non-zero; every error pattern; histories with >= 2 distinct messages.  Interleaved histories (from "
    "freshly re-imported modules, on the front-end singletons and one bitwise / table calculator and register per "
    "configuration that live as long as the history): judged front-end (calculate / accept / refuse in varying order), engine "
    "and streamed operations with stimulus in between - for each argument of each entry point every refusable shape (None, "
    "wrong type, wrong length, out of range, iterables of parts, a generator raising after its first part; serial numbers "
    "128 / 255 / 1000 / -1; CRC-32 fields of 0 / 3 / 5 octets, negative, 2^32+7; masks None / int / other width), rightly "
    "negative checks, accepted out-of-domain arguments, abandoned / damaged register rounds - complete over these shapes x "
    "{same operation again, engine form on the shared singleton, sibling front end} (directed), near twins of a message "
    "(mask, CRC-32 present / form / one bit, serial number, trailing zeros, first / last bit) through the same singleton with "
    "every step order, plus seeded random histories of 2..8 operations; every judged operation is judged again at the end."
)
ASSUMPTIONS = [
    "bit strings are big-endian bitarrays (library default); little-endian arrays make the two register modes disagree and "
    "are outside the claimed domain (DESIGN.md §4 C05 domain note); containers are only varied where the unchanged tree accepts "
    "them and is right (probed 2026-09: bitwise register - any bit order, frozen or not; table register, CALC singletons, "
    "CRC8, CRC9.calculate - big-endian bitarray / frozenbitarray; CRC16 / CRC32 / calculate_from_parts - bytes, bytearray, "
    "memoryview); the expected value always comes from the bit sequence, never from the container; a non-default container "
    "that an entry point declines with a clean TypeError / AttributeError / ValueError / NotImplementedError is counted as "
    "'not_accepted' and skipped (policy of vp/containers.py: which containers are accepted is not part of the property)",
    "reference = polynomial division over GF(2) (vp/refs/gf2.py) with generator polynomials, inversion rule, masks and "
    "octet-pair swap written from ETSI TS 102 361-1 annex B.3 (vp/refs/crc_ref.py), unit-checked against values captured "
    "from real radios",
    "CRC-32: equality with the reference is claimed for even octet counts (the standard swaps octet pairs; an unpaired last "
    "octet is not defined there); odd counts are only checked for calculate/check consistency",
    "detection guarantees are derived, not assumed: bursts <= w from gcd(G,x)=1; weight 2 from 'x^d != 1 mod G for d < word "
    "length'; weight 3 from (x+1) | G (crc_ref.guaranteed_weights)",
    "CRC9.calculate_from_parts: crc32 given as int 0 means 'absent' (documented sentinel of the PDU classes) and is not generated",
    "every oracle call starts from a defined library state: calculators are built inside the oracle and CRCn.CALC is re-created "
    "with the class body's own expression BitCrcCalculator(table_based=True, configuration=CrcN.ETSI_DMR) (the history "
    "sub-check re-imports the modules instead); state carried across calls is therefore observed inside one case "
    "('prev', 'msgs'), never between cases - replay files reproduce",
    "interleaved: a stimulus (refused call, negative check, out-of-domain argument, abandoned or damaged register round - the "
    "caller may write the public `register` property; the next round starts with init()) is never judged - only the operations "
    "of the statement around it, on the same long-lived objects, are; because every oracle rebuilds its calculators, the "
    "framework's preludes reach only state outside them (helpers, module caches) and the in-history form is this sub-check; a "
    "worker stops after its first failing history so that every reported history is self-contained",
]

CFGS = ["crc7", "crc8", "crc9", "crc16", "crc32"]
_FEED = {}


def feed(cfg):
    """Table feed width the library derives for this configuration (only used to classify cases; any width is acceptable
    as long as both register modes return the remainder)."""
    cfg = {"crc9_parts": "crc9"}.get(cfg, cfg)
    if cfg not in _FEED:
        f = lib_cfg(cfg).value.feed_width_bits
        _FEED[cfg] = f if isinstance(f, int) and f >= 1 else 1
    return _FEED[cfg]


# ---------------------------------------------------------------------------------------------- library access


def _lib():
    from okdmr.dmrlib.etsi.crc import crc as m

    return m


def lib_cfg(cfg):
    m = _lib()
    return {"crc7": m.Crc7, "crc8": m.Crc8, "crc9": m.Crc9, "crc16": m.Crc16, "crc32": m.Crc32}[cfg].ETSI_DMR


FE_MODULE = {"crc8": ("okdmr.dmrlib.etsi.crc.crc8", "CRC8"), "crc9": ("okdmr.dmrlib.etsi.crc.crc9", "CRC9"),
             "crc16": ("okdmr.dmrlib.etsi.crc.crc16", "CRC16"), "crc32": ("okdmr.dmrlib.etsi.crc.crc32", "CRC32")}


def fe_class(cfg):
    """CRC8 / CRC9 / CRC16 / CRC32 front-end class (looked up at call time: the history oracle reloads the modules)."""
    if cfg not in FE_MODULE:
        return None
    mod, name = FE_MODULE[cfg]
    return getattr(importlib.import_module(mod), name)


def reset_singleton(cfg):
    """Put the class-level calculator of a front end back into its import-time state by re-evaluating the expression of
    the class body (BitCrcCalculator(table_based=True, configuration=CrcN.ETSI_DMR)): an oracle call must not depend on
    what earlier cases left behind in a long-lived object (purity; replay files must reproduce).  Histories on ONE
    long-lived calculator are the business of the `history` sub-check and of the `prev` message inside a case."""
    restore_cached_table(cfg)
    cls = fe_class(cfg)
    if cls is None:
        return None
    cls.CALC = call(_lib().BitCrcCalculator, table_based=True, configuration=lib_cfg(cfg))[1]
    return cls.CALC


def pristine_modules(cfg):
    """Re-import the engine module and the front-end module: import-time state of everything (table cache, singletons)."""
    importlib.reload(importlib.import_module("okdmr.dmrlib.etsi.crc.crc"))
    if cfg in FE_MODULE:
        importlib.reload(importlib.import_module(FE_MODULE[cfg][0]))


_PRISTINE_TABLES = {}


def restore_cached_table(cfg):
    """The table register shares one cached lookup table per (width, polynomial) across all calculators of the process
    (functools cache of the public bits_create_lookup_table).  Keep a private copy taken before the first use and put the
    shared list back to it before an oracle runs, so that a table damaged by an earlier case cannot leak into this one
    (damage done and visible inside one case is still judged there)."""
    fn = getattr(_lib(), "bits_create_lookup_table", None)
    if fn is None or not hasattr(fn, "cache_info"):
        return
    # first call in this process tree: nothing has been calculated yet (every oracle starts here) - copy all five tables
    for c in [cfg] if _PRISTINE_TABLES else CFGS:
        w = crc_ref.WIDTH[c]
        try:
            tbl = fn(w, crc_ref.GENERATORS[c] ^ (1 << w))
        except Exception:
            continue
        if not isinstance(tbl, list):
            continue
        mine = _PRISTINE_TABLES.get(c)
        if mine is None or len(mine) != len(tbl):
            _PRISTINE_TABLES[c] = [b.copy() if isinstance(b, bitarray) else b for b in tbl]
        elif tbl != mine:
            tbl[:] = [b.copy() if isinstance(b, bitarray) else b for b in mine]


def calculators(cfg):
    """[(label, calculator)]: a freshly built bitwise and a freshly built table calculator and the class-level CALC
    singleton (reset to its import-time state) - all local to the calling oracle."""
    m = _lib()
    out = [
        ("bitwise", call(m.BitCrcCalculator, lib_cfg(cfg), table_based=False)[1]),
        ("table", call(m.BitCrcCalculator, lib_cfg(cfg), table_based=True)[1]),
    ]
    s = reset_singleton(cfg)
    if s is not None:
        out.append(("class_singleton", s))
    return out


def masks():
    from okdmr.dmrlib.etsi.layer2.elements.crc_masks import CrcMasks

    return CrcMasks


def lib_mask(name):
    """Library mask member; its value must be the standard's."""
    try:
        mk = masks()[name]
    except KeyError:
        raise Fail("mask_defined", f"CrcMasks has no member {name}", "member present")
    if mk.value != crc_ref.ALL_MASKS[name]:
        raise Fail("mask_value_is_standard", {name: hex(mk.value)}, {name: hex(crc_ref.ALL_MASKS[name])})
    return mk


def _is_int(v):
    return isinstance(v, int) and not isinstance(v, bool)


def _neighbours(v, w):
    return sorted(({v ^ (1 << k) for k in range(w)} | {(v + 1) % (1 << w), (v - 1) % (1 << w)}) - {v})


# ---------------------------------------------------------------------------------------------- containers (lesson A.1)

BIT_REPS_ANY = ["big", "little", "frozen_big", "frozen_little"]  # accepted and right on the bitwise register
BIT_REPS_TABLE = ["big", "frozen_big"]  # table register / singletons / CRC8 / CRC9.calculate (little endian: domain note)
OCTET_REPS = ["bytes", "bytearray", "memoryview"]


REJECTIONS = (TypeError, AttributeError, ValueError, NotImplementedError)  # same policy as vp/containers.py


class NotAccepted(Exception):
    """the library declined a non-default container with a clean TypeError / AttributeError / ValueError / NotImplementedError:
    which containers an entry point accepts is not part of the property; once accepted the result must be right"""


def ccall(rep, fn, *a):
    """call(); for a non-default container a clean rejection is 'container not accepted' instead of a violation"""
    if rep in (None, "big", "bytes"):
        return call(fn, *a)[1]
    st, res = call(fn, *a, allowed=REJECTIONS)
    if st == "raised":
        raise NotAccepted(f"{type(res).__name__}: {res}")
    return res


def make_bits(s, rep="big"):
    """the bit SEQUENCE s in the given container; the expected CRC is always computed from s, never from the container"""
    rep = rep or "big"
    b = bitarray(s, endian="little" if rep.endswith("little") else "big")
    return frozenbitarray(b) if rep.startswith("frozen") else b


def table_rep(rep):
    """the nearest container the table register is specified for (big-endian bit order)"""
    rep = rep or "big"
    return "frozen_big" if rep.startswith("frozen") else "big"


def make_octets(hexstr, rep="bytes"):
    raw = bytes.fromhex(hexstr)
    rep = rep or "bytes"
    return bytearray(raw) if rep == "bytearray" else memoryview(raw) if rep == "memoryview" else raw


def _same_bits(arg, s, label, what="input_not_mutated"):
    if arg.to01() != s:
        raise Fail(what, arg.to01(), s, label)


# ---------------------------------------------------------------------------------------------- engine oracles


def oracle_engine(case):
    """case = {cfg, bits: '0101…', prev: '01…'|None, rep: container}: every calculator returns M(x)x^w mod G as a w-bit bitarray."""
    cfg, s, prev = case["cfg"], case["bits"], case.get("prev")
    w = crc_ref.WIDTH[cfg]
    expected = crc_ref.rem(cfg, crc_ref.bits_of(s))
    for label, calc in calculators(cfg):
        rep = case.get("rep") if label == "bitwise" else table_rep(case.get("rep"))
        try:
            if prev is not None:
                ccall(rep, calc.calculate_checksum, make_bits(prev, rep))
            arg = make_bits(s, rep)
            got = ccall(rep, calc.calculate_checksum, arg)
            _same_bits(arg, s, label)
            if not isinstance(got, bitarray) or len(got) != w:
                raise Fail("checksum_is_w_bits", repr(got), f"bitarray of {w} bits", label)
            if got.to01() != format(expected, f"0{w}b"):
                raise Fail("engine_equals_polynomial_remainder", got.to01(), format(expected, f"0{w}b"), label)
            ok = ccall(rep, calc.verify_checksum, make_bits(s, rep), expected)
            if ok is not True:
                raise Fail("verify_accepts_computed_value", ok, True, label)
            wrongs = _neighbours(expected, w) if case.get("neighbours") else [expected ^ (1 << (len(s) % w))]
            for wrong in wrongs:
                ok = ccall(rep, calc.verify_checksum, make_bits(s, rep), wrong)
                if ok is not False:
                    raise Fail("verify_rejects_other_value", {"value": hex(wrong), "result": ok}, {"value": hex(wrong), "result": False}, label)
        except NotAccepted:
            case["_container_not_accepted"] = True


def oracle_linearity(case):
    """case = {cfg, a, b} equal lengths: crc(a^b) == crc(a)^crc(b) in both modes (init value 0 => linear)."""
    cfg = case["cfg"]
    a, b = bitarray(case["a"]), bitarray(case["b"])
    for label, calc in calculators(cfg)[:2]:
        ca, cb, cab = (call(calc.calculate_checksum, x.copy())[1] for x in (a, b, a ^ b))
        if cab != (ca ^ cb):
            raise Fail("engine_gf2_linear", cab.to01(), (ca ^ cb).to01(), label)


# ---------------------------------------------------------------------------------------------- front-end oracles


def _fe_call(fe, msg):
    """Call a front end on a message description (plain JSON) -> int."""
    if fe == "crc8":
        from okdmr.dmrlib.etsi.crc.crc8 import CRC8

        arg = make_bits(msg["bits"], msg.get("rep"))
        v = ccall(msg.get("rep"), CRC8.calculate, arg)
        _same_bits(arg, msg["bits"], fe)
        return v
    if fe == "crc9":
        from okdmr.dmrlib.etsi.crc.crc9 import CRC9

        arg = make_bits(msg["bits"], msg.get("rep"))
        v = ccall(msg.get("rep"), CRC9.calculate, arg, lib_mask(msg["mask"]))
        _same_bits(arg, msg["bits"], fe)
        return v
    if fe == "crc9_parts":
        from okdmr.dmrlib.etsi.crc.crc9 import CRC9

        arg = make_octets(msg["data"], msg.get("rep"))
        v = ccall(msg.get("rep"), CRC9.calculate_from_parts, arg, msg["sn"], lib_mask(msg["mask"]), _crc32_arg(msg))
        _same_octets(arg, msg["data"], fe)
        return v
    if fe == "crc16":
        from okdmr.dmrlib.etsi.crc.crc16 import CRC16

        arg = make_octets(msg["data"], msg.get("rep"))
        v = ccall(msg.get("rep"), CRC16.calculate, arg, lib_mask(msg["mask"]))
        _same_octets(arg, msg["data"], fe)
        return v
    if fe == "crc32":
        from okdmr.dmrlib.etsi.crc.crc32 import CRC32

        arg = make_octets(msg["data"], msg.get("rep"))
        v = ccall(msg.get("rep"), CRC32.calculate, arg)
        _same_octets(arg, msg["data"], fe)
        return v
    raise HarnessError(f"unknown front end {fe}")


def _same_octets(arg, hexstr, label):
    if bytes(arg).hex() != hexstr:
        raise Fail("input_not_mutated", bytes(arg).hex(), hexstr, label)


def _crc32_arg(msg):
    c = msg.get("crc32")
    if c is None:
        return None
    if msg.get("crc32_as", "int") == "bytes":
        return make_octets(c.to_bytes(4, "big").hex(), msg.get("rep"))
    if c == 0:
        raise HarnessError("crc32 == 0 as int is the 'absent' sentinel and must not be generated")
    return c


def _fe_check(fe, msg, value):
    if fe == "crc8":
        from okdmr.dmrlib.etsi.crc.crc8 import CRC8

        return ccall(msg.get("rep"), CRC8.check, make_bits(msg["bits"], msg.get("rep")), value)
    if fe in ("crc9", "crc9_parts"):
        from okdmr.dmrlib.etsi.crc.crc9 import CRC9

        if fe == "crc9":
            return None  # CRC9.check exists for the parts form only
        return ccall(msg.get("rep"), CRC9.check, make_octets(msg["data"], msg.get("rep")), msg["sn"], value, lib_mask(msg["mask"]), _crc32_arg(msg))
    if fe == "crc16":
        from okdmr.dmrlib.etsi.crc.crc16 import CRC16

        return ccall(msg.get("rep"), CRC16.check, make_octets(msg["data"], msg.get("rep")), value, lib_mask(msg["mask"]))
    if fe == "crc32":
        from okdmr.dmrlib.etsi.crc.crc32 import CRC32

        return ccall(msg.get("rep"), CRC32.check, make_octets(msg["data"], msg.get("rep")), value)
    raise HarnessError(f"unknown front end {fe}")


FE_WIDTH = {"crc8": 8, "crc9": 9, "crc9_parts": 9, "crc16": 16, "crc32": 32}
FE_CFG = {"crc8": "crc8", "crc9": "crc9", "crc9_parts": "crc9", "crc16": "crc16", "crc32": "crc32"}


def fe_message_bits(fe, msg):
    """The message polynomial M(x) (MSB-first bit list) the standard defines for this front-end call."""
    if fe in ("crc8", "crc9"):
        return crc_ref.bits_of(msg["bits"])
    if fe == "crc9_parts":
        c = msg.get("crc32")
        return crc_ref.crc9_message(bytes.fromhex(msg["data"]), msg["sn"], None if c is None else c.to_bytes(4, "big"))
    if fe == "crc16":
        return crc_ref.bytes_to_bitlist(bytes.fromhex(msg["data"]))
    if fe == "crc32":
        return crc_ref.bytes_to_bitlist(crc_ref.pair_swap(bytes.fromhex(msg["data"])))
    raise HarnessError(fe)


def fe_message_from_bits(fe, msg, bits):
    """Inverse of fe_message_bits: same call shape, contents replaced."""
    out = dict(msg)
    s = "".join(map(str, bits))
    if fe in ("crc8", "crc9"):
        out["bits"] = s
    elif fe == "crc9_parts":
        nd = len(bytes.fromhex(msg["data"])) * 8
        out["data"] = _bits_to_hex(bits[:nd])
        rest = bits[nd:]
        if msg.get("crc32") is not None:
            c = int("".join(map(str, rest[:32])), 2)
            out["crc32"] = c
            if c == 0:
                out["crc32_as"] = "bytes"  # int 0 would mean 'absent' (a message of another length)
            rest = rest[32:]
        out["sn"] = int("".join(map(str, rest)), 2)
    elif fe == "crc16":
        out["data"] = _bits_to_hex(bits)
    elif fe == "crc32":
        out["data"] = crc_ref.pair_swap(bytes.fromhex(_bits_to_hex(bits))).hex()
    return out


def _bits_to_hex(bits):
    assert len(bits) % 8 == 0
    return "%0*x" % (len(bits) // 4, int("".join(map(str, bits)) or "0", 2)) if bits else ""


def fe_expected(fe, msg):
    bits = fe_message_bits(fe, msg)
    if fe == "crc8":
        return crc_ref.crc8(bits)
    if fe in ("crc9", "crc9_parts"):
        return crc_ref.crc9(bits, crc_ref.MASKS9[msg["mask"]])
    if fe == "crc16":
        return crc_ref.crc16(bytes.fromhex(msg["data"]), crc_ref.MASKS16[msg["mask"]])
    if fe == "crc32":
        return crc_ref.crc32(bytes.fromhex(msg["data"]))


def _reference_applies(fe, msg):
    return not (fe == "crc32" and len(bytes.fromhex(msg["data"])) % 2 == 1)


def _oracle_front(case):
    """case = {fe, msg, prev: msg|None, values: 'neighbours'|'all'}: value equals the reference; check() accepts exactly it."""
    fe, msg = case["fe"], case["msg"]
    w = FE_WIDTH[fe]
    reset_singleton(FE_CFG[fe])
    if case.get("prev") is not None:
        _fe_call(fe, case["prev"])
    got = _fe_call(fe, msg)
    if not _is_int(got) or not (0 <= got < (1 << w)):
        raise Fail("front_end_returns_w_bit_int", repr(got), f"int in [0, 2^{w})", fe)
    if _reference_applies(fe, msg):
        exp = fe_expected(fe, msg)
        if got != exp:
            raise Fail("front_end_equals_standard", hex(got), hex(exp), fe)
    again = _fe_call(fe, msg)
    if again != got:
        raise Fail("front_end_deterministic", hex(again), hex(got), fe)
    if fe == "crc9_parts":
        # the parts form is CRC9.calculate over data || crc32 || 7-bit serial number
        direct = _fe_call("crc9", {"bits": "".join(map(str, fe_message_bits(fe, msg))), "mask": msg["mask"]})
        if direct != got:
            raise Fail("parts_equal_calculate_over_concatenation", hex(got), hex(direct), fe)
        if msg.get("crc32") is not None:
            other = dict(msg, crc32_as="bytes" if msg.get("crc32_as", "int") == "int" else "int")
            if other["crc32"] != 0 and _fe_call(fe, other) != got:
                raise Fail("crc32_int_and_bytes_forms_agree", hex(_fe_call(fe, other)), hex(got), fe)
    if fe == "crc9":
        return
    ok = _fe_check(fe, msg, got)
    if ok is not True:
        raise Fail("check_accepts_computed_value", ok, True, fe)
    vals = range(1 << w) if case.get("values") == "all" else _neighbours(got, w)
    for v in vals:
        if v == got:
            continue
        ok = _fe_check(fe, msg, v)
        if ok is not False:
            raise Fail("check_rejects_every_other_value", {"value": hex(v), "result": ok}, {"value": hex(v), "result": False}, fe)


def oracle_front(case):
    """see _oracle_front; a non-default container that the front end declines cleanly is outside the domain"""
    try:
        _oracle_front(case)
    except NotAccepted:
        case["_container_not_accepted"] = True


def oracle_captured(case):
    """case = {fe, msg, captured}: values captured from real radios (repository test vectors): reference and library agree with them."""
    fe, msg = case["fe"], case["msg"]
    reset_singleton(FE_CFG[fe])
    if fe_expected(fe, msg) != case["captured"]:
        raise HarnessError(f"reference disagrees with captured vector {case}")
    got = _fe_call(fe, msg)
    if got != case["captured"]:
        raise Fail("front_end_equals_captured_value", hex(got), hex(case["captured"]), fe)
    oracle_front({"fe": fe, "msg": msg})


# ---------------------------------------------------------------------------------------------- extreme output values


def oracle_extreme(case):
    """case = {target: 'engine:<cfg>' | front end, msg, want: int}: a message CONSTRUCTED (GF(2) linear algebra on the
    reference) so that its CRC is exactly an edge value of the output range (0, all ones, 1, top bit only, all ones - 1,
    top bit clear).  The reference must hit the value (else harness error); then the usual clauses: value equals the
    reference in every mode, check / verify accepts exactly it and rejects every single-bit neighbour and value +-1
    including the wrap-around neighbours 0 <-> all ones."""
    target, msg, want = case["target"], case["msg"], case["want"]
    if target.startswith("engine:"):
        cfg = target.split(":")[1]
        if crc_ref.rem(cfg, crc_ref.bits_of(msg["bits"])) != want:
            raise HarnessError(f"construction failed: reference CRC is not {hex(want)} for {case}")
        oracle_engine({"cfg": cfg, "bits": msg["bits"], "prev": case.get("prev"), "neighbours": True})
        return
    fe = target
    if not _reference_applies(fe, msg) or fe_expected(fe, msg) != want:
        raise HarnessError(f"construction failed: reference CRC is not {hex(want)} for {case}")
    oracle_front({"fe": fe, "msg": msg, "prev": case.get("prev"), "values": "neighbours"})


# ---------------------------------------------------------------------------------------------- verify consistency (any container)


def _consistency_arg(case, rep):
    """the message object: a bit sequence in a container, or (octets, bit order) exactly as bytes_to_bits(octets, order)
    builds it - CRC16 hands bytes_to_bits(data) (big), CRC32 hands bytes_to_bits(byteswap_bytes(data), 'little')"""
    if "octets" in case:
        b = bitarray(endian=case["order"])
        b.frombytes(bytes.fromhex(case["octets"]))
        return frozenbitarray(b) if (rep or "").startswith("frozen") else b
    return make_bits(case["bits"], rep)


def oracle_verify_consistency(case):
    """case = {cfg, bits | (octets, order), rep, prev}: the statement's last clause is a CONSISTENCY clause and holds for every
    container a calculator accepts, whether or not its value is the reference remainder there (little-endian arrays on the
    table register are outside the value clauses, see the domain note): calculate_checksum is deterministic, a w-bit
    bitarray, and verify_checksum accepts exactly ba2int(calculate_checksum(data)) - every single-bit neighbour and value
    +-1 (with wrap-around) is refused.  Where the value clause is in scope (bitwise register: the index-order bit sequence;
    table register and singletons: big-endian bit order) the value must also be the reference remainder."""
    cfg = case["cfg"]
    w = crc_ref.WIDTH[cfg]
    rep = case.get("rep") or ("little" if case.get("order") == "little" else "big")
    seq = _consistency_arg(case, rep).to01()
    for label, calc in calculators(cfg):
        try:
            if case.get("prev") is not None:
                ccall(rep, calc.calculate_checksum, make_bits(case["prev"], rep))
            arg = _consistency_arg(case, rep)
            got = ccall(rep, calc.calculate_checksum, arg)
            _same_bits(arg, seq, label)
            if not isinstance(got, bitarray) or len(got) != w:
                raise Fail("checksum_is_w_bits", repr(got), f"bitarray of {w} bits", label)
            again = ccall(rep, calc.calculate_checksum, _consistency_arg(case, rep))
            if again.to01() != got.to01():
                raise Fail("calculate_deterministic", again.to01(), got.to01(), f"{label}:{rep}")
            if label == "bitwise" or not rep.endswith("little"):
                exp = format(crc_ref.rem(cfg, crc_ref.bits_of(seq)), f"0{w}b")
                if got.to01() != exp:
                    raise Fail("engine_equals_polynomial_remainder", got.to01(), exp, label)
            v = int(got.to01(), 2)
            ok = ccall(rep, calc.verify_checksum, _consistency_arg(case, rep), v)
            if ok is not True:
                raise Fail("verify_accepts_the_value_calculate_returns", {"value": hex(v), "result": ok}, {"value": hex(v), "result": True}, f"{label}:{rep}")
            for other in _neighbours(v, w):
                ok = ccall(rep, calc.verify_checksum, _consistency_arg(case, rep), other)
                if ok is not False:
                    raise Fail("verify_refuses_every_other_value", {"computed": hex(v), "value": hex(other), "result": ok}, {"computed": hex(v), "value": hex(other), "result": False}, f"{label}:{rep}")
        except NotAccepted:
            case["_container_not_accepted"] = True
    if cfg == "crc8":
        # the bit-level front end with a check(): the same consistency clause, any container
        from okdmr.dmrlib.etsi.crc.crc8 import CRC8

        try:
            v = ccall(rep, CRC8.calculate, _consistency_arg(case, rep))
            if not _is_int(v) or not 0 <= v < 256:
                raise Fail("front_end_returns_w_bit_int", repr(v), "int in [0, 2^8)", f"crc8:{rep}")
            if ccall(rep, CRC8.check, _consistency_arg(case, rep), v) is not True:
                raise Fail("check_accepts_computed_value", False, True, f"crc8:{rep}")
            for other in _neighbours(v, 8):
                if ccall(rep, CRC8.check, _consistency_arg(case, rep), other) is not False:
                    raise Fail("check_rejects_every_other_value", {"computed": hex(v), "value": hex(other), "result": True}, {"computed": hex(v), "value": hex(other), "result": False}, f"crc8:{rep}")
        except NotAccepted:
            case["_container_not_accepted"] = True


# ---------------------------------------------------------------------------------------------- streaming interface (lesson A.5)


def _oracle_streaming(case):
    """case = {cfg, mode: bitwise|table, rounds: [[chunk, …], …], rep}: the documented register workflow init(); update() 1..n
    times; digest() on ONE register object, once per round.  After every update() the returned register is the remainder
    of all bits fed so far in this round, digest() is the remainder of the concatenation (= what the one-shot calculator
    returns for it), whatever the split points - chunks may be empty, one bit long, or start with whole feeds of zeros."""
    cfg, mode = case["cfg"], case["mode"]
    w = crc_ref.WIDTH[cfg]
    restore_cached_table(cfg)
    m = _lib()
    reg = call(m.TableBasedBitCrcRegister if mode == "table" else m.BitCrcRegister, lib_cfg(cfg))[1]
    rep = case.get("rep") if mode == "bitwise" else table_rep(case.get("rep"))
    for rnd, chunks in enumerate(case["rounds"]):
        call(reg.init)
        sofar = ""
        for k, ch in enumerate(chunks):
            arg = make_bits(ch, rep)
            ret = ccall(rep, reg.update, arg)
            _same_bits(arg, ch, mode)
            sofar += ch
            exp = format(crc_ref.rem(cfg, crc_ref.bits_of(sofar)), f"0{w}b")
            if not isinstance(ret, bitarray) or ret.to01() != exp:
                raise Fail("update_returns_remainder_of_bits_fed_so_far", {"round": rnd, "chunk": k, "register": ret.to01() if isinstance(ret, bitarray) else repr(ret)},
                           {"round": rnd, "chunk": k, "register": exp}, mode)
        exp = format(crc_ref.rem(cfg, crc_ref.bits_of(sofar)), f"0{w}b")
        for again in (0, 1):
            dig = call(reg.digest)[1]
            if not isinstance(dig, bitarray) or dig.to01() != exp:
                raise Fail("streamed_digest_equals_polynomial_remainder", {"round": rnd, "digest_call": again, "digest": dig.to01() if isinstance(dig, bitarray) else repr(dig)},
                           {"round": rnd, "digest_call": again, "digest": exp}, mode)
        one_shot = ccall(rep, call(m.BitCrcCalculator, lib_cfg(cfg), table_based=(mode == "table"))[1].calculate_checksum, make_bits(sofar, rep))
        if one_shot.to01() != exp:
            raise Fail("engine_equals_polynomial_remainder", one_shot.to01(), exp, mode)


def oracle_streaming(case):
    """see _oracle_streaming; a non-default container that update() declines cleanly is outside the domain"""
    try:
        _oracle_streaming(case)
    except NotAccepted:
        case["_container_not_accepted"] = True


# ---------------------------------------------------------------------------------------------- histories


def oracle_history(case):
    """case = {target: 'engine:<cfg>:<bitwise|table|singleton>' | front end, msgs: [msg, …]}: ONE calculator (or one front
    end with its class-level singleton), starting from import-time state, is fed all messages in order; every result is
    the reference value of that message alone - the register is re-initialised on every calculation and nothing else
    survives a call."""
    target, msgs = case["target"], case["msgs"]
    if target.startswith("engine:"):
        _, cfg, mode = target.split(":")
        restore_cached_table(cfg)
        pristine_modules(cfg)
        if mode == "singleton":
            calc = fe_class(cfg).CALC
        else:
            calc = call(_lib().BitCrcCalculator, lib_cfg(cfg), table_based=(mode == "table"))[1]
        w = crc_ref.WIDTH[cfg]
        for k, msg in enumerate(msgs):
            exp = crc_ref.rem(cfg, crc_ref.bits_of(msg["bits"]))
            got = call(calc.calculate_checksum, bitarray(msg["bits"]))[1]
            if not isinstance(got, bitarray) or len(got) != w or ba2int(got) != exp:
                raise Fail("result_independent_of_earlier_calls", {"call": k, "bits": msg["bits"], "crc": got.to01() if isinstance(got, bitarray) else repr(got)},
                           {"call": k, "bits": msg["bits"], "crc": format(exp, f"0{w}b")}, f"{cfg}:{mode}")
            ok = call(calc.verify_checksum, bitarray(msg["bits"]), exp)[1]
            if ok is not True:
                raise Fail("verify_independent_of_earlier_calls", {"call": k, "result": ok}, {"call": k, "result": True}, f"{cfg}:{mode}")
        return
    fe = target
    restore_cached_table(FE_CFG[fe])
    pristine_modules(FE_CFG[fe])
    first = {}
    for k, msg in enumerate(msgs):
        got = _fe_call(fe, msg)
        key = json.dumps(msg, sort_keys=True)
        if _reference_applies(fe, msg):
            exp = fe_expected(fe, msg)
        else:
            exp = first.setdefault(key, got)  # no reference (CRC-32 of an odd octet count): at least the same value every time
        if got != exp:
            raise Fail("result_independent_of_earlier_calls", {"call": k, "msg": msg, "crc": hex(got) if _is_int(got) else repr(got)}, {"call": k, "msg": msg, "crc": hex(exp)}, fe)
        if fe != "crc9":
            if _fe_check(fe, msg, got) is not True:
                raise Fail("verify_independent_of_earlier_calls", {"call": k, "result": False}, {"call": k, "result": True}, fe)
            other = got ^ (1 << (k % FE_WIDTH[fe]))
            if _fe_check(fe, msg, other) is not False:
                raise Fail("verify_independent_of_earlier_calls", {"call": k, "value": hex(other), "result": True}, {"call": k, "value": hex(other), "result": False}, fe)


# ---------------------------------------------------------------------------------------------- detection oracles


def oracle_weight3(case):
    """case = {data: hex, mask, flips: [positions]}: positions index the PDU = data bits (MSB first) followed by the 16 CRC
    bits.  Any 1..3 inverted bits: a different CRC for different data, and the corrupted PDU fails verification."""
    from okdmr.dmrlib.etsi.crc.crc16 import CRC16

    data = bytes.fromhex(case["data"])
    nd = len(data) * 8
    flips = case["flips"]
    if len(set(flips)) != len(flips) or not flips or len(flips) not in crc_ref.guaranteed_weights("crc16", nd + 16) or max(flips) >= nd + 16:
        raise HarnessError(f"error pattern outside the guaranteed set: {case}")
    reset_singleton("crc16")
    mk = lib_mask(case["mask"])
    crc = call(CRC16.calculate, data, mk)[1]
    d2 = bytearray(data)
    c2 = crc
    for p in flips:
        if p < nd:
            d2[p // 8] ^= 0x80 >> (p % 8)
        else:
            c2 ^= 1 << (15 - (p - nd))
    d2 = bytes(d2)
    if d2 != data:
        crc2 = call(CRC16.calculate, d2, mk)[1]
        if crc2 == crc:
            raise Fail("messages_differing_in_1_to_3_bits_get_different_crcs", hex(crc2), f"!= {hex(crc)}", f"weight_{len(flips)}")
    ok = call(CRC16.check, d2, c2, mk)[1]
    if ok is not False:
        raise Fail("pdu_with_1_to_3_bit_errors_rejected", ok, False, f"weight_{len(flips)}")


def _apply_burst(bits, offset, blen, pattern):
    if not (1 <= blen and offset >= 0 and offset + blen <= len(bits)):
        raise HarnessError("burst outside the message")
    if not (pattern >> (blen - 1)) & 1 or not pattern & 1 or pattern >> blen:
        raise HarnessError("burst pattern must start and end with an inverted bit")
    out = list(bits)
    for i in range(blen):
        if (pattern >> (blen - 1 - i)) & 1:
            out[offset + i] ^= 1
    return out


def oracle_burst(case):
    """case = {target: 'engine:<cfg>' | front end, msg, offset, blen, pattern}: M(x) and M(x)+x^i b(x), b of length
    blen <= w starting and ending with 1, get different CRCs."""
    target = case["target"]
    if target.startswith("engine:"):
        cfg = target.split(":")[1]
        if not crc_ref.burst_is_guaranteed(cfg, case["blen"]):
            raise HarnessError("burst longer than the CRC width")
        a = crc_ref.bits_of(case["msg"]["bits"])
        b = _apply_burst(a, case["offset"], case["blen"], case["pattern"])
        for label, calc in calculators(cfg):
            ca = call(calc.calculate_checksum, bitarray(a))[1]
            cb = call(calc.calculate_checksum, bitarray(b))[1]
            if ca == cb:
                raise Fail("burst_up_to_width_changes_crc", cb.to01(), f"!= {ca.to01()}", f"{cfg}:{label}")
        return
    fe = target
    cfg = FE_CFG[fe]
    if not crc_ref.burst_is_guaranteed(cfg, case["blen"]):
        raise HarnessError("burst longer than the CRC width")
    reset_singleton(cfg)
    msg = case["msg"]
    a = fe_message_bits(fe, msg)
    b = _apply_burst(a, case["offset"], case["blen"], case["pattern"])
    msg2 = fe_message_from_bits(fe, msg, b)
    if fe_message_bits(fe, msg2) != b:
        raise HarnessError("burst mapping is not invertible")
    ca, cb = _fe_call(fe, msg), _fe_call(fe, msg2)
    if ca == cb:
        raise Fail("burst_up_to_width_changes_crc", hex(cb), f"!= {hex(ca)}", fe)
    if fe != "crc9":
        ok = _fe_check(fe, msg2, ca)
        if ok is not False:
            raise Fail("burst_corrupted_message_fails_check", ok, False, fe)


# ---------------------------------------------------------------------------------------------- drivers


def _rand_bits(rng, n):
    return format(rng.getrandbits(n), f"0{n}b") if n else ""


def _nt_bits(cfg, s):
    f = feed(cfg)
    return len(s) >= f and len(s) % f != 0 and "1" in s


def _cls_len(cfg, n):
    f = feed(cfg)
    if n == 0:
        return "empty"
    if n < f:
        return "shorter_than_feed"
    return "multiple_of_feed" if n % f == 0 else "partial_feed_after_table_steps"


def drv_engine_lengths(ctx: Ctx, sub: SubCheck):
    n_rand = ctx.pick(2, 20)
    items = [(cfg, lo, min(401, lo + 25)) for cfg in CFGS for lo in range(0, 401, 25)]
    if ctx.tier == "thorough":
        ctx.rng("order").shuffle(items)

    def work(it, t: Tally):
        cfg, lo, hi = it
        for L in range(lo, hi):
            rng = ctx.rng("engine_lengths", cfg, L)
            contents = ["0" * L, "1" * L] + [_rand_bits(rng, L) for _ in range(n_rand)]
            for i, s in enumerate(contents):
                kind = (i + L) % 6
                prev = _rand_bits(rng, rng.randrange(1, 41)) if kind == 1 else _related_bits(s, kind)
                case = {"cfg": cfg, "bits": s, "prev": prev, "rep": BIT_REPS_ANY[(i + L // 6) % 4]}
                ctx.run_case(sub.name, oracle_engine, case, t)
                t.case(sub.name, nontrivial=_nt_bits(cfg, s), cls=f"{cfg}:{_cls_len(cfg, L)}")
                t.cls(sub.name, "container:" + case["rep"] + (":not_accepted_somewhere" if case.get("_container_not_accepted") else ""))
            if L % 97 == 5:
                t.sample(sub.name, case)

    ctx.shards(work, items)
    ctx.tally.extra["table_feed_width_observed"] = {cfg: feed(cfg) for cfg in CFGS}
    ctx.tally.extra["engine_lengths_covered"] = "every length 0..400 for each of the 5 configurations"
    ctx.tally.extra["engine_contents_per_length"] = 2 + n_rand


def drv_engine_units(ctx: Ctx, sub: SubCheck):
    items = []
    for cfg in CFGS:
        w = crc_ref.WIDTH[cfg]
        for L in sorted({w - 1, w, w + 1, 2 * w + 3, 96, 183, 400}):
            items.append((cfg, L))

    def work(it, t: Tally):
        cfg, L = it
        for i in range(L):
            s = "0" * i + "1" + "0" * (L - 1 - i)
            case = {"cfg": cfg, "bits": s, "prev": "1" if i % 3 == 0 else None}
            ctx.run_case(sub.name, oracle_engine, case, t)
            t.case(sub.name, nontrivial=_nt_bits(cfg, s), cls=f"{cfg}:len_{L}")
        t.sample(sub.name, {"cfg": cfg, "unit_vector_length": L, "all_positions": True})

    ctx.shards(work, items)
    ctx.tally.exhaustive[sub.name] = True


def _hyp(ctx, sub, strat, oracle, nq, nt, record):
    def work(shard, t: Tally):
        ctx.hypothesis(sub.name, strat, oracle, ctx.pick(nq, nt), tally=t, shard=shard, record=record)

    ctx.shards(work, list(range(16)))


def _st():
    from hypothesis import strategies as st

    return st


def st_bits(lo=0, hi=400):
    """bit strings as '0101…' with uniformly drawn length; contents from raw bytes (uniform) or structured."""
    st = _st()

    @st.composite
    def bits(draw):
        n = draw(st.integers(lo, hi))
        if n == 0:
            return ""
        kind = draw(st.integers(0, 9))
        if kind == 0:
            return draw(st.sampled_from(["0", "1"])) * n
        if kind == 1:
            i = draw(st.integers(0, n - 1))
            return "0" * i + "1" + "0" * (n - 1 - i)
        raw = draw(st.binary(min_size=(n + 7) // 8, max_size=(n + 7) // 8))
        return format(int.from_bytes(raw, "big"), f"0{8 * len(raw)}b")[:n]

    return bits()


def _related_bits(s, kind):
    """A 'previous message' related to s: None (kind 0/1), s extended by zero bits inside the same octet (2), s without its
    last bit (3), s with its last (4) / first (5) bit inverted.  Exposes state carried between calls that is keyed on
    less than the whole bit string (packed octets, length, prefix)."""
    if kind == 2:
        return s + "0" * ((8 - len(s) % 8) % 8 or 1)
    if kind == 3:
        return s[:-1] if s else "0"
    if kind == 4:
        return s[:-1] + ("1" if s[-1] == "0" else "0") if s else "1"
    if kind == 5:
        return ("1" if s[0] == "0" else "0") + s[1:] if s else "1"
    return None


def _related_msg(fe, msg, kind):
    if kind < 2:
        return None
    out = dict(msg)
    if "bits" in msg:
        out["bits"] = _related_bits(msg["bits"], kind)
        return out
    d = msg["data"]
    if kind == 2:
        out["data"] = d + "00"
    elif kind == 3:
        out["data"] = d[:-2]
    elif kind == 4:
        if fe == "crc9_parts":
            out["sn"] = msg["sn"] ^ 1
        else:
            out["data"] = d[:-2] + ("%02x" % (int(d[-2:], 16) ^ 0x01)) if d else "01"
    elif kind == 5:
        out["data"] = ("%02x" % (int(d[:2], 16) ^ 0x80)) + d[2:] if d else "80"
    return out


def drv_engine_random(ctx: Ctx, sub: SubCheck):
    st = _st()
    prev = st.one_of(st.none(), st_bits(1, 40), st.integers(2, 5))
    strat = st.builds(lambda c, b, p, r: {"cfg": c, "bits": b, "prev": _related_bits(b, p) if isinstance(p, int) else p, "rep": r}, st.sampled_from(CFGS), st_bits(), prev, st.sampled_from(BIT_REPS_ANY))
    _hyp(ctx, sub, strat, oracle_engine, 60, 1500,
         lambda c, t: t.case(sub.name, key=c, nontrivial=_nt_bits(c["cfg"], c["bits"]), cls=f"{c['cfg']}:{_cls_len(c['cfg'], len(c['bits']))}"))


def drv_linearity(ctx: Ctx, sub: SubCheck):
    st = _st()

    @st.composite
    def pair(draw):
        cfg = draw(st.sampled_from(CFGS))
        n = draw(st.integers(1, 400))
        nb = (n + 7) // 8
        a, b = (format(int.from_bytes(draw(st.binary(min_size=nb, max_size=nb)), "big"), f"0{8 * nb}b")[:n] for _ in range(2))
        return {"cfg": cfg, "a": a, "b": b}

    _hyp(ctx, sub, pair(), oracle_linearity, 40, 1000,
         lambda c, t: t.case(sub.name, key=c, nontrivial=(c["a"] != c["b"] and _nt_bits(c["cfg"], c["a"]) and "1" in c["b"]), cls=c["cfg"]))


# -- front ends

DATA_SIZES_CRC9 = [10, 16, 22, 6, 12, 18]  # confirmed rate 1/2, 3/4, 1 blocks and their last-block forms (4 octets less)


def st_front_msg(fe):
    st = _st()
    if fe == "crc8":
        return st.builds(lambda b: {"bits": b}, st.one_of(st_bits(), st_bits(28, 28), st_bits(60, 68)))
    if fe == "crc9":
        return st.builds(lambda b, m: {"bits": b, "mask": m}, st_bits(), st.sampled_from(sorted(crc_ref.MASKS9)))
    if fe == "crc9_parts":
        data = st.one_of(st.binary(min_size=0, max_size=24), st.sampled_from(DATA_SIZES_CRC9).flatmap(lambda n: st.binary(min_size=n, max_size=n)))
        crc32 = st.one_of(st.none(), st.integers(1, 2**32 - 1), st.binary(min_size=4, max_size=4).map(lambda b: int.from_bytes(b, "big")).filter(lambda v: v != 0))
        return st.builds(
            lambda d, sn, m, c, as_: {"data": d.hex(), "sn": sn, "mask": m, "crc32": c, "crc32_as": as_},
            data, st.integers(0, 127), st.sampled_from(sorted(crc_ref.MASKS9)), crc32, st.sampled_from(["int", "bytes"]),
        )
    if fe == "crc16":
        data = st.one_of(st.binary(min_size=0, max_size=64), st.binary(min_size=10, max_size=10))
        return st.builds(lambda d, m: {"data": d.hex(), "mask": m}, data, st.sampled_from(sorted(crc_ref.MASKS16)))
    if fe == "crc32":
        even = st.integers(0, 32).flatmap(lambda n: st.binary(min_size=2 * n, max_size=2 * n))
        return st.builds(lambda d: {"data": d.hex()}, st.one_of(even, even, st.binary(min_size=0, max_size=64)))
    raise HarnessError(fe)


def _front_nt(fe, msg):
    if fe in ("crc8", "crc9"):
        return _nt_bits(fe, msg["bits"])
    if fe == "crc9_parts":
        bits = fe_message_bits(fe, msg)
        return len(bits) % feed("crc9") != 0 and 1 in bits[:-7]
    d = bytes.fromhex(msg["data"])
    return len(d) >= 2 and any(d)


def _front_cls(fe, msg):
    if fe in ("crc8", "crc9"):
        return _cls_len(fe, len(msg["bits"])) + (":" + msg["mask"] if fe == "crc9" else "")
    if fe == "crc9_parts":
        n = len(fe_message_bits(fe, msg))
        c = "no_crc32" if msg["crc32"] is None else "crc32_" + msg["crc32_as"]
        return f"{c}:{'multiple_of_feed' if n % feed('crc9') == 0 else 'partial_feed'}"
    n = len(msg["data"]) // 2
    if fe == "crc16":
        return msg["mask"] + (":empty" if n == 0 else "")
    return "empty" if n == 0 else ("even_octets" if n % 2 == 0 else "odd_octets_reference_not_applied")


def make_front_driver(fe, nq, nt):
    def drv(ctx: Ctx, sub: SubCheck):
        st = _st()
        m = st_front_msg(fe)
        reps = BIT_REPS_TABLE if fe in ("crc8", "crc9") else OCTET_REPS
        mr = st.builds(lambda a, r: dict(a, rep=r), m, st.sampled_from(reps))
        strat = st.builds(lambda a, p: {"fe": fe, "msg": a, "prev": _related_msg(fe, a, p) if isinstance(p, int) else p}, mr, st.one_of(st.none(), mr, st.integers(2, 5)))
        _hyp(ctx, sub, strat, oracle_front, nq, nt, lambda c, t: (t.case(sub.name, key=c, nontrivial=_front_nt(fe, c["msg"]), cls=_front_cls(fe, c["msg"])), t.cls(sub.name, "container:" + c["msg"].get("rep", "default") + (":not_accepted" if c.get("_container_not_accepted") else ""))))

    return drv


def drv_accept_all_values(ctx: Ctx, sub: SubCheck):
    """all 2^w check values for sampled messages of the 8/9/16-bit front ends (complete per message)."""
    rng = ctx.rng("accept")
    items = []
    for i in range(ctx.pick(24, 400)):
        items.append({"fe": "crc8", "msg": {"bits": _rand_bits(rng, rng.choice([28, 28, rng.randrange(0, 401)]))}, "values": "all"})
        d = bytes(rng.getrandbits(8) for _ in range(rng.choice([10, 16, 22, 12, rng.randrange(0, 25)])))
        c32 = rng.choice([None, rng.randrange(1, 2**32)])
        items.append({"fe": "crc9_parts", "msg": {"data": d.hex(), "sn": rng.randrange(128), "mask": sorted(crc_ref.MASKS9)[i % 3], "crc32": c32, "crc32_as": rng.choice(["int", "bytes"])}, "values": "all"})
    for i in range(ctx.pick(3, 40)):
        d = bytes(rng.getrandbits(8) for _ in range(rng.choice([10, 10, rng.randrange(0, 65)])))
        items.append({"fe": "crc16", "msg": {"data": d.hex(), "mask": sorted(crc_ref.MASKS16)[i % 5]}, "values": "all"})
    items.sort(key=lambda c: -FE_WIDTH[c["fe"]])

    def work(case, t: Tally):
        ctx.run_case(sub.name, oracle_front, case, t)
        t.case(sub.name, key=case, nontrivial=True, cls=case["fe"], n=1)
        t.extra["check_value_evaluations"] = t.extra.get("check_value_evaluations", 0) + (1 << FE_WIDTH[case["fe"]])

    ctx.shards(work, items)


CAPTURED = [
    {"fe": "crc16", "msg": {"data": "4da323383b23383b0560", "mask": "DataHeader"}, "captured": 0x8040},
    {"fe": "crc16", "msg": {"data": "bd0080180008fd23383b", "mask": "CSBK"}, "captured": 0xB2ED},
    {"fe": "crc16", "msg": {"data": "211002177afc73000009", "mask": "PiHeader"}, "captured": 0x0DDA},
    {"fe": "crc8", "msg": {"bits": "0001000000000000000000000000"}, "captured": 0b00010110},
    {"fe": "crc8", "msg": {"bits": "0001000000110000000011011010"}, "captured": 0b10100011},
    {"fe": "crc9_parts", "msg": {"data": "47004d00500054002e004a0047004100", "sn": 17, "mask": "Rate34DataContinuation", "crc32": None, "crc32_as": "int"}, "captured": 459},
    {"fe": "crc9_parts", "msg": {"data": "0100000101004d004d00470054002e00", "sn": 0, "mask": "Rate34DataContinuation", "crc32": None, "crc32_as": "int"}, "captured": 409},
    {"fe": "crc9_parts", "msg": {"data": "0001410048004f004a000000", "sn": 0, "mask": "Rate34DataContinuation", "crc32": 0xA197CCB4, "crc32_as": "bytes"}, "captured": 447},
    {"fe": "crc9_parts", "msg": {"data": "000000000000000000000000", "sn": 2, "mask": "Rate34DataContinuation", "crc32": 0xF486AED8, "crc32_as": "bytes"}, "captured": 312},
    {"fe": "crc32", "msg": {"data": "d6790062620003bf000700000000000000000000"}, "captured": int.from_bytes(bytes.fromhex("210b9a3d"), "little")},
    {"fe": "crc32", "msg": {"data": "45000038fb410000401125490c23380b0d0008fd0fa10fa10024276a0d1a22047fffffff694728710f0a522c2d82534e6c0048564770402b"}, "captured": int.from_bytes(bytes.fromhex("82616528"), "little")},
    {"fe": "crc32", "msg": {"data": "0600fb4f3d3f82afc6d80b42ce88668afc7d8b1807e83c308d95bb8be5dd59e95b2837e795af87005ae2a743535ca421601d"}, "captured": int.from_bytes(bytes.fromhex("c76ae25c"), "little")},
]


def drv_captured(ctx: Ctx, sub: SubCheck):
    crc_ref.self_test()
    for case in CAPTURED:
        ctx.run_case(sub.name, oracle_captured, case)
        ctx.tally.case(sub.name, key=case, nontrivial=True, cls=case["fe"])


# -- detection


def drv_weight3(ctx: Ctx, sub: SubCheck):
    gw = crc_ref.guaranteed_weights("crc16", 96)
    if gw != [1, 2, 3]:
        raise HarnessError(f"reference mathematics does not guarantee weights 1..3 for CRC-CCITT on 96 bits: {gw}")
    rng = ctx.rng("weight3")
    names = sorted(crc_ref.MASKS16)
    msgs = []
    for i in range(ctx.pick(1, 6)):
        msgs.append((bytes(rng.getrandbits(8) for _ in range(10)).hex(), names[(i + ctx.seed) % 5]))
    if ctx.tier == "thorough":
        msgs.append(("00" * 10, "CSBK"))
        # 96 message bits + 16 CRC bits as well (still far below the order of x)
        if crc_ref.guaranteed_weights("crc16", 112) == [1, 2, 3]:
            msgs.append((bytes(rng.getrandbits(8) for _ in range(12)).hex(), "DataHeader"))
    items = []
    for data, mask in msgs:
        n = len(data) * 4 + 16
        for first in range(n):
            items.append((data, mask, first, n))

    def work(it, t: Tally):
        data, mask, first, n = it
        pats = [[first]] + [[first, j] for j in range(first + 1, n)] + [[first, j, k] for j in range(first + 1, n) for k in range(j + 1, n)]
        for p in pats:
            ctx.run_case(sub.name, oracle_weight3, {"data": data, "mask": mask, "flips": p}, t)
            t.case(sub.name, nontrivial=True, cls=f"weight_{len(p)}:{'crc_field_touched' if p[-1] >= n - 16 else 'data_only'}")
        if first % 31 == 3:
            t.sample(sub.name, {"data": data, "mask": mask, "flips": pats[len(pats) // 2]})

    ctx.shards(work, items, chunksize=2)
    ctx.tally.exhaustive[sub.name] = True
    ctx.tally.extra["weight3_pdus"] = [{"data": d, "mask": m} for d, m in msgs]
    ctx.tally.extra["detection_guarantees_derived"] = {
        cfg: {"x_plus_1_divides_G": crc_ref.x_plus_1_divides(cfg), "guaranteed_weights_on_96_bit_word": crc_ref.guaranteed_weights(cfg, 96)} for cfg in CFGS
    }
    ctx.tally.notes.append("weight<=3 enumeration is complete per listed (message, mask); messages are sampled (linearity sub-check)")


def _burst_patterns(blen):
    if blen == 1:
        return [1]
    hi = 1 << (blen - 1)
    return [hi | (mid << 1) | 1 for mid in range(1 << (blen - 2))]


def _burst_msg(rng, target):
    """A message for a burst target: (msg description, number of message bits)."""
    if target.startswith("engine:"):
        cfg = target.split(":")[1]
        n = 3 * crc_ref.WIDTH[cfg] + 5 + rng.randrange(0, 40)
        return {"bits": _rand_bits(rng, n)}
    if target == "crc8":
        return {"bits": _rand_bits(rng, rng.choice([28, 60, rng.randrange(8, 100)]))}
    if target == "crc9":
        return {"bits": _rand_bits(rng, rng.randrange(9, 150)), "mask": rng.choice(sorted(crc_ref.MASKS9))}
    if target == "crc9_parts":
        d = bytes(rng.getrandbits(8) for _ in range(rng.choice([10, 16, 22, 12, 6, 2])))
        return {"data": d.hex(), "sn": rng.randrange(128), "mask": rng.choice(sorted(crc_ref.MASKS9)), "crc32": rng.choice([None, rng.randrange(1, 2**32)]), "crc32_as": rng.choice(["int", "bytes"])}
    if target == "crc16":
        d = bytes(rng.getrandbits(8) for _ in range(rng.choice([10, 10, 12, rng.randrange(2, 30)])))
        return {"data": d.hex(), "mask": rng.choice(sorted(crc_ref.MASKS16))}
    if target == "crc32":
        d = bytes(rng.getrandbits(8) for _ in range(2 * rng.randrange(2, 30)))
        return {"data": d.hex()}
    raise HarnessError(target)


def _msg_nbits(target, msg):
    return len(crc_ref.bits_of(msg["bits"])) if target.startswith("engine:") else len(fe_message_bits(target, msg))


BURST_TARGETS = [("engine:crc7", 7), ("engine:crc8", 8), ("engine:crc9", 9), ("engine:crc16", 16), ("engine:crc32", 32),
                 ("crc8", 8), ("crc9", 9), ("crc9_parts", 9), ("crc16", 16), ("crc32", 32)]


def drv_burst(ctx: Ctx, sub: SubCheck):
    items = []
    for target, w in BURST_TARGETS:
        if w <= 9:
            for blen in range(1, w + 1):
                items.append((target, w, blen, "all", ctx.pick(6, 40)))
        elif w == 16:
            for blen in range(1, w + 1):
                # 2^(blen-2) patterns; quick samples the long ones
                if ctx.tier == "thorough" or blen <= 9:
                    items.append((target, w, blen, "all", ctx.pick(3, 12) if blen > 9 else ctx.pick(6, 24)))
                else:
                    items.append((target, w, blen, ctx.pick(300, 0), 2))
        else:
            for blen in range(1, w + 1):
                if blen <= 9:
                    items.append((target, w, blen, "all", ctx.pick(4, 16)))
                else:
                    items.append((target, w, blen, ctx.pick(120, 3000), 2))
    # split big items so that the 16 workers stay busy
    split = []
    for it in items:
        target, w, blen, which, noff = it
        parts = 8 if (which == "all" and blen >= 13) else 1
        for part in range(parts):
            split.append((target, w, blen, which, noff, part, parts))

    def work(it, t: Tally):
        target, w, blen, which, noff, part, parts = it
        rng = ctx.rng("burst", target, blen, part)
        if which == "all":
            pats = _burst_patterns(blen)[part::parts]
        else:
            hi = 1 << (blen - 1)
            pats = sorted({hi | (rng.getrandbits(blen - 2) << 1) | 1 for _ in range(which)})
        msg = _burst_msg(rng, target)
        n = _msg_nbits(target, msg)
        fw = feed(target.split(":")[-1])
        tail = (n // fw) * fw - 1  # last bit fed through the table; a burst from here runs into the partial tail
        offs = {0, n - blen, max(0, min(n - blen, fw - 1)), max(0, min(n - blen, tail))}
        while len(offs) < min(noff, n - blen + 1):
            offs.add(rng.randrange(0, n - blen + 1))
        offs = sorted(offs)
        last = None
        for pat in pats:
            for off in offs:
                last = {"target": target, "msg": msg, "offset": off, "blen": blen, "pattern": pat}
                ctx.run_case(sub.name, oracle_burst, last, t)
            t.case(sub.name, nontrivial=True, cls=f"{target}:{'all_patterns' if which == 'all' else 'sampled_patterns'}", n=len(offs))
        if last is not None and (blen in (1, w) or blen == 5):
            t.sample(sub.name, last)

    ctx.shards(work, split)
    ctx.tally.notes.append("bursts: all start/end-inverted patterns of each length <= w for w <= 9 (and w = 16 in thorough), sampled for longer ones, at sampled offsets incl. 0, the end, a feed boundary and the partial tail")


HISTORY_TARGETS = [f"engine:{c}:{m}" for c in CFGS for m in ("bitwise", "table")] + [f"engine:{c}:singleton" for c in CFGS if c != "crc7"] + ["crc8", "crc9", "crc9_parts", "crc16", "crc32"]


def _history_base(target):
    st = _st()
    if target.startswith("engine:"):
        return st.builds(lambda b: {"bits": b}, st.one_of(st_bits(0, 80), st_bits()))
    return st_front_msg(target)


def _history_related(target, msg, kind):
    fe = target if not target.startswith("engine:") else "bits"
    if fe == "crc32" and kind in (2, 3):
        out = dict(msg)
        out["data"] = msg["data"] + "0000" if kind == 2 else msg["data"][:-4]
        return out
    return _related_msg(fe, msg, kind)


def st_history():
    st = _st()

    @st.composite
    def hist(draw):
        target = draw(st.one_of(st.sampled_from([t for t in HISTORY_TARGETS if t.startswith("engine:")]), st.sampled_from([t for t in HISTORY_TARGETS if not t.startswith("engine:")])))
        base = _history_base(target)
        msgs = [draw(base)]
        n_rel = 0
        for _ in range(draw(st.integers(1, 9))):
            how = draw(st.integers(0, 5))
            if how < 2:
                msgs.append(draw(base))
            else:
                msgs.append(_history_related(target, msgs[draw(st.integers(0, len(msgs) - 1))], how))
                n_rel += 1
        return {"target": target, "msgs": msgs}

    return hist()


def _history_cls(c):
    t = c["target"]
    fam = "engine_" + t.split(":")[2] if t.startswith("engine:") else "front_end_" + t
    return fam


def drv_history(ctx: Ctx, sub: SubCheck):
    def distinct(c):
        return len({json.dumps(m, sort_keys=True) for m in c["msgs"]})

    _hyp(ctx, sub, st_history(), oracle_history, 40, 800,
         lambda c, t: (t.case(sub.name, key=c, nontrivial=distinct(c) >= 2, cls=_history_cls(c)), t.cls(sub.name, f"history_length_{min(len(c['msgs']), 6)}{'+' if len(c['msgs']) >= 6 else ''}")))
    # directed two-step histories: a message, then the same message zero-extended inside its last octet (and back)
    for target in HISTORY_TARGETS:
        if target.startswith("engine:") or target in ("crc8", "crc9"):
            extra = {"mask": "Rate34DataContinuation"} if target == "crc9" else {}
            for a, b in (("1", "10"), ("10", "1"), ("0000001", "00000010"), ("1" * 13, "1" * 13 + "000"), ("1011", "1011")):
                case = {"target": target, "msgs": [dict(bits=a, **extra), dict(bits=b, **extra), dict(bits=a, **extra)]}
                ctx.run_case(sub.name, oracle_history, case)
                ctx.tally.case(sub.name, key=case, nontrivial=(a != b), cls="directed_same_packed_octets")


def _bits_window_builder(prefix, nbits, suffix):
    return lambda x: prefix + format(x, f"0{nbits}b") + suffix


def _octet_window(data: bytes, pos: int, n: int, x: int) -> bytes:
    return data[:pos] + x.to_bytes(n, "big") + data[pos + n:]


def _extreme_plans(ctx: Ctx):
    """(target, label, make(x) -> msg, window bits): message shapes with a solvable window, deterministic from the seed."""
    rng = ctx.rng("extreme")
    plans = []
    for cfg in CFGS:
        w, fw = crc_ref.WIDTH[cfg], feed(cfg)
        # (prefix length, suffix length): the bare window, a partial-feed length, a multiple of the feed, two longer ones
        shapes = [(0, 0), (5, 0), (max(0, 3 * fw - w), 0), (2 * fw + 3, 7), (rng.randrange(60, 200), rng.randrange(0, 30)), (rng.randrange(200, 380 - w), 11)]
        for p, q in shapes:
            pre, suf = _rand_bits(rng, p), _rand_bits(rng, q)
            plans.append((f"engine:{cfg}", f"len_{p + w + q}", (lambda x, pre=pre, suf=suf, w=w: {"bits": pre + format(x, f"0{w}b") + suf}), w))
    for p, q in [(20, 0), (0, 0), (29, 0), (40, 21), (rng.randrange(50, 300), rng.randrange(0, 9))]:
        pre, suf = _rand_bits(rng, p), _rand_bits(rng, q)
        plans.append(("crc8", f"len_{p + 8 + q}", (lambda x, pre=pre, suf=suf: {"bits": pre + format(x, "08b") + suf}), 8))
    for mask in sorted(crc_ref.MASKS9):
        for p, q in [(0, 0), (11, 0), (71, 7), (rng.randrange(90, 300), rng.randrange(0, 12))]:
            pre, suf = _rand_bits(rng, p), _rand_bits(rng, q)
            plans.append(("crc9", f"{mask}:len_{p + 9 + q}", (lambda x, pre=pre, suf=suf, mask=mask: {"bits": pre + format(x, "09b") + suf, "mask": mask}), 9))
        # parts: the last two data octets are the window (16 unknowns, 9 equations); serial number and crc32 follow it
        for nd, c32, as_ in [(10, None, "int"), (16, None, "int"), (22, None, "int"), (12, rng.randrange(1, 2**32), "int"), (6, rng.randrange(1, 2**32), "bytes"), (2, None, "int")]:
            d, sn = bytes(rng.getrandbits(8) for _ in range(nd)), rng.randrange(128)
            plans.append(("crc9_parts", f"{mask}:{nd}_octets{'' if c32 is None else '+crc32_' + as_}",
                          (lambda x, d=d, sn=sn, mask=mask, c32=c32, as_=as_: {"data": _octet_window(d, len(d) - 2, 2, x).hex(), "sn": sn, "mask": mask, "crc32": c32, "crc32_as": as_}), 16))
    for mask in sorted(crc_ref.MASKS16):
        for nd, pos in [(2, 0), (10, 8), (10, 3), (12, 0), (rng.randrange(13, 64), None)]:
            d = bytes(rng.getrandbits(8) for _ in range(nd))
            pos = rng.randrange(0, nd - 1) if pos is None else pos
            plans.append(("crc16", f"{mask}:{nd}_octets_window_at_{pos}", (lambda x, d=d, pos=pos, mask=mask: {"data": _octet_window(d, pos, 2, x).hex(), "mask": mask}), 16))
    # CRC-32: even octet counts, pair-aligned four-octet window (contiguous in the pair-swapped domain)
    for nd, pos in [(4, 0), (12, 8), (12, 0), (20, 16), (56, 52), (2 * rng.randrange(8, 32), None), (2 * rng.randrange(8, 32), None)]:
        d = bytes(rng.getrandbits(8) for _ in range(nd))
        pos = 2 * rng.randrange(0, nd // 2 - 1) if pos is None else pos
        plans.append(("crc32", f"{nd}_octets_window_at_{pos}", (lambda x, d=d, pos=pos: {"data": _octet_window(d, pos, 4, x).hex()}), 32))
    return plans


def _ref_value(target, msg):
    if target.startswith("engine:"):
        return crc_ref.rem(target.split(":")[1], crc_ref.bits_of(msg["bits"]))
    return fe_expected(target, msg)


def drv_extreme(ctx: Ctx, sub: SubCheck):
    plans = _extreme_plans(ctx)
    items = list(range(len(plans)))

    def work(i, t: Tally):
        target, label, make, nbits = plans[i]
        w = crc_ref.WIDTH[target.split(":")[1]] if target.startswith("engine:") else FE_WIDTH[target]
        for name, want in crc_ref.extreme_values(w).items():
            x = crc_ref.solve_affine(lambda v: _ref_value(target, make(v)), nbits, want)
            if x is None:
                raise HarnessError(f"no window value gives CRC {hex(want)} for {target} {label}")
            case = {"target": target, "msg": make(x), "want": want}
            ctx.run_case(sub.name, oracle_extreme, case, t)
            t.case(sub.name, key=case, nontrivial=True, cls=f"{target}:{name}")
            t.cls(sub.name, f"shape:{target}:{label.split(':')[-1]}")
            if name == "all_ones" and i % 9 == 0:
                t.sample(sub.name, case)

    ctx.shards(work, items, chunksize=4)
    ctx.tally.extra["extreme_output_shapes"] = len(plans)
    ctx.tally.notes.append("extreme_outputs: every shape x each of the 6 edge values of the output range; messages constructed by GF(2) elimination on the reference, construction asserted on the reference")


def _stream_cls(c):
    f = feed(c["cfg"])
    out = set()
    for chunks in c["rounds"]:
        loaded = False
        for ch in chunks:
            if ch == "":
                out.add("has_empty_chunk")
            if len(ch) == 1:
                out.add("has_one_bit_chunk")
            if loaded and len(ch) >= f and "1" not in ch[:f]:
                out.add("later_chunk_starts_with_whole_zero_feed_on_loaded_register")
            if len(ch) % f:
                out.add("chunk_not_multiple_of_feed")
            loaded = loaded or "1" in ch
    if len(c["rounds"]) > 1:
        out.add("register_reused_after_init")
    return sorted(out)


def st_stream():
    st = _st()

    @st.composite
    def chunk(draw, f):
        kind = draw(st.integers(0, 9))
        if kind == 0:
            return ""
        if kind == 1:
            return draw(st.sampled_from(["0", "1"]))
        if kind in (2, 3, 4):  # whole feeds of zeros (and a bit more) first, then anything
            z = f * draw(st.integers(1, 3)) + draw(st.integers(0, f - 1))
            return "0" * z + draw(st_bits(0, 30))
        if kind == 5:
            return "0" * (f * draw(st.integers(1, 4)))
        return draw(st_bits(1, 70))

    @st.composite
    def stream(draw):
        cfg = draw(st.sampled_from(CFGS))
        f = feed(cfg)
        mode = draw(st.sampled_from(["bitwise", "table"]))
        rounds = [[draw(chunk(f)) for _ in range(draw(st.integers(1, 6)))] for _ in range(draw(st.sampled_from([1, 1, 2])))]
        if draw(st.booleans()):  # the same long message cut at random points (incl. equal points = empty chunks)
            msg = draw(st_bits(1, 400))
            cuts = sorted(draw(st.lists(st.integers(0, len(msg)), min_size=1, max_size=6)))
            rounds.append([msg[a:b] for a, b in zip([0] + cuts, cuts + [len(msg)])])
        return {"cfg": cfg, "mode": mode, "rounds": rounds, "rep": draw(st.sampled_from(BIT_REPS_ANY))}

    return stream()


def drv_streaming(ctx: Ctx, sub: SubCheck):
    def rec(c, t):
        cl = _stream_cls(c)
        t.case(sub.name, key=c, nontrivial=sum(1 for r in c["rounds"] for ch in r if ch) >= 2, cls=f"{c['cfg']}:{c['mode']}")
        for x in cl:
            t.cls(sub.name, x)
        t.cls(sub.name, "container:" + c["rep"] + (":not_accepted" if c.get("_container_not_accepted") else ""))

    _hyp(ctx, sub, st_stream(), oracle_streaming, 60, 1200, rec)
    # directed: a loaded register, then a chunk of z zeros (z = 0 .. 3 feeds + 1) and a closing 1; an empty chunk in between
    items = [(cfg, mode) for cfg in CFGS for mode in ("bitwise", "table")]

    def work(it, t: Tally):
        cfg, mode = it
        f = feed(cfg)
        rng = ctx.rng("streaming", cfg, mode)
        head = "1" + _rand_bits(rng, rng.randrange(0, 2 * f))
        for z in range(0, 3 * f + 2):
            for mid in ([], [""]):
                case = {"cfg": cfg, "mode": mode, "rounds": [[head] + mid + ["0" * z + "1"], [head, "0" * z]], "rep": BIT_REPS_ANY[z % 4]}
                ctx.run_case(sub.name, oracle_streaming, case, t)
                t.case(sub.name, key=case, nontrivial=True, cls=f"{cfg}:{mode}")
                for x in _stream_cls(case):
                    t.cls(sub.name, x)

    ctx.shards(work, items)


def drv_verify_consistency(ctx: Ctx, sub: SubCheck):
    st = _st()
    bits = st.one_of(st_bits(0, 400), st.integers(1, 40).flatmap(lambda n: st_bits(8 * n, 8 * n)))
    as_bits = st.builds(lambda c, b, r, p: {"cfg": c, "bits": b, "rep": r, "prev": p}, st.sampled_from(CFGS), bits, st.sampled_from(BIT_REPS_ANY), st.one_of(st.none(), st_bits(1, 40)))
    # what the octet front ends hand to their calculator: bytes_to_bits(octets, order)
    as_octets = st.builds(lambda c, d, o, fr: {"cfg": c, "octets": d.hex(), "order": o, "rep": ("frozen_" if fr else "") + o, "prev": None},
                          st.sampled_from(CFGS), st.binary(min_size=0, max_size=48), st.sampled_from(["little", "big"]), st.booleans())

    def rec(c, t):
        n = len(c["bits"]) if "bits" in c else 4 * len(c["octets"])
        t.case(sub.name, key=c, nontrivial=n >= 8, cls=f"{c['cfg']}:{c['rep']}" + (":not_accepted_somewhere" if c.get("_container_not_accepted") else ""))
        t.cls(sub.name, "built_like_front_end_" + c["order"] if "octets" in c else "bit_sequence")

    _hyp(ctx, sub, st.one_of(as_bits, as_octets), oracle_verify_consistency, 60, 1200, rec)
    # directed: every config x container x a ladder of lengths (bit level), and the CRC-32 / CRC-16 front-end messages
    items = [(cfg, rep) for cfg in CFGS for rep in BIT_REPS_ANY]

    def work(it, t: Tally):
        cfg, rep = it
        rng = ctx.rng("verify_consistency", cfg, rep)
        f = feed(cfg)
        for n in [1, f - 1, f, f + 1, 2 * f + 3, 16, 28, 80, 96, rng.randrange(100, 400)]:
            case = {"cfg": cfg, "bits": _rand_bits(rng, n), "rep": rep, "prev": None}
            ctx.run_case(sub.name, oracle_verify_consistency, case, t)
            t.case(sub.name, key=case, nontrivial=n >= 8, cls=f"{cfg}:{rep}")
        for nd in [2, 10, 12, 2 * rng.randrange(8, 30)]:
            d = bytes(rng.getrandbits(8) for _ in range(nd))
            order = "little" if rep.endswith("little") else "big"
            case = {"cfg": cfg, "octets": (crc_ref.pair_swap(d) if order == "little" else d).hex(), "order": order, "rep": rep, "prev": None}
            ctx.run_case(sub.name, oracle_verify_consistency, case, t)
            t.case(sub.name, key=case, nontrivial=True, cls=f"{cfg}:{rep}")
            t.cls(sub.name, "built_like_front_end_" + order)

    ctx.shards(work, items)


# ---------------------------------------------------------------------------------------------- interleaved histories (round 7)
#
# The class-level calculators are shared by sibling entry points (CRC9.calculate / calculate_from_parts / check and
# CRC9.CALC.calculate_checksum / verify_checksum all run on ONE register), and a call can be refused after part of its
# input was already taken (data field converted, then the CRC-32 field turns out to be 3 octets long; serial number 128).
# The `history` sub-check feeds valid messages through one entry point only.  Here one history mixes, on objects that live
# as long as the history (the front-end singletons, one bitwise and one table calculator and one register of each kind per
# configuration), judged operations - front-end value + check, engine value + verify, a streamed round - with stimulus:
# every refusable shape of every entry point (wrong types, lengths and ranges for each argument, iterables of parts and a
# generator that raises after its first part, None / 16-bit / 24-bit masks), rightly negative checks, accepted out-of-domain
# arguments, abandoned and damaged register rounds.  Nothing is claimed about a stimulus; the judged operations around it
# must return what the reference says.  Every history starts from freshly re-imported modules.

FAMILY_OF_FE = {"crc8": "crc8", "crc9": "crc9", "crc9_parts": "crc9", "crc16": "crc16", "crc32": "crc32"}


class _Hist:
    """the long-lived objects of one history"""

    def __init__(self):
        self.calcs, self.regs = {}, {}

    def calc(self, cfg, mode):
        if mode == "singleton" and cfg not in FE_MODULE:
            mode = "table"
        if (cfg, mode) not in self.calcs:
            self.calcs[(cfg, mode)] = fe_class(cfg).CALC if mode == "singleton" else call(_lib().BitCrcCalculator, lib_cfg(cfg), table_based=(mode == "table"))[1]
        return self.calcs[(cfg, mode)]

    def reg(self, cfg, mode):
        mode = "table" if mode != "bitwise" else mode
        if (cfg, mode) not in self.regs:
            m = _lib()
            self.regs[(cfg, mode)] = call(m.TableBasedBitCrcRegister if mode == "table" else m.BitCrcRegister, lib_cfg(cfg))[1]
        return self.regs[(cfg, mode)]


def _raising_parts(first):
    yield first
    raise ValueError("next part is not available")


BAD_BITS = ["none", "bytes", "str", "list", "list_none", "parts_list", "parts_tuple", "parts_iter", "gen_raising", "gen_empty", "int", "little", "empty", "memoryview", "bytearray", "float"]


def _bad_bits(s, how, pos=0):
    k = pos % (len(s) + 1)
    return {
        "none": lambda: None, "bytes": lambda: bitarray(s).tobytes(), "str": lambda: s, "list": lambda: [int(c) for c in s], "list_none": lambda: [int(c) for c in s[:k]] + [None] + [int(c) for c in s[k:]],
        "parts_list": lambda: [bitarray(s[:k]), bitarray(s[k:])], "parts_tuple": lambda: (bitarray(s[:k]), bitarray(s[k:])), "parts_iter": lambda: iter([bitarray(s[:k]), bitarray(s[k:])]),
        "gen_raising": lambda: _raising_parts(bitarray(s[:k] or s)), "gen_empty": lambda: iter(()), "int": lambda: len(s), "little": lambda: bitarray(s, endian="little"), "empty": lambda: bitarray(),
        "memoryview": lambda: memoryview(bitarray(s).tobytes()), "bytearray": lambda: bytearray(bitarray(s).tobytes()), "float": lambda: 1.5,
    }[how]()


BAD_OCTETS = ["none", "str", "int", "bits", "list", "list_oob", "list_none", "tuple", "gen_raising", "float"]  # "int" is a SMALL int: bytearray(n) allocates n octets


def _bad_octets(raw, how, pos=0):
    k = pos % (len(raw) + 1)
    return {
        "none": lambda: None, "str": lambda: raw.hex(), "int": lambda: len(raw), "bits": lambda: bitarray("".join(format(x, "08b") for x in raw)), "list": lambda: list(raw),
        "list_oob": lambda: list(raw[:k]) + [256] + list(raw[k:]), "list_none": lambda: list(raw[:k]) + [None] + list(raw[k:]), "tuple": lambda: tuple(raw),
        "gen_raising": lambda: _raising_parts(raw[:k] or raw), "float": lambda: 2.5,
    }[how]()


BAD_MASKS = ["none", "int", "str", "other_width", "mask24", "mask7"]


def _bad_mask(how, width):
    mk = masks()
    return {"none": lambda: None, "int": lambda: 0x0F0, "str": lambda: "CSBK", "other_width": lambda: mk.CSBK if width == 9 else mk.Rate34DataContinuation, "mask24": lambda: mk.VoiceLCHeader, "mask7": lambda: mk.ReverseChannel}[how]()


BAD_VALUES = ["too_big", "negative", "none", "str", "float", "wrong", "wrong_top_bit", "bool"]


def _bad_value(how, width, right):
    return {"too_big": lambda: (1 << width) + (right or 1), "negative": lambda: -1 - (right or 0), "none": lambda: None, "str": lambda: "%d" % (right or 0), "float": lambda: (right or 0) + 0.5,
            "wrong": lambda: (right or 0) ^ 1, "wrong_top_bit": lambda: (right or 0) ^ (1 << (width - 1)), "bool": lambda: True}[how]()


PARTS_HOWS = (["sn_128", "sn_255", "sn_1000", "sn_neg", "sn_none", "sn_float", "sn_str", "crc32_len3", "crc32_len5", "crc32_empty", "crc32_str", "crc32_neg", "crc32_huge", "crc32_list", "crc32_float",
               "crc32_zero_bytes"] + ["data_" + h for h in BAD_OCTETS] + ["mask_" + h for h in BAD_MASKS])


def fe_stim_call(fe, msg, how, via="calculate", pos=0):
    """(function, args, kwargs) of a front-end call that is refused, negative or outside the judged domain, derived from the valid
    message description ``msg`` of that front end"""
    cls = fe_class(FAMILY_OF_FE[fe])
    w = FE_WIDTH[fe]
    right = fe_expected(fe, msg) if _reference_applies(fe, msg) else 0
    what, _, h = how.partition("_")
    if fe in ("crc8", "crc9"):
        bits = bitarray(msg["bits"])
        arg = _bad_bits(msg["bits"], h, pos) if what == "data" else bits
        if fe == "crc8":
            if via == "check" or what == "value":
                return cls.check, (arg, _bad_value(h, w, right) if what == "value" else right), {}
            return cls.calculate, (arg,), {}
        return cls.calculate, (arg, _bad_mask(h, 9) if what == "mask" else lib_mask(msg["mask"])), {}
    if fe == "crc9_parts":
        kw = {"data": bytes.fromhex(msg["data"]), "serial_number": msg["sn"], "mask": lib_mask(msg["mask"]), "crc32": _crc32_arg(dict(msg, rep=None))}
        if what == "sn":
            kw["serial_number"] = {"128": 128, "255": 255, "1000": 1000, "neg": -1 - msg["sn"], "none": None, "float": msg["sn"] + 0.5, "str": str(msg["sn"])}[h]
        elif what == "crc32":
            kw["crc32"] = {"len3": b"\x01\x02\x03", "len5": b"\x01\x02\x03\x04\x05", "empty": b"", "str": "abcd", "neg": -5, "huge": 2**32 + 7, "list": [1, 2, 3, 4], "float": 1.5, "zero_bytes": b"\x00" * 4}[h]
        elif what == "data":
            kw["data"] = _bad_octets(kw["data"], h, pos)
        elif what == "mask":
            kw["mask"] = _bad_mask(h, 9)
        if via == "check" or what == "value":
            kw["crc9"] = _bad_value(h, w, right) if what == "value" else right
            return cls.check, (), kw
        return cls.calculate_from_parts, (), kw
    raw = bytes.fromhex(msg["data"])
    arg = _bad_octets(raw, h, pos) if what == "data" else raw
    if fe == "crc16":
        mk = _bad_mask(h, 16) if what == "mask" else lib_mask(msg["mask"])
        if via == "check" or what == "value":
            return cls.check, (arg, _bad_value(h, w, right) if what == "value" else right, mk), {}
        return cls.calculate, (arg, mk), {}
    if via == "check" or what == "value":
        return cls.check, (arg, _bad_value(h, w, right) if what == "value" else right), {}
    return cls.calculate, (arg,), {}


def fe_stim_hows(fe):
    if fe == "crc9_parts":
        return PARTS_HOWS + ["value_" + h for h in BAD_VALUES]
    if fe == "crc8":
        return ["data_" + h for h in BAD_BITS] + ["value_" + h for h in BAD_VALUES]
    if fe == "crc9":
        return ["data_" + h for h in BAD_BITS] + ["mask_" + h for h in BAD_MASKS]
    if fe == "crc16":
        return ["data_" + h for h in BAD_OCTETS] + ["mask_" + h for h in BAD_MASKS] + ["value_" + h for h in BAD_VALUES]
    return ["data_" + h for h in BAD_OCTETS] + ["value_" + h for h in BAD_VALUES]


ENG_HOWS = ["data_" + h for h in BAD_BITS] + ["value_" + h for h in BAD_VALUES]
REG_HOWS = ["abandoned_round", "update_without_init", "update_none", "update_str", "update_list", "update_parts", "digest_twice", "digest_without_update", "reverse", "reverse_twice", "set_register", "set_register_short", "read_register"]


def run_stim(H: "_Hist", op):
    """one stimulus; whatever it returns or raises is ignored"""
    t, how, pos = op["t"], op["how"], int(op.get("pos", 0))
    try:
        if t == "fe":
            fn, a, kw = fe_stim_call(op["fe"], op["msg"], how, op.get("via", "calculate"), pos)
            fn(*a, **kw)
        elif t == "eng":
            calc = H.calc(op["cfg"], op["mode"])
            what, _, h = how.partition("_")
            w = crc_ref.WIDTH[op["cfg"]]
            right = crc_ref.rem(op["cfg"], crc_ref.bits_of(op["bits"]))
            if what == "data":
                (calc.verify_checksum if op.get("via") == "check" else calc.calculate_checksum)(*((_bad_bits(op["bits"], h, pos), right) if op.get("via") == "check" else (_bad_bits(op["bits"], h, pos),)))
            else:
                calc.verify_checksum(bitarray(op["bits"]), _bad_value(h, w, right))
        elif t == "reg":
            reg = H.reg(op["cfg"], op["mode"])
            bits = bitarray(op["bits"])
            k = pos % (len(bits) + 1)
            if how == "abandoned_round":
                reg.init()
                reg.update(bits)
            elif how == "update_without_init":
                reg.update(bits)
            elif how in ("update_none", "update_str", "update_list", "update_parts"):
                reg.init()
                reg.update(bits[:k])
                reg.update({"update_none": None, "update_str": op["bits"], "update_list": [int(c) for c in op["bits"]], "update_parts": [bits[:k], bits[k:]]}[how])
            elif how == "digest_twice":
                reg.init()
                reg.update(bits)
                reg.digest()
                reg.digest()
            elif how == "digest_without_update":
                reg.digest()
            elif how in ("reverse", "reverse_twice"):
                reg.init()
                reg.update(bits)
                reg.reverse()
                if how == "reverse_twice":
                    reg.reverse()
            elif how in ("set_register", "set_register_short"):
                w = crc_ref.WIDTH[op["cfg"]]
                reg.register = bitarray("1" * (w if how == "set_register" else max(1, w - 3)))
            elif how == "read_register":
                r = reg.register
                r.invert()  # the caller owns what the property handed out
        else:
            raise HarnessError(f"unknown stimulus {t}")
    except HarnessError:
        raise
    except (KeyboardInterrupt, SystemExit, MemoryError):
        raise
    except BaseException:
        pass


def _op_stim(a):
    run_stim(_Hist(), a)


PRELUDE_OPS = {"stim": _op_stim}


def _rand_front_msg(fe, r):
    if fe in ("crc8", "crc9"):
        n = r.choice([r.randrange(0, 401), r.randrange(0, 80), 28, 96])
        m = {"bits": _rand_bits(r, n) if r.random() < 0.8 else "0" * n}
        if fe == "crc9":
            m["mask"] = r.choice(sorted(crc_ref.MASKS9))
        return m
    if fe == "crc9_parts":
        n = r.choice(DATA_SIZES_CRC9 + [r.randrange(0, 25)])
        c = r.choice([None, None, r.randrange(1, 2**32)])
        return {"data": bytes(r.getrandbits(8) for _ in range(n)).hex(), "sn": r.randrange(128), "mask": r.choice(sorted(crc_ref.MASKS9)), "crc32": c, "crc32_as": r.choice(["int", "bytes"])}
    if fe == "crc16":
        return {"data": bytes(r.getrandbits(8) for _ in range(r.choice([10, 10, r.randrange(0, 65)]))).hex(), "mask": r.choice(sorted(crc_ref.MASKS16))}
    return {"data": bytes(r.getrandbits(8) for _ in range(2 * r.randrange(0, 33))).hex()}


STEP_ORDERS = [["refuse", "accept", "calc"], ["calc", "refuse", "accept"], ["accept", "calc", "refuse"], ["accept"], ["refuse"], ["calc"]]
FE_TWIN_KINDS = {"crc8": [2, 3, 4, 5], "crc9": [2, 3, 4, 5, "mask"], "crc9_parts": [2, 3, 4, 5, "mask", "crc32_toggle", "crc32_as", "crc32_value", "sn_top"], "crc16": [2, 3, 4, 5, "mask"], "crc32": [2, 3, 4, 5]}


def front_twin(fe, msg, kind, r):
    """a valid message of the same front end that equals ``msg`` in everything but one field (the fields a key that is too wide
    would leave out: the mask, the optional CRC-32 and its form, the serial number, trailing zeros, the last / first bit)"""
    if kind in (2, 3, 4, 5):
        if fe == "crc32" and kind in (2, 3):
            return dict(msg, data=msg["data"] + "0000" if kind == 2 else msg["data"][:-4])
        return _related_msg(fe, msg, kind)
    out = dict(msg)
    if kind == "mask":
        pool = sorted(crc_ref.MASKS9 if fe in ("crc9", "crc9_parts") else crc_ref.MASKS16)
        out["mask"] = pool[(pool.index(msg["mask"]) + 1 + r.randrange(len(pool) - 1)) % len(pool)]
    elif kind == "crc32_toggle":
        out["crc32"] = None if msg.get("crc32") is not None else r.randrange(1, 2**32)
    elif kind == "crc32_as":
        out["crc32"] = msg["crc32"] if msg.get("crc32") is not None else r.randrange(1, 2**32)
        out["crc32_as"] = "bytes" if msg.get("crc32_as", "int") == "int" else "int"
    elif kind == "crc32_value":
        out["crc32"] = ((msg.get("crc32") or 0) ^ (1 << r.randrange(32))) or 1
    elif kind == "sn_top":
        out["sn"] = msg["sn"] ^ 0x40
    return out


def random_stim(r, cfg=None, msg=None, fe=None, bits=None):
    """a stimulus on the same family (and, when given, derived from the same message / bit string) as a judged operation"""
    cfg = cfg or r.choice(CFGS)
    fes = [f for f, fam in FAMILY_OF_FE.items() if fam == cfg]
    x = r.random()
    if fes and x < 0.55:
        f = fe if fe in fes and msg is not None and r.random() < 0.7 else r.choice(fes)
        m = msg if f == fe and msg is not None else _rand_front_msg(f, r)
        how = r.choice(fe_stim_hows(f))
        return {"k": "stim", "t": "fe", "fe": f, "msg": m, "how": how, "via": r.choice(["calculate", "check"]) if f not in ("crc9",) else "calculate", "pos": r.randrange(64)}
    b = bits if bits is not None and r.random() < 0.7 else _rand_bits(r, r.choice([r.randrange(1, 80), r.randrange(1, 401)]))
    mode = r.choice(["singleton", "singleton", "bitwise", "table"])
    if x < 0.8:
        return {"k": "stim", "t": "eng", "cfg": cfg, "mode": mode, "bits": b, "how": r.choice(ENG_HOWS), "via": r.choice(["calculate", "check"]), "pos": r.randrange(64)}
    return {"k": "stim", "t": "reg", "cfg": cfg, "mode": r.choice(["bitwise", "table"]), "bits": b, "how": r.choice(REG_HOWS), "pos": r.randrange(64)}


def prelude_for(sub, case, rng):
    """refused / negative / out-of-domain calls of the entry points of the case's own family, on the case's own message where it
    has one.  (Every oracle of this module rebuilds the calculators it judges, so a prelude reaches only state that lives
    elsewhere: helpers shared with other modules, module-level caches; the in-history form is the `interleaved` sub-check.)"""
    cfg = fe = msg = bits = None
    if isinstance(case, dict):
        fe = case.get("fe") if case.get("fe") in FAMILY_OF_FE else None
        t = case.get("target")
        if isinstance(t, str):
            fe = t if t in FAMILY_OF_FE else None
            cfg = t.split(":")[1] if t.startswith("engine:") else None
        cfg = FAMILY_OF_FE.get(fe) or cfg or (case.get("cfg") if case.get("cfg") in CFGS else None)
        m = case.get("msg") if isinstance(case.get("msg"), dict) else (case.get("msgs") or [None])[0] if isinstance(case.get("msgs"), list) else None
        if isinstance(m, dict) and fe is not None and ("bits" in m or "data" in m):
            msg = {k: v for k, v in m.items() if k != "rep"}
        bits = case.get("bits") if isinstance(case.get("bits"), str) and case.get("bits") else None
    out = []
    for _ in range(3):
        op = random_stim(rng, cfg, msg, fe, bits)
        try:
            if op["t"] == "fe":
                fe_expected(op["fe"], op["msg"])  # only messages the reference can describe
        except Exception:
            continue
        out.append({"x": "stim", "a": op})
    return out


def oracle_interleaved(case):
    """case = {ops: [op, ...]}; op = {k: "fe", fe, msg} | {k: "eng", cfg, mode: singleton|bitwise|table, bits} | {k: "stream", cfg, mode:
    bitwise|table, chunks} | {k: "stim", t: fe|eng|reg, how, ...}.  All operations of a history run on the same long-lived objects
    (front-end singletons from freshly re-imported modules; one calculator / register per (cfg, mode) created at first use).
    Judged: fe - the value is the reference's, check() accepts it and refuses a neighbour; eng - calculate_checksum is the
    polynomial remainder, verify_checksum accepts it and refuses a neighbour; stream - init(); update() per chunk returns the
    remainder of the bits fed so far; digest() the remainder of all.  At the end every judged fe / eng operation is judged again."""
    ops = case["ops"]
    fams = []
    for op in ops:
        f = FAMILY_OF_FE.get(op.get("fe")) or op.get("cfg")
        if f not in fams:
            fams.append(f)
    importlib.reload(importlib.import_module("okdmr.dmrlib.etsi.crc.crc"))
    for f in fams:
        if f in FE_MODULE:
            importlib.reload(importlib.import_module(FE_MODULE[f][0]))
    H = _Hist()
    first = {}

    def judge(n, op, where):
        k = op["k"]
        steps = op.get("do") or ["calc", "accept", "refuse"]  # which calls of the judged operation run, in this order
        if k == "fe":
            fe, msg = op["fe"], op["msg"]
            key = json.dumps([fe, msg], sort_keys=True)
            if not _reference_applies(fe, msg) and key not in first:
                steps = ["calc"] + [x for x in steps if x != "calc"]
            for step in steps:
                exp = fe_expected(fe, msg) if _reference_applies(fe, msg) else first.get(key)
                if step == "calc":
                    got = _fe_call(fe, msg)
                    exp = first.setdefault(key, got) if exp is None else exp
                    if got != exp:
                        raise Fail("result_independent_of_earlier_calls", {"op": n, "crc": hex(got) if _is_int(got) else repr(got)}, {"op": n, "crc": hex(exp)}, f"{fe}:{where}")
                elif fe != "crc9" and step == "accept":
                    if _fe_check(fe, msg, exp) is not True:
                        raise Fail("verify_independent_of_earlier_calls", {"op": n, "result": False}, {"op": n, "result": True}, f"{fe}:{where}")
                elif fe != "crc9" and step == "refuse":
                    other = exp ^ (1 << (n % FE_WIDTH[fe]))
                    if _fe_check(fe, msg, other) is not False:
                        raise Fail("verify_independent_of_earlier_calls", {"op": n, "value": hex(other), "result": True}, {"op": n, "value": hex(other), "result": False}, f"{fe}:{where}")
        elif k == "eng":
            cfg, mode, s = op["cfg"], op["mode"], op["bits"]
            w = crc_ref.WIDTH[cfg]
            calc = H.calc(cfg, mode)
            exp = crc_ref.rem(cfg, crc_ref.bits_of(s))
            for step in steps:
                if step == "calc":
                    got = call(calc.calculate_checksum, bitarray(s))[1]
                    if not isinstance(got, bitarray) or len(got) != w or ba2int(got) != exp:
                        raise Fail("result_independent_of_earlier_calls", {"op": n, "crc": got.to01() if isinstance(got, bitarray) else repr(got)}, {"op": n, "crc": format(exp, f"0{w}b")}, f"{cfg}:{mode}:{where}")
                elif step == "accept":
                    if call(calc.verify_checksum, bitarray(s), exp)[1] is not True:
                        raise Fail("verify_independent_of_earlier_calls", {"op": n, "result": False}, {"op": n, "result": True}, f"{cfg}:{mode}:{where}")
                elif step == "refuse":
                    other = exp ^ (1 << (n % w))
                    if call(calc.verify_checksum, bitarray(s), other)[1] is not False:
                        raise Fail("verify_independent_of_earlier_calls", {"op": n, "value": hex(other), "result": True}, {"op": n, "value": hex(other), "result": False}, f"{cfg}:{mode}:{where}")
        elif k == "stream":
            cfg, mode = op["cfg"], op["mode"]
            w = crc_ref.WIDTH[cfg]
            reg = H.reg(cfg, mode)
            call(reg.init)
            sofar = ""
            for j, ch in enumerate(op["chunks"]):
                ret = call(reg.update, bitarray(ch))[1]
                sofar += ch
                exp = format(crc_ref.rem(cfg, crc_ref.bits_of(sofar)), f"0{w}b")
                if not isinstance(ret, bitarray) or ret.to01() != exp:
                    raise Fail("update_returns_remainder_of_bits_fed_so_far", {"op": n, "chunk": j, "register": ret.to01() if isinstance(ret, bitarray) else repr(ret)}, {"op": n, "chunk": j, "register": exp}, f"{cfg}:{mode}:{where}")
            exp = format(crc_ref.rem(cfg, crc_ref.bits_of(sofar)), f"0{w}b")
            dig = call(reg.digest)[1]
            if not isinstance(dig, bitarray) or dig.to01() != exp:
                raise Fail("streamed_digest_equals_polynomial_remainder", {"op": n, "digest": dig.to01() if isinstance(dig, bitarray) else repr(dig)}, {"op": n, "digest": exp}, f"{cfg}:{mode}:{where}")

    for n, op in enumerate(ops):
        if op["k"] == "stim":
            run_stim(H, op)
        else:
            judge(n, op, "in_history")
    for n, op in enumerate(ops):
        if op["k"] in ("fe", "eng"):
            judge(n, op, "at_end_of_history")


def _interleaved_directed(rng):
    det = []
    for fe in ["crc8", "crc9", "crc9_parts", "crc16", "crc32"]:
        fam = FAMILY_OF_FE[fe]
        for how in fe_stim_hows(fe):
            for via in (("calculate", "check") if fe != "crc9" and not how.startswith("value_") else ("calculate",)):
                msg = _rand_front_msg(fe, rng)
                while fe == "crc9_parts" and not any(bytes.fromhex(msg["data"])):
                    msg = _rand_front_msg(fe, rng)
                if how.startswith("crc32_") and msg.get("crc32") is None and rng.random() < 0.5:
                    msg["crc32"] = rng.randrange(1, 2**32)
                stim = {"k": "stim", "t": "fe", "fe": fe, "msg": msg, "how": how, "via": via, "pos": rng.randrange(64)}
                jf = {"k": "fe", "fe": fe, "msg": msg}
                bits = "".join(map(str, fe_message_bits(fe, msg))) or "1"
                je = {"k": "eng", "cfg": fam, "mode": "singleton", "bits": bits}
                sib = [f for f, x in FAMILY_OF_FE.items() if x == fam and f != fe]
                js = {"k": "fe", "fe": sib[0], "msg": _rand_front_msg(sib[0], rng)} if sib else je
                # X, refused / negative sibling call on X's own values, X again - through each entry point that shares the register
                det.append({"ops": [jf, stim, jf]})
                det.append({"ops": [stim, je]})
                det.append({"ops": [je, stim, js, jf]})
    for fe in ["crc8", "crc9", "crc9_parts", "crc16", "crc32"]:
        for kind in FE_TWIN_KINDS[fe]:
            for _ in range(3):
                msg = _rand_front_msg(fe, rng)
                tw = front_twin(fe, msg, kind, rng)
                # near twins through the same singleton alternately: X, X', X (and the engine form of X' in between)
                det.append({"ops": [{"k": "fe", "fe": fe, "msg": msg}, {"k": "fe", "fe": fe, "msg": tw}, {"k": "eng", "cfg": FAMILY_OF_FE[fe], "mode": "singleton", "bits": "".join(map(str, fe_message_bits(fe, tw))) or "0"},
                                    {"k": "fe", "fe": fe, "msg": msg}]})
                # the same with every single step of a judged operation as the last thing that happened before the twin
                for last_step in STEP_ORDERS:
                    det.append({"ops": [{"k": "fe", "fe": fe, "msg": msg, "do": last_step}, {"k": "fe", "fe": fe, "msg": tw, "do": [last_step[-1]] + [x for x in ("calc", "accept", "refuse") if x != last_step[-1]]},
                                        {"k": "fe", "fe": fe, "msg": msg, "do": ["calc"]}]})
    for cfg in CFGS:
        for mode in ("singleton", "bitwise", "table"):
            for how in ENG_HOWS:
                bits = _rand_bits(rng, rng.choice([rng.randrange(1, 60), rng.randrange(60, 401)]))
                stim = {"k": "stim", "t": "eng", "cfg": cfg, "mode": mode, "bits": bits, "how": how, "via": rng.choice(["calculate", "check"]), "pos": rng.randrange(64)}
                je = {"k": "eng", "cfg": cfg, "mode": mode, "bits": bits, "do": STEP_ORDERS[len(det) % len(STEP_ORDERS)]}
                ops = [je, stim, je]
                if mode == "singleton" and cfg in FE_MODULE:
                    fe = rng.choice([f for f, x in FAMILY_OF_FE.items() if x == cfg])
                    ops = [je, stim, {"k": "fe", "fe": fe, "msg": _rand_front_msg(fe, rng)}]
                det.append({"ops": ops})
        for mode in ("bitwise", "table"):
            for how in REG_HOWS:
                bits = _rand_bits(rng, rng.randrange(1, 120))
                k = rng.randrange(len(bits) + 1)
                stim = {"k": "stim", "t": "reg", "cfg": cfg, "mode": mode, "bits": bits, "how": how, "pos": rng.randrange(64)}
                js = {"k": "stream", "cfg": cfg, "mode": mode, "chunks": [bits[:k], bits[k:]]}
                det.append({"ops": [js, stim, js]})
    return det


def drv_interleaved(ctx: Ctx, sub: SubCheck):
    rng = ctx.rng("interleaved")
    det = _interleaved_directed(rng)
    chunks = [det[i::16] for i in range(16)]

    def cls_of(c):
        st_ = [o for o in c["ops"] if o["k"] == "stim"]
        if not st_:
            return "judged_only"
        o = st_[0]
        return f"stimulus_{o['t']}:" + (o.get("fe") or o.get("cfg"))

    def nontriv(c):
        ks = [o["k"] != "stim" for o in c["ops"]]
        return (False in ks and True in ks[ks.index(False):]) or len({json.dumps(o, sort_keys=True) for o in c["ops"]}) >= 2

    def random_history(r):
        cfg = r.choice(CFGS + ["crc9", "crc9"])
        fes = [f for f, x in FAMILY_OF_FE.items() if x == cfg]
        ops, last = [], {}
        for _ in range(r.randrange(2, 9)):
            x = r.random()
            c = cfg if r.random() < 0.85 else r.choice(CFGS)
            if x < 0.5:
                ops.append(random_stim(r, c, last.get("msg") if c == cfg else None, last.get("fe") if c == cfg else None, last.get("bits") if c == cfg else None))
            elif x < 0.75 and [f for f, y in FAMILY_OF_FE.items() if y == c]:
                fe = r.choice([f for f, y in FAMILY_OF_FE.items() if y == c])
                msg = _rand_front_msg(fe, r)
                if last.get("fe") == fe and r.random() < 0.6:
                    msg = last["msg"] if r.random() < 0.4 else front_twin(fe, last["msg"], r.choice(FE_TWIN_KINDS[fe]), r)
                ops.append({"k": "fe", "fe": fe, "msg": msg, "do": r.choice(STEP_ORDERS + [None, None])})
                if c == cfg:
                    last.update(fe=fe, msg=msg, bits="".join(map(str, fe_message_bits(fe, msg))) or "1")
            elif x < 0.92:
                bits = last["bits"] if last.get("bits") and r.random() < 0.4 else _rand_bits(r, r.choice([r.randrange(1, 80), r.randrange(1, 401)]))
                ops.append({"k": "eng", "cfg": c, "mode": r.choice(["singleton", "singleton", "bitwise", "table"]), "bits": bits, "do": r.choice(STEP_ORDERS + [None, None])})
                if c == cfg:
                    last["bits"] = bits
            else:
                bits = _rand_bits(r, r.randrange(1, 200))
                cuts = sorted(r.randrange(len(bits) + 1) for _ in range(r.randrange(0, 4)))
                ops.append({"k": "stream", "cfg": c, "mode": r.choice(["bitwise", "table"]), "chunks": [bits[a:b] for a, b in zip([0] + cuts, cuts + [len(bits)])]})
        return {"ops": ops}

    n_random = ctx.pick(25, 500)

    def work(item, t: Tally):
        r = ctx.rng("interleaved-random", item)
        todo = [(c, None) for c in chunks[item]] + [(random_history(r), True) for _ in range(n_random)]
        for n, (c, keyed) in enumerate(todo):
            if not ctx.run_case(sub.name, oracle_interleaved, c, t):
                # what a failing history left behind in this process may taint the next ones: report this one (it replays in a
                # fresh interpreter) and stop this worker
                t.excluded["histories not run after a failing history in the same worker"] += len(todo) - n - 1
                break
            t.case(sub.name, key=c if keyed else None, nontrivial=nontriv(c), cls=cls_of(c))
        if chunks[item]:
            t.sample(sub.name, chunks[item][0])

    ctx.shards(work, list(range(16)))
    ctx.tally.extra["interleaved_directed_histories"] = len(det)
    ctx.tally.notes.append(f"interleaved: {len(det)} directed histories (every refusable / negative / out-of-domain call shape of every front end, of calculate_checksum / verify_checksum on the singleton, a bitwise and a table calculator, and every abandoned / damaged register round, between judged operations on the same long-lived objects and the same message) + 16 x {n_random} seeded random histories of 2..8 operations")



SUBCHECKS = [
    SubCheck("captured_vectors", oracle_captured, drv_captured, "reference and library agree with CRC values captured from real radios"),
    SubCheck("extreme_outputs", oracle_extreme, drv_extreme, "messages constructed so that the CRC is 0 / all ones / 1 / top bit only / all ones - 1 / top bit clear, for every engine config and front end: value, modes, check incl. wrap-around neighbours"),
    SubCheck("engine_every_length", oracle_engine, drv_engine_lengths, "5 configs x every length 0..400 x {0s, 1s, random}: all calculators == M(x)x^w mod G"),
    SubCheck("engine_unit_vectors", oracle_engine, drv_engine_units, "all unit vectors of 7 lengths per config (with linearity: every message)"),
    SubCheck("engine_random", oracle_engine, drv_engine_random, "Hypothesis: (config, length 0..400, contents, previous message)"),
    SubCheck("verify_consistency", oracle_verify_consistency, drv_verify_consistency, "every container a calculator accepts (incl. little-endian arrays on the table register and the arrays the octet front ends build): verify_checksum accepts exactly ba2int(calculate_checksum(data))"),
    SubCheck("streaming", oracle_streaming, drv_streaming, "register workflow init(); update() x n; digest() with arbitrary split points (empty, 1-bit, zero-feed-leading chunks), both register classes: every intermediate register and the digest == remainder"),
    SubCheck("history", oracle_history, drv_history, "sequences of (related) messages through ONE calculator / front-end singleton from import-time state: each result is that message's own CRC"),
    SubCheck("interleaved", oracle_interleaved, drv_interleaved, "histories on long-lived singletons / calculators / registers: judged front-end, engine and streamed operations with rightly refused calls (each argument of each entry point: wrong type, length, range; iterables of parts; a generator that raises after its first part), negative checks, out-of-domain arguments and abandoned register rounds in between, through every sibling entry point that shares the register"),
    SubCheck("engine_linearity", oracle_linearity, drv_linearity, "Hypothesis: crc(a^b) == crc(a)^crc(b), both register modes"),
    SubCheck("front_crc8", oracle_front, make_front_driver("crc8", 50, 1200), "CRC8.calculate/check == plain remainder"),
    SubCheck("front_crc9", oracle_front, make_front_driver("crc9", 50, 1200), "CRC9.calculate == inverted remainder ^ mask (3 masks)"),
    SubCheck("front_crc9_parts", oracle_front, make_front_driver("crc9_parts", 60, 1500), "CRC9.calculate_from_parts/check == CRC-9 over data||crc32||sn7"),
    SubCheck("front_crc16", oracle_front, make_front_driver("crc16", 60, 1500), "CRC16.calculate/check == inverted remainder ^ mask (5 masks)"),
    SubCheck("front_crc32", oracle_front, make_front_driver("crc32", 50, 1200), "CRC32.calculate/check == remainder of the octet-pair-swapped data"),
    SubCheck("accept_exactly_computed", oracle_front, drv_accept_all_values, "check() over ALL 2^w values (w = 8, 9, 16) on sampled messages"),
    SubCheck("detect_weight_le3_ccitt", oracle_weight3, drv_weight3, "ALL 1..3-bit error patterns over a 96-bit CRC-CCITT PDU are detected"),
    SubCheck("detect_burst", oracle_burst, drv_burst, "bursts no longer than the CRC width always change the CRC (engines and front ends)"),
]
PREDICATES = {}
