"""C20 — repeater storage keeps one record per source address with a stable identity.

Model-based: every history of storage operations is applied to the real RepeaterStorage and to a list-of-records model;
after every operation the complete observable state (len, all(), ids, every built-in field, every dynamic attribute of
every record, object identity) is compared.  Histories: (a) complete enumeration of all sequences over a reduced alphabet
of concrete operations up to a bounded length, (b) Hypothesis RuleBasedStateMachine with generated arguments.
"""
from __future__ import annotations

import itertools
import uuid

from vp.core import Ctx, Fail, SubCheck, Tally, make_machine, replay_ops_oracle

LEVEL = "exploration"
RULE = (
    "histories of storage operations {match_incoming(addr, auto_create, patch), save, match_attr, match_ip_incoming, "
    "match_uuid, attr get/set, delete_attr, Repeater.patch} over a pool of 4 addresses (two sharing an IP), 3 dynamic keys "
    "and the patchable built-in fields; (a) ALL sequences over a reduced alphabet of concrete ops up to the bound stated in "
    "'exhaustive_history_length', (b) random histories from a Hypothesis RuleBasedStateMachine.  Oracle: list-of-records "
    "reference model compared with the full observable state after every op.  Distinct = hash of the op sequence; "
    "non-trivial = the history has >= 2 records and applies a patch while both exist."
)
ASSUMPTIONS = [
    "not generated (documented caller errors): patching 'id' or keys that are method names / logger, saving a repeater "
    "that did not come from this storage, values of the wrong type for built-in fields",
    "allowed deviations (may raise, must leave the storage unchanged): match_incoming(unseen, auto_create=False, "
    "patch!={}) -> AttributeError; delete_attr(missing) -> KeyError; match_uuid(unknown) -> SystemError (documented)",
]

# syntactically diverse hosts (IPv4, IPv6 loopback / link-local with zone, both sharing-an-IP cases); IPv4-mapped IPv6 forms
# are deliberately absent: whether "::ffff:10.0.0.1" and "10.0.0.1" are the same peer is not for this check to decide
ADDRS = [["10.0.0.1", 50000], ["10.0.0.1", 50001], ["::1", 50000], ["fe80::1%eth0", 62000]]
# wider pool for the random histories (after seeded change C20-3: string handling that only bites hosts starting with
# ':' / 'f', or that makes two distinct hosts collide)
ADDRS_WIDE = ADDRS + [["10.0.0.2", 50000], ["1", 50000], ["e80::1%eth0", 62000], ["ff02::1", 1], ["fd00::2", 65535], ["fritz.box", 0],
                      ["ritz.box", 0], ["localhost", 65535], ["", 0], ["", 1], ["::", 0], ["0.0.0.0", 0], ["255.255.255.255", 65535]]
EMPTY = ["", 0]
# dynamic keys incl. near-misses of built-in field names (no fuzzy / case-insensitive matching may happen)
DYN_KEYS = ["registered", "rdac_step", "custom", "Callsign", "address_in_", "dmr-id"]


def _harvest_keys():
    """attribute names that mean something elsewhere in the library (value pool only, never part of an oracle): every SNMP
    OID string read_snmp_values() feeds into patch(), and the storage attribute names the protocol handlers use (after
    seeded change C20-4: a patch loop that treats three OID keys specially)"""
    keys = []
    try:
        from okdmr.dmrlib.hytera.snmp import SNMP

        keys += sorted(v for k, v in vars(SNMP).items() if k.startswith("OID_") and isinstance(v, str))
    except Exception:
        pass
    try:
        import okdmr.dmrlib.protocols.hytera.p2p_datagram_protocol as p2p
        import okdmr.dmrlib.protocols.hytera.rdac_datagram_protocol as rdac

        for mod in (p2p, rdac):
            for cls in vars(mod).values():
                if isinstance(cls, type):
                    keys += sorted(v for k, v in vars(cls).items() if k.startswith("STORAGE_ATTR") and isinstance(v, str))
    except Exception:
        pass
    out = []
    for k in keys:
        if k not in out and k not in DYN_KEYS:
            out.append(k)
    return out


DYN_KEYS = DYN_KEYS + _harvest_keys()
ADDR_FIELDS = ["address_in", "address_out", "address_nat"]
SCALAR_FIELDS = {"dmr_id": [0, 1, 2, 2300001, 16777215, 4294967295], "callsign": ["", "OK1AAA", "OK2BBB", "ok1aaa"], "serial": ["S1", "S2"], "snmp_enabled": [True, False], "nat_enabled": [True, False]}
FIELDS = ADDR_FIELDS + list(SCALAR_FIELDS)
DYN_VALUES = [True, False, 0, 7, -1, "", "x", None]


def _addr(a):
    return tuple(a) if a is not None else None


def _conv_patch(patch: dict) -> dict:
    return {k: (_addr(v) if k in ADDR_FIELDS else v) for k, v in patch.items()}


class Runner:
    """Reference model + real storage."""

    def __init__(self):
        from okdmr.dmrlib.storage.repeater_storage import RepeaterStorage

        self.real = RepeaterStorage()
        self.recs = []  # model: ordered list of {"obj": Repeater, "id": UUID, "fields": {...}, "attrs": {...}}
        self.n_patch_with_two = 0
        self.n_ambiguous = 0
        self.stable = {}  # address -> model record returned at the last lookup of that address (see _check_any)
        self.n_ops = 0
        self.kinds = set()

    # -- model helpers ---------------------------------------------------------------------
    def _first(self, pred):
        for r in self.recs:
            if pred(r):
                return r
        return None

    def _model_patch(self, rec, patch):
        for k, v in patch.items():
            if k in FIELDS:
                if k == "address_in":
                    self._touch(rec["fields"][k], _addr(v))
                rec["fields"][k] = _addr(v) if k in ADDR_FIELDS else v
            elif v is not None:
                rec["attrs"][k] = v
        if len(self.recs) >= 2 and patch:
            self.n_patch_with_two += 1

    def _rec_of(self, idx):
        return self.recs[idx % len(self.recs)] if self.recs else None

    def _check_result(self, got, exp_rec, what):
        if exp_rec is None:
            if got is not None:
                raise Fail(f"{what}_returns_none_when_no_record_matches", repr(got), None)
            return
        if got is None:
            raise Fail(f"{what}_returns_matching_record", None, str(exp_rec["id"]))
        if got is not exp_rec["obj"]:
            raise Fail(f"{what}_returns_same_object_for_same_record", f"object with id {getattr(got, 'id', None)}", f"the object first returned for id {exp_rec['id']}")

    def _check_any(self, got, matching, what, key=None):
        """`got` must be one of the records that match (None when none does).  The statement speaks of ONE record per address;
        when patches have given several records the same key the choice among them is the library's, but it must be stable:
        the same record as at the previous lookup of that key unless an address change / creation involving the key happened
        in between (self.stable[key] is dropped by _touch)."""
        if not matching:
            if got is not None:
                raise Fail(f"{what}_returns_none_when_no_record_matches", repr(got), None)
            return None
        if got is None:
            raise Fail(f"{what}_returns_matching_record", None, [str(r["id"]) for r in matching])
        rec = next((r for r in matching if r["obj"] is got), None)
        if rec is None:
            raise Fail(f"{what}_returns_same_object_for_same_record", f"object with id {getattr(got, 'id', None)}",
                       "one of the objects first returned for id(s) " + ", ".join(str(r["id"]) for r in matching))
        if len(matching) > 1:
            self.n_ambiguous += 1
        if key is not None:
            prev = self.stable.get(key)
            if prev is not None and prev is not rec:
                raise Fail(f"{what}_returns_same_object_for_same_record", f"object with id {rec['id']}",
                           f"the object returned at the previous lookup of this address (id {prev['id']}); no address changed in between")
            self.stable[key] = rec
        return rec

    def _touch(self, *addrs):
        for a in addrs:
            self.stable.pop(a, None)

    # -- ops -------------------------------------------------------------------------------
    def apply(self, op):
        self.n_ops += 1
        kind = op["op"]
        self.kinds.add(kind)
        getattr(self, "op_" + kind)(op)
        self.compare_state(op)

    def op_match_incoming(self, op):
        addr = _addr(op["addr"])
        patch = op.get("patch") or {}
        auto = bool(op["auto_create"])
        matching = [r for r in self.recs if r["fields"]["address_in"] == addr]
        exp = matching[0] if matching else None
        n_before = len(self.real)
        if exp is None and not auto and patch:
            # documented deviation: the call raises AttributeError on the missing record; storage must stay unchanged
            try:
                got = self.real.match_incoming(addr, auto_create=auto, patch=_conv_patch(patch))
            except AttributeError:
                return
            if got is not None:
                raise Fail("match_incoming_miss_without_autocreate_returns_none", repr(got), None)
            return
        got = self.real.match_incoming(addr, auto_create=auto, patch=_conv_patch(patch))
        if exp is None and auto:
            if got is None:
                raise Fail("auto_create_returns_new_record", None, "a new Repeater")
            if any(got is r["obj"] for r in self.recs):
                raise Fail("auto_create_of_unseen_address_creates_new_record", f"existing record {got.id}", "a new record")
            # The statement fixes the key (address_in) of a fresh record and what the patch names; the initial values of
            # all other built-in fields / dynamic attributes are the library's choice: they are adopted as observed here
            # and must then only ever change through patches naming them.
            rec = {
                "obj": got,
                "id": got.id,
                "fields": {f: (addr if f == "address_in" else getattr(got, f)) for f in FIELDS},
                "attrs": {k: v for k in DYN_KEYS if k not in patch for v in [got.attr(k)] if v is not None},
            }
            self.recs.append(rec)
            self._touch(addr)
            self._model_patch(rec, patch)
            return
        hit = self._check_any(got, matching, "match_incoming", key=addr)
        if hit is not None:
            self._model_patch(hit, patch)
        if not auto and len(self.real) != n_before:
            raise Fail("lookup_without_autocreate_never_grows_storage", len(self.real), n_before)

    def op_save(self, op):
        rec = self._rec_of(op["rec"])
        if rec is None:
            return
        patch = op.get("patch") or {}
        got = self.real.save(rec["obj"], patch=_conv_patch(patch))
        self._check_result(got, rec, "save")
        self._model_patch(rec, patch)

    def op_patch(self, op):
        rec = self._rec_of(op["rec"])
        if rec is None:
            return
        patch = op.get("patch") or {}
        got = rec["obj"].patch(_conv_patch(patch))
        self._check_result(got, rec, "patch")
        self._model_patch(rec, patch)

    def op_match_attr(self, op):
        f, v = op["field"], op["value"]
        v = _addr(v) if f in ADDR_FIELDS else v
        matching = [r for r in self.recs if r["fields"][f] == v]
        self._check_any(self.real.match_attr(f, v), matching, "match_attr", key=(v if f == "address_in" else None))

    def op_match_ip_incoming(self, op):
        ip = op["ip"]
        matching = [r for r in self.recs if r["fields"]["address_in"] is not None and r["fields"]["address_in"][0] == ip]
        self._check_any(self.real.match_ip_incoming(ip), matching, "match_ip_incoming")

    def op_match_uuid(self, op):
        if op.get("unknown") or not self.recs:
            u = uuid.UUID(int=op.get("rec", 0) + 1)
            try:
                got = self.real.match_uuid(u)
            except SystemError:
                return
            if got is not None:
                raise Fail("match_uuid_unknown_raises_or_none", repr(got), "SystemError (documented) or None")
            return
        rec = self._rec_of(op["rec"])
        self._check_result(self.real.match_uuid(rec["id"]), rec, "match_uuid")

    def op_attr(self, op):
        rec = self._rec_of(op["rec"])
        if rec is None:
            return
        key, val = op["key"], op.get("value")
        got = rec["obj"].attr(key, val)
        if val is None:
            exp = rec["attrs"].get(key)
        else:
            rec["attrs"][key] = val
            exp = val
        if got != exp or type(got) is not type(exp):
            raise Fail("attr_returns_stored_value", repr(got), repr(exp))

    def op_delete_attr(self, op):
        rec = self._rec_of(op["rec"])
        if rec is None:
            return
        key = op["key"]
        if key in rec["attrs"]:
            got = rec["obj"].delete_attr(key)
            del rec["attrs"][key]
            if got is not True:
                raise Fail("delete_attr_returns_true_for_present_key", got, True)
        else:
            try:
                got = rec["obj"].delete_attr(key)
            except KeyError:
                return  # documented deviation (docstring promises False); state must be unchanged (compared below)
            if got is not False:
                raise Fail("delete_attr_returns_false_for_missing_key", got, False)

    # -- invariant: complete observable state ------------------------------------------------
    def compare_state(self, op):
        real = self.real
        if len(real) != len(self.recs):
            raise Fail("len_equals_number_of_created_records", len(real), len(self.recs))
        allr = real.all()
        if len(allr) != len(self.recs):
            raise Fail("all_lists_every_record", len(allr), len(self.recs))
        ids = [r.id for r in allr]
        if len(set(ids)) != len(ids):
            raise Fail("no_two_records_with_same_id", [str(i) for i in ids], "pairwise distinct ids")
        for i, (obj, rec) in enumerate(zip(allr, self.recs)):
            if obj is not rec["obj"]:
                raise Fail("record_identity_stable", f"record {i} is a different object", "same object as first returned")
            if obj.id != rec["id"]:
                raise Fail("record_id_stable", str(obj.id), str(rec["id"]))
            for f in FIELDS:
                got = getattr(obj, f)
                if got != rec["fields"][f]:
                    raise Fail("patch_changes_exactly_named_fields", {"record": i, "field": f, "value": repr(got)}, {"record": i, "field": f, "value": repr(rec["fields"][f])})
            for k in DYN_KEYS:
                got = obj.attr(k)
                exp = rec["attrs"].get(k)
                if got != exp or type(got) is not type(exp):
                    raise Fail("patch_changes_exactly_named_attrs", {"record": i, "key": k, "value": repr(got)}, {"record": i, "key": k, "value": repr(exp)})

    def nontrivial(self):
        return len(self.recs) >= 2 and self.n_patch_with_two > 0

    def classes(self):
        out = []
        if len(self.recs) >= 2:
            out.append("two_or_more_records")
        if self.n_patch_with_two:
            out.append("patch_while_two_records_exist")
        if len({r["fields"]["address_in"] for r in self.recs}) < len(self.recs):
            out.append("duplicate_address_in_after_patch")
        if self.n_ambiguous:
            out.append("lookup_with_several_matching_records")
        return out


oracle_history = replay_ops_oracle(Runner)

# ---------------------------------------------------------------------------------------------- exhaustive part

ALPHABET = [
    {"op": "match_incoming", "addr": ADDRS[0], "auto_create": True, "patch": {}},
    {"op": "match_incoming", "addr": ADDRS[1], "auto_create": True, "patch": {"registered": True}},
    {"op": "match_incoming", "addr": ADDRS[2], "auto_create": True, "patch": {"address_out": ADDRS[3], "custom": None}},
    {"op": "match_incoming", "addr": ADDRS[0], "auto_create": False, "patch": {"dmr_id": 2300001, "rdac_step": 7}},
    {"op": "match_incoming", "addr": ADDRS[1], "auto_create": False, "patch": {}},
    {"op": "match_incoming", "addr": ADDRS[0], "auto_create": True, "patch": {"address_in": ADDRS[1]}},
    {"op": "save", "rec": 0, "patch": {"callsign": "OK1AAA", "custom": "x"}},
    {"op": "save", "rec": 1, "patch": {"nat_enabled": True, "address_nat": ADDRS[2]}},
    {"op": "patch", "rec": 1, "patch": {"registered": False, "snmp_enabled": False}},
    {"op": "match_attr", "field": "address_in", "value": ADDRS[1]},
    {"op": "match_ip_incoming", "ip": "::1"},
    {"op": "match_uuid", "rec": 1},
    {"op": "attr", "rec": 0, "key": "registered", "value": 0},
    {"op": "delete_attr", "rec": 0, "key": "registered"},
] + ([{"op": "save", "rec": 0, "patch": {k: "Praha" for k in DYN_KEYS if k.startswith("1.3.6.1.4.1.40297.1.2.4.")}}] if any(k.startswith("1.3.6.1.4.1.40297.1.2.4.") for k in DYN_KEYS) else [])


def drv_exhaustive(ctx: Ctx, sub: SubCheck):
    depth = ctx.pick(5, 6)
    n = len(ALPHABET)
    # shard by the first two ops
    items = list(itertools.product(range(n), repeat=2))

    def work(prefix, t: Tally):
        for L in range(2, depth + 1):
            for rest in itertools.product(range(n), repeat=L - 2):
                seq = list(prefix) + list(rest)
                case = {"ops": [ALPHABET[i] for i in seq]}
                r = Runner()
                ok = True
                try:
                    for op in case["ops"]:
                        r.apply(op)
                except Fail as f:
                    ctx.judge(sub.name, case, f, t)
                    ok = False
                except Exception as e:
                    from vp.core import exc_klass, lib_raised

                    if not lib_raised(e):
                        raise
                    ctx.judge(sub.name, case, Fail("no_unexpected_exception", f"{type(e).__name__}: {e}", "no exception", exc_klass(e)), t)
                    ok = False
                t.case(sub.name, nontrivial=r.nontrivial(), cls=f"len_{L}")
                if r.nontrivial() and (hash(tuple(seq)) % 4001 == 0):
                    t.sample(sub.name, {"alphabet_indices": seq})

    ctx.shards(work, items)
    # length-1 histories
    for i in range(n):
        ctx.run_case(sub.name, oracle_history, {"ops": [ALPHABET[i]]})
        ctx.tally.case(sub.name, cls="len_1")
    ctx.tally.exhaustive[sub.name] = True
    ctx.tally.extra["exhaustive_history_length"] = depth
    ctx.tally.extra["exhaustive_alphabet"] = ALPHABET
    ctx.tally.notes.append(f"exhaustive over all op sequences of length <= {depth} over the {n}-op reduced alphabet (the property text's length 8 = 14^8 ~ 1.5e9 is not attempted)")


# ---------------------------------------------------------------------------------------------- random part


def _strategies():
    from hypothesis import strategies as st

    addr = st.sampled_from(ADDRS_WIDE)
    addr_or_empty = st.sampled_from(ADDRS_WIDE + [EMPTY])
    field_patch = st.fixed_dictionaries(
        {},
        optional={
            **{f: addr_or_empty for f in ["address_out", "address_nat"]},
            "address_in": addr,
            **{f: st.sampled_from(v) for f, v in SCALAR_FIELDS.items()},
            **{k: st.sampled_from(DYN_VALUES) for k in DYN_KEYS},
        },
    )
    patch = st.one_of(st.just({}), field_patch)
    rec = st.integers(0, 5)
    rules = {
        "match_incoming": st.builds(lambda a, c, p: {"op": "match_incoming", "addr": a, "auto_create": c, "patch": p}, addr, st.booleans(), patch),
        "save": (st.builds(lambda r, p: {"op": "save", "rec": r, "patch": p}, rec, patch), lambda r: bool(r.recs)),
        "patch": (st.builds(lambda r, p: {"op": "patch", "rec": r, "patch": p}, rec, patch), lambda r: bool(r.recs)),
        "match_attr": st.one_of(
            st.builds(lambda f, v: {"op": "match_attr", "field": f, "value": v}, st.sampled_from(ADDR_FIELDS), addr_or_empty),
            *[st.builds(lambda v, f=f: {"op": "match_attr", "field": f, "value": v}, st.sampled_from(vals)) for f, vals in SCALAR_FIELDS.items()],
        ),
        "match_ip_incoming": st.builds(lambda ip: {"op": "match_ip_incoming", "ip": ip}, st.sampled_from(sorted({a[0] for a in ADDRS_WIDE} | {"10.9.9.9"}))),
        "match_uuid": st.builds(lambda r, u: {"op": "match_uuid", "rec": r, "unknown": u}, rec, st.booleans()),
        "attr": (st.builds(lambda r, k, v: {"op": "attr", "rec": r, "key": k, "value": v}, rec, st.sampled_from(DYN_KEYS), st.sampled_from(DYN_VALUES)), lambda r: bool(r.recs)),
        "delete_attr": (st.builds(lambda r, k: {"op": "delete_attr", "rec": r, "key": k}, rec, st.sampled_from(DYN_KEYS)), lambda r: bool(r.recs)),
    }
    return rules


def drv_random(ctx: Ctx, sub: SubCheck):
    M = make_machine("RepeaterStorageMachine", Runner, _strategies())

    def work(shard, t: Tally):
        ctx.state_machine(sub.name, M, max_examples=ctx.pick(80, 400), step_count=ctx.pick(100, 300), tally=t, shard=shard)

    ctx.shards(work, list(range(16)))


def drv_duplicates(ctx: Ctx, sub: SubCheck):
    """Directed histories for the one situation in which the choice of the returned record is the library's: patches have
    given two or three records the same address_in.  Every way of getting there x every single-field perturbation of every
    record (built-in scalar / address fields with every pool value, a few dynamic attributes) x every way of applying it,
    with lookups of the shared address (all three lookup calls) before and after: the record returned must not change,
    because no address changed in between (Runner._check_any)."""
    a0, a1, a2 = ADDRS[0], ADDRS[1], ADDRS[2]
    mk = lambda a, p=None: {"op": "match_incoming", "addr": a, "auto_create": True, "patch": p or {}}
    look = [{"op": "match_incoming", "addr": a1, "auto_create": False, "patch": {}}, {"op": "match_attr", "field": "address_in", "value": a1},
            {"op": "match_ip_incoming", "ip": a1[0]}]
    setups = {
        "older_moved_onto_newer": [mk(a0), mk(a1), {"op": "save", "rec": 0, "patch": {"address_in": a1}}],
        "newer_moved_onto_older": [mk(a1), mk(a0), {"op": "patch", "rec": 1, "patch": {"address_in": a1}}],
        "created_with_patch": [mk(a1), mk(a0, {"address_in": a1})],
        "three_records": [mk(a0), mk(a1), mk(a2), {"op": "save", "rec": 0, "patch": {"address_in": a1}}, {"op": "save", "rec": 2, "patch": {"address_in": a1}}],
    }
    perturbations = [(f, v) for f, vals in SCALAR_FIELDS.items() for v in vals] + [("address_out", a2), ("address_nat", a2), ("address_out", EMPTY)]
    perturbations += [(k, v) for k in DYN_KEYS[:6] for v in (True, "x", 7)]
    n = 0
    for sname, setup in setups.items():
        nrec = 3 if sname == "three_records" else 2
        for f, v in perturbations:
            for target in range(nrec):
                for how in ("save", "patch"):
                    for second in (None, (target + 1) % nrec):
                        ops = list(setup) + look + [{"op": how, "rec": target, "patch": {f: v}}] + look
                        if second is not None:
                            ops += [{"op": "save", "rec": second, "patch": {f: v}}] + look
                        ctx.run_case(sub.name, oracle_history, {"ops": ops})
                        ctx.tally.case(sub.name, nontrivial=True, cls=f"{sname}.{'builtin' if f in FIELDS else 'dynamic'}")
                        n += 1
    ctx.tally.notes.append(f"{sub.name}: {n} directed histories")


def drv_long_runs(ctx: Ctx, sub: SubCheck):
    """Lesson A.3 (thresholds only long homogeneous runs reach): many records, and one op repeated many times.
    (a) N auto-creating lookups of N distinct addresses (N = 300 / 1200), then every address looked up again three times
    (same object, nothing created), each record patched with its own dmr_id / dynamic attribute, every other record
    unchanged (the full-state comparison after every op does that), lookups again;
    (b) each of a handful of ops repeated 300 times on a storage with three records."""
    n = ctx.pick(300, 1200)
    addrs = [[f"10.{1 + i // 250}.{i % 250}.{(i * 7) % 250 + 1}", 50000 + (i % 3)] for i in range(n)]
    ops = [{"op": "match_incoming", "addr": a, "auto_create": True, "patch": {}} for a in addrs]
    for rnd in range(2):
        ops += [{"op": "match_incoming", "addr": a, "auto_create": bool(rnd), "patch": {}} for a in addrs[:: 1 + rnd]]
    ops += [{"op": "match_incoming", "addr": a, "auto_create": False, "patch": {"dmr_id": 1000 + i, DYN_KEYS[i % len(DYN_KEYS)]: i}} for i, a in enumerate(addrs[::5])]
    ops += [{"op": "match_incoming", "addr": a, "auto_create": False, "patch": {}} for a in addrs[::3]]
    # the full-state comparison after every op is quadratic in the number of records: compare every 25th op and at the end
    case = {"ops": ops, "compare_every": 25}
    ctx.run_case(sub.name, oracle_history_sparse, case)
    ctx.tally.case(sub.name, key={"many_records": n}, nontrivial=True, cls=f"many_records_{n}")
    a0, a1, a2 = ADDRS[0], ADDRS[1], ADDRS[2]
    setup = [{"op": "match_incoming", "addr": a, "auto_create": True, "patch": {}} for a in (a0, a1, a2)]
    repeated = [
        {"op": "match_incoming", "addr": a1, "auto_create": False, "patch": {}},
        {"op": "match_incoming", "addr": a1, "auto_create": True, "patch": {"registered": True}},
        {"op": "match_incoming", "addr": ["10.9.9.9", 1], "auto_create": False, "patch": {}},
        {"op": "save", "rec": 1, "patch": {"callsign": "OK1AAA"}},
        {"op": "match_attr", "field": "address_in", "value": a2},
        {"op": "match_ip_incoming", "ip": a1[0]},
        {"op": "match_uuid", "rec": 2},
        {"op": "attr", "rec": 0, "key": DYN_KEYS[0], "value": 7},
        {"op": "delete_attr", "rec": 0, "key": DYN_KEYS[0]},
    ]
    for op in repeated:
        for reps in (10, 33, 300):
            case = {"ops": setup + [op] * reps + [{"op": "match_incoming", "addr": a, "auto_create": False, "patch": {}} for a in (a0, a1, a2)]}
            ctx.run_case(sub.name, oracle_history, case)
            ctx.tally.case(sub.name, key=case, nontrivial=True, cls=f"one_op_repeated_{reps}")


def oracle_history_sparse(case):
    """replay with the (quadratic) full-state comparison only after every `compare_every`-th op and after the last one"""
    r = Runner()
    every = int(case.get("compare_every", 1))
    full = r.compare_state
    for i, op in enumerate(case["ops"]):
        r.compare_state = full if (i % every == 0 or i == len(case["ops"]) - 1) else (lambda op: None)
        r.apply(op)


SUBCHECKS = [
    SubCheck("long_runs", oracle_history, drv_long_runs, "300 / 1200 records created, re-looked-up and patched one by one; single ops repeated 10 / 33 / 300 times"),
    SubCheck("duplicate_address_stability", oracle_history, drv_duplicates, "directed histories: several records share one address_in, single-field perturbations, the returned record must stay the same"),
    SubCheck("exhaustive_histories", oracle_history, drv_exhaustive, "all op sequences over a 14-op alphabet up to length 5 (quick) / 6 (thorough) vs the reference model"),
    SubCheck("random_histories", oracle_history, drv_random, "Hypothesis RuleBasedStateMachine histories (up to 60 / 300 steps) vs the reference model"),
]
PREDICATES = {}
