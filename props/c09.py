"""C09 — variable-length BPTCs: embedded LC (128,72), CACH short LC (68,28), single burst (32,11).

Oracle kinds: independent reference encoders (vp/refs/bptc_ref.py: closed-form column-wise layouts + cyclic Hamming
reference + B.3.11 / B.3.7 checksums), round trip through the library's extractors, three-way re-encoding equality, and a
metamorphic (linearity) relation that justifies sampling the two large message spaces.
(32,11) is enumerated completely for both parities.  See DESIGN.md §4 C09.
"""
from __future__ import annotations

from bitarray import bitarray, frozenbitarray
from bitarray.util import int2ba

from vp.core import Ctx, Fail, SubCheck, Tally, call
from vp.refs import bptc_ref, gf2

LEVEL = "exploration"
RULE = (
    "(32,11): all 2^11 messages x {even, odd} column parity (complete enumeration, distinct by construction).  (68,28): "
    "zero word, all-ones, the 28 unit messages, a deterministic boundary set (each octet group all-ones / all but one group "
    "ones, complements of the unit messages, alternating patterns, messages solved by construction so that the CRC-8 is "
    "0x00, 0x01, 0x80, 0xFF, ... over eight fixed backgrounds) and Hypothesis-drawn 28-bit messages.  (128,72): zero word, "
    "all-ones, the 72 unit messages, the same deterministic boundary set (checksum solved to 0, 1, 16, 30, 15, 29 over seven "
    "fixed backgrounds), an 'accumulator extremes' set (constant fill with every octet value, 2-octet periods, all octets in one residue class "
    "modulo 31 for every residue, every 29/30 and 0/1 residue mixture, prefixes with extreme running CRC-8 remainder, extreme "
    "row / column weights - inputs that drive the PARTIAL quantities of the computation to their extremes), a directed set built by construction to hit every checksum value 0..30 (eight random octets + one octet "
    "solved for the target; all-0xFF / carry-heavy octets) and Hypothesis-drawn 72-bit messages.  containers: the same messages (all 2^11 x both parities for (32,11); basis + boundary + Hypothesis-drawn for the other two) "
    "held in a little-endian bitarray / frozenbitarray of either endianness.  after_sibling_calls: a case is (code, message[, parity], "
    "a list of sibling calls, judged-first flag); a sibling call is one other entry point of the anchored modules - CRC8.calculate / check / "
    "CALC.verify_checksum / CALC.calculate_checksum with the right, a wrong, an out-of-range checksum, a wrong type, the CRC register "
    "workflow, fresh calculators, the CRC-9/16/32 calculators, ShortLinkControl over message + CRC, FiveBitChecksum.calculate / verify, "
    "generate / check / check_and_correct / correct_numpy_array of all five Hamming classes, encode (every input form, both parities) and "
    "the extractors of all three codes, their table helpers, each also with refused lengths / types - applied to a value RELATED to the "
    "message (the message, message + checksum, the codeword, prefixes, the same bits fitted to 11 / 28 / 72 bits, the rows of its matrix, "
    "words with 1-2 bit errors).  Every call kind (x Hamming class / x code) once alone per code and seeded message, plus seeded sequences of "
    "2-6 calls with repeats; the message is judged with every clause of the code's oracle before and after the calls, or only after.  "
    "The same sibling calls are what the framework's preludes run between two judgements of every 8th case of the other sub-checks "
    "(prelude_for).  linearity: Hypothesis "
    "pairs (a,b) per code.  A case is (code, message[, parity]); distinct by hash.  Non-trivial: non-zero message; for "
    "(128,72) additionally the 5-bit checksum is not a bit palindrome (a palindromic checksum cannot see the order of the "
    "checksum bits); for linearity a, b, a^b all non-zero."
)
ASSUMPTIONS = [
    "transmitted matrix layouts are closed forms (128: position = col*8+row; 68: col*4+row; 32: code row at 2*col, parity "
    "row at (2*col+17) mod 32), rows = cyclic Hamming(16,11,4) / (17,12,3) reference of vp/refs/gf2.py, 5-bit checksum = "
    "sum of the nine octets mod 31 with CS4 in matrix row 2 .. CS0 in row 6 (column 10), CRC-8 = x^8+x^2+x+1 remainder "
    "placed CR7 first in row 2 columns 4..11.  These were derived from ETSI TS 102 361-1 B.2/B.3 and validated offline "
    "against every on-air capture the repository carries (9 embedded-LC, 2 short-LC, 1 single-burst vector): each capture "
    "is bit-for-bit a codeword of the reference (probability of an accidental match < 2^-20 each)",
    "checksum conventions of the library's extractors are the ones the repository's own tests assert: "
    "deinterleave_cs5_bits == int2ba(cs, 5) (CS4 first); deinterleave_crc8_bits == int2ba(crc, 8, endian='little') "
    "(bit-reversed, pinned by test_vbptc_68_36)",
    "main sub-checks use big-endian bitarrays (what every caller in the library passes).  Sub-check `containers` adds the "
    "representation variants the unchanged tree gets right: every extractor and encode(de-interleaved matrix) in little-endian "
    "bitarrays and frozenbitarrays; encode(message) / encode(message+checksum) fully for (32,11) and for big-endian "
    "frozenbitarrays.  NOT claimed: the checksum bits that (128,72)/(68,28) encode for a message held in a LITTLE-endian "
    "container - /repo computes CS5 over tobytes() and CRC-8 through the CRC register, both read the container's endianness "
    "flag, so the codeword carries the checksum of the octet-wise bit-reversed message (195 of 200 / 199 of 200 random "
    "messages); this is the little-endian limitation of C05's domain, only round trip and row / column rules are judged there",
]

CODES = {
    # name: (k, n, hex digits of a message)
    "128_72": (72, 128, 18),
    "68_28": (28, 68, 7),
    "32_11": (11, 32, 3),
}


def lib(code):
    if code == "128_72":
        from okdmr.dmrlib.etsi.fec.vbptc_128_72 import VBPTC12873 as V
    elif code == "68_28":
        from okdmr.dmrlib.etsi.fec.vbptc_68_28 import VBPTC6828 as V
    else:
        from okdmr.dmrlib.etsi.fec.vbptc_32_11 import VBPTC3211 as V
    return V


def msg_bits(code, msg) -> bitarray:
    k = CODES[code][0]
    v = int(msg, 16) if isinstance(msg, str) else int(msg)
    if not 0 <= v < (1 << k):
        raise ValueError("message out of range for " + code)
    return int2ba(v, k, endian="big")


def _hex(code, v: int) -> str:
    return "%0*x" % (CODES[code][2], v)


def _is_pal5(cs: int) -> bool:
    b = gf2.int_to_bits(cs, 5)
    return b == b[::-1]


def _ba(x) -> bitarray:
    return bitarray([int(v) for v in x])


def _preimport():
    """Hypothesis (6.13x and later) mixes constants harvested from the source of every *local* module present in
    sys.modules into its draws.  The library modules an oracle imports lazily would therefore make the generated cases
    depend on which forked worker happened to run which shard first.  Import everything the oracles touch in the parent,
    before any worker is forked, so that every worker sees the same module set."""
    import importlib
    import pkgutil

    import okdmr.dmrlib.etsi as etsi

    for m in pkgutil.walk_packages(etsi.__path__, "okdmr.dmrlib.etsi."):
        importlib.import_module(m.name)
    importlib.import_module("okdmr.dmrlib.etsi.layer2.burst")
    importlib.import_module("hypothesis.strategies")


# ---------------------------------------------------------------------------------------------- oracle


def oracle_code(case):
    """case = {code, msg[, even]}"""
    code = case["code"]
    k, n, _ = CODES[code]
    V = lib(code)
    m = msg_bits(code, case["msg"])
    ml = m.tolist()
    even = bool(case.get("even", True))
    enc_kw = {} if code != "32_11" else {"even_parity": even}

    arg = m.copy()
    st, enc = call(V.encode, arg, **enc_kw)
    if arg != m:
        raise Fail("encode_does_not_mutate_input", arg.to01(), m.to01())
    if len(enc) != n:
        raise Fail("encoded_length", len(enc), n)
    enc = _ba(enc)
    el = enc.tolist()

    # (RT) extractor returns the message
    arg = enc.copy()
    if code == "128_72":
        st, dec = call(V.deinterleave_data_bits, arg, include_cs5=False)
    elif code == "68_28":
        st, dec = call(V.deinterleave_data_bits, arg, include_crc8=False)
    else:
        st, dec = call(V.deinterleave_data_bits, arg)
    if arg != enc:
        raise Fail("extractor_does_not_mutate_input", arg.to01(), enc.to01())
    if _ba(dec) != m:
        raise Fail("extractor_returns_message", _ba(dec).to01(), m.to01())

    # (R) transmitted matrix: data rows are Hamming codewords, columns satisfy the parity rule
    if code == "128_72":
        mat, hcode, ndata = bptc_ref.vbptc128_to_matrix(el), "hamming_16_11_4", 7
    elif code == "68_28":
        mat, hcode, ndata = bptc_ref.vbptc68_to_matrix(el), "hamming_17_12_3", 3
    else:
        mat, hcode, ndata = bptc_ref.vbptc32_to_matrix(el), "hamming_16_11_4", 1
    hk = gf2.CODES[hcode][1]
    for r in range(ndata):
        exp = gf2.ref_encode(hcode, mat[r][:hk])
        if mat[r] != exp:
            raise Fail("data_row_is_hamming_codeword", {"row": r, "bits": "".join(map(str, mat[r]))}, "".join(map(str, exp)))
    want = 0 if even else 1
    for c in range(len(mat[0])):
        p = sum(mat[r][c] for r in range(len(mat))) & 1
        if p != want:
            raise Fail("column_parity", {"column": c, "parity": p}, want)

    # checksum read back by the library's extractor == checksum the library computes over the message == reference
    with_cs = None
    if code == "128_72":
        from okdmr.dmrlib.etsi.fec.five_bit_checksum import FiveBitChecksum

        st, cs_lib = call(FiveBitChecksum.calculate, m.tobytes())
        st, ext = call(V.deinterleave_cs5_bits, enc.copy())
        ext = _ba(ext)
        exp = int2ba(int(cs_lib), 5, endian="big")
        if ext != exp:
            raise Fail("checksum_read_back_equals_computed", ext.to01(), exp.to01())
        if int(cs_lib) != bptc_ref.cs5(ml):
            raise Fail("checksum_equals_reference", int(cs_lib), bptc_ref.cs5(ml))
        with_cs = m + exp
        st, dec2 = call(V.deinterleave_data_bits, enc.copy(), include_cs5=True)
    elif code == "68_28":
        from okdmr.dmrlib.etsi.crc.crc8 import CRC8

        st, crc_lib = call(CRC8.calculate, m.copy())
        st, ext = call(V.deinterleave_crc8_bits, enc.copy())
        ext = _ba(ext)
        exp = _ba(gf2.int_to_bits(int(crc_lib), 8)[::-1])  # == int2ba(crc, 8, endian="little"), the tests' convention
        if ext != exp:
            raise Fail("checksum_read_back_equals_computed", ext.to01(), exp.to01())
        if int(crc_lib) != bptc_ref.crc8(ml):
            raise Fail("checksum_equals_reference", int(crc_lib), bptc_ref.crc8(ml))
        with_cs = m + exp
        st, dec2 = call(V.deinterleave_data_bits, enc.copy(), include_crc8=True)
    if with_cs is not None and _ba(dec2) != with_cs:
        raise Fail("extractor_returns_message_with_checksum", _ba(dec2).to01(), with_cs.to01())

    # (R) complete reference codeword
    if code == "128_72":
        ref = bptc_ref.vbptc128_encode(ml)
    elif code == "68_28":
        ref = bptc_ref.vbptc68_encode(ml)
    else:
        ref = bptc_ref.vbptc32_encode(ml, even)
    if el != ref:
        raise Fail("encode_equals_reference", {"differing_positions": [i for i in range(n) if el[i] != ref[i]]}, "no difference")

    # three-way equality: message, message-with-checksum, fully de-interleaved matrix
    if with_cs is not None:
        arg = with_cs.copy()
        st, e2 = call(V.encode, arg)
        if _ba(e2) != enc:
            raise Fail("encode_message_with_checksum_same_bits", _diff(e2, enc), "no difference")
        if arg != with_cs:
            raise Fail("encode_does_not_mutate_input", arg.to01(), with_cs.to01())
    arg = enc.copy()
    st, de_all = call(V.deinterleave_all_bits, arg)
    if arg != enc:
        raise Fail("extractor_does_not_mutate_input", arg.to01(), enc.to01())
    if len(de_all) != n:
        raise Fail("deinterleave_all_length", len(de_all), n)
    de_all = _ba(de_all)
    arg = de_all.copy()
    st, e3 = call(V.encode, arg, **enc_kw)
    if _ba(e3) != enc:
        raise Fail("encode_deinterleaved_matrix_same_bits", _diff(e3, enc), "no difference")
    if arg != de_all:
        raise Fail("encode_does_not_mutate_input", arg.to01(), de_all.to01())

    # scribble-and-repeat: after a call returned, invert every bit of the RETURNED buffer and of the bitarray that was
    # passed in (both in place), then repeat the call with a fresh argument: same result as the first time.  A cache that
    # hands out or retains a caller-visible buffer fails here; so does a shared output buffer (earlier result rewritten).
    calls = [("encode(message)", V.encode, m, enc_kw), ("encode(deinterleaved matrix)", V.encode, de_all, enc_kw), ("deinterleave_all_bits", V.deinterleave_all_bits, enc, {})]
    if code == "128_72":
        calls += [("encode(message+cs5)", V.encode, with_cs, {}), ("deinterleave_cs5_bits", V.deinterleave_cs5_bits, enc, {})]
        calls += [("deinterleave_data_bits", V.deinterleave_data_bits, enc, {"include_cs5": flag}) for flag in (False, True)]
    elif code == "68_28":
        calls += [("encode(message+crc8)", V.encode, with_cs, {}), ("deinterleave_crc8_bits", V.deinterleave_crc8_bits, enc, {})]
        calls += [("deinterleave_data_bits", V.deinterleave_data_bits, enc, {"include_crc8": flag}) for flag in (False, True)]
    else:
        calls += [("deinterleave_data_bits", V.deinterleave_data_bits, enc, {})]
    for name, fn, argument, kw in calls:
        a1 = argument.copy()
        st, r1 = call(fn, a1, **kw)
        saved = _ba(r1)
        # a result that was handed out is not rewritten by a later call with another (equally valid) argument
        other = argument.copy()
        other.invert()
        call(fn, other, **kw)
        if _ba(r1) != saved:
            raise Fail("earlier_result_unchanged_by_later_call", _diff(r1, saved), "no difference", klass=name)
        if isinstance(r1, bitarray):
            try:
                r1.invert()
            except TypeError:
                pass  # an immutable (frozen) buffer cannot be scribbled on - nothing to check
        a1.invert()
        st, r2 = call(fn, argument.copy(), **kw)
        if _ba(r2) != saved:
            raise Fail("repeated_call_equal_after_scribbling_on_returned_buffer_and_argument", _diff(r2, saved), "no difference", klass=name)


# ---------------------------------------------------------------------------------------------- sibling calls (round 7)
#
# Every entry point of the anchored modules that shares something with the judged ones - the CRC-8 calculator object
# (CRC8.CALC) and its register, the lookup table the CRC registers share, the 5-bit checksum helper, the Hamming classes
# (two of them have k = 11), the three encoders and their extractors - applied to values RELATED to the case: the message
# itself, message + checksum, the codeword, prefixes, the same bits fitted to the other codes' lengths, the rows of the
# case's matrix, words with 1-2 bit errors; and the rightly refused variants of the same calls (mismatching checksum,
# checksum out of range, wrong length, wrong type).  A sibling call is stimulus only: whatever it returns or raises is
# ignored.  Used (a) by sub-check after_sibling_calls: judge, run calls, judge again - or run calls first, then judge - and
# (b) by the framework's preludes (prelude_for).

_HAMMING_CLASSES = {
    "hamming_7_4_3": ("hamming_7_4_3", "Hamming743"),
    "hamming_13_9_3": ("hamming_13_9_3", "Hamming1393"),
    "hamming_15_11_3": ("hamming_15_11_3", "Hamming15113"),
    "hamming_16_11_4": ("hamming_16_11_4", "Hamming16114"),
    "hamming_17_12_3": ("hamming_17_12_3", "Hamming17123"),
}
_HAMMING_NAMES = sorted(_HAMMING_CLASSES)


def _hamming_lib(name):
    import importlib

    mod, cls = _HAMMING_CLASSES[name]
    return getattr(importlib.import_module("okdmr.dmrlib.etsi.fec." + mod), cls)


def _related(a):
    """(message bits, message + checksum bits, reference codeword, reference matrix rows) of the case a sibling call refers to"""
    code = a["code"]
    ml = msg_bits(code, a["msg"]).tolist()
    even = bool(a.get("even", True))
    if code == "128_72":
        ref, cs = bptc_ref.vbptc128_encode(ml), gf2.int_to_bits(bptc_ref.cs5(ml), 5)
        mat = bptc_ref.vbptc128_to_matrix(ref)
    elif code == "68_28":
        ref, cs = bptc_ref.vbptc68_encode(ml), gf2.int_to_bits(bptc_ref.crc8(ml), 8)[::-1]
        mat = bptc_ref.vbptc68_to_matrix(ref)
    else:
        ref, cs = bptc_ref.vbptc32_encode(ml, even), []
        mat = bptc_ref.vbptc32_to_matrix(ref)
    return ml, ml + cs, ref, mat


def _fit(bits, k: int, how: int):
    """the same bits fitted to length k: leading / trailing part when longer, zero-extended on the left / right when shorter"""
    bits = list(bits)
    if len(bits) >= k:
        return bits[:k] if how % 2 == 0 else bits[len(bits) - k :]
    pad = [0] * (k - len(bits))
    return pad + bits if how % 2 == 0 else bits + pad


def _flip(bits, positions):
    out = list(bits)
    for p in positions:
        if out:
            out[p % len(out)] ^= 1
    return out


_BITSEL = ("message", "message+checksum", "codeword", "message[:-1]", "message[1:]", "as 28 bits", "empty", "message+00000000", "as 72 bits", "as 11 bits")


def _bitsel(a):
    ml, mcs, ref, _mat = _related(a)
    v = int(a.get("v", 0)) % len(_BITSEL)
    return [ml, mcs, ref, ml[:-1], ml[1:], _fit(ml, 28, a.get("w", 0)), [], ml + [0] * 8, _fit(ml, 72, a.get("w", 0)), _fit(ml, 11, a.get("w", 0))][v]


def _wrong_type(bits: bitarray, w: int):
    return [bits.to01(), bits.tobytes(), bits.tolist() + [2], None, 5, [bits]][w % 6]


def _sib_crc8(a):
    from okdmr.dmrlib.etsi.crc.crc import BitCrcCalculator, BitCrcRegister, Crc7, Crc8, TableBasedBitCrcRegister
    from okdmr.dmrlib.etsi.crc.crc8 import CRC8

    how, w = a["how"], int(a.get("w", 0))
    bl = _bitsel(a)
    bits = _ba(bl)
    right = bptc_ref.crc8(bl)
    wrong = [right ^ 1, right ^ 0x80, right ^ 0xFF, (right + 1) & 0xFF][w % 4]
    if how == "calculate":
        CRC8.calculate(bits)
    elif how == "check_right":
        CRC8.check(bits, right)
    elif how == "check_wrong":
        CRC8.check(bits, wrong)
    elif how == "check_out_of_range":
        CRC8.check(bits, [256, -1, 1 << 16, 0x1FF][w % 4])
    elif how == "verify_right":
        CRC8.CALC.verify_checksum(bits, right)
    elif how == "verify_wrong":
        CRC8.CALC.verify_checksum(bits, wrong)
    elif how == "verify_odd_expectation":
        CRC8.CALC.verify_checksum(bits, [None, "00", 256, -1, 1.5, bitarray("1")][w % 6])
    elif how == "calculate_checksum":
        CRC8.CALC.calculate_checksum(bits)
    elif how == "calculate_wrong_type":
        CRC8.calculate(_wrong_type(bits, w))
    elif how == "verify_wrong_type":
        CRC8.CALC.verify_checksum(_wrong_type(bits, w), right)
    elif how == "check_wrong_type":
        CRC8.check(_wrong_type(bits, w), right)
    elif how == "calculate_little_endian":
        CRC8.calculate(bitarray(bl, endian="little"))
    elif how == "register_workflow":
        reg = (TableBasedBitCrcRegister if w & 1 else BitCrcRegister)(Crc8.ETSI_DMR)
        reg.init()
        cut = (len(bits) * (1 + (w >> 3) % 3)) // 4
        reg.update(bits[:cut])
        reg.update(bits[cut:])
        if w & 2:
            reg.digest()
        if w & 4:
            reg.reverse()
    elif how == "fresh_calculator":
        calc = BitCrcCalculator(Crc8.ETSI_DMR if w & 2 == 0 else Crc7.ETSI_DMR, table_based=bool(w & 1))
        calc.verify_checksum(bits, wrong)
        if w & 4:
            calc.calculate_checksum(bits)
    elif how == "lookup_table":
        from okdmr.dmrlib.etsi.crc.crc import bits_create_lookup_table

        bits_create_lookup_table(8, 0x07)
        bits_create_lookup_table([7, 9, 16, 8][w % 4], [0x27, 0x59, 0x1021, 0x1D][w % 4])


def _sib_other_crc(a):
    """the other shared calculators (CRC-9 / CRC-16 / CRC-32 / their class-level helpers) on the same bits"""
    import importlib

    from okdmr.dmrlib.etsi.layer2.elements.crc_masks import CrcMasks

    how, w = a["how"], int(a.get("w", 0))
    bl = _bitsel(a)
    bits = _ba(bl)
    name = ("crc9", "crc16", "crc32")[w % 3]
    cls = getattr(importlib.import_module("okdmr.dmrlib.etsi.crc." + name), name.upper())
    masks = sorted(CrcMasks, key=lambda m: m.name)
    mask = masks[(w // 3) % len(masks)]
    if how == "calc_verify_wrong":
        got = cls.CALC.calculate_checksum(bits)
        cls.CALC.verify_checksum(bits, (gf2.bits_to_int(_ba(got).tolist()) ^ 1))
    elif how == "calc_calculate":
        cls.CALC.calculate_checksum(bits)
    elif how == "class_calculate":
        if name == "crc9":
            cls.calculate(bits, mask)
        elif name == "crc16":
            cls.calculate(bits.tobytes(), mask)
        else:
            cls.calculate(bits.tobytes())
    elif how == "class_check_wrong":
        if name == "crc9":
            cls.check(bits.tobytes(), w % 128, (w * 37) % 512, mask)
        elif name == "crc16":
            cls.check(bits.tobytes(), (w * 977) % 65536, mask)
        else:
            cls.check(bits.tobytes(), (w * 7919) % (1 << 32))
    elif how == "class_check_out_of_range":
        if name == "crc9":
            cls.check(bits.tobytes(), 1, 512, mask)
        elif name == "crc16":
            cls.check(bits.tobytes(), 1 << 16, mask)
        else:
            cls.check(bits.tobytes(), 1 << 32)


def _sib_short_lc(a):
    """the consumer of CRC-8 next to the (68,28) code: ShortLinkControl over message + CRC-8 (right, wrong, zero)"""
    from okdmr.dmrlib.etsi.layer2.pdu.short_link_control import ShortLinkControl

    how, w = a["how"], int(a.get("w", 0))
    ml, _mcs, _ref, _mat = _related(a)
    m28 = _fit(ml, 28, w)
    if w & 2:  # make the opcode one the PDU class implements (0 = Null message, 2 = activity update)
        m28[:4] = [0, 0, (w >> 2) & 1, 0]
    right = gf2.int_to_bits(bptc_ref.crc8(m28), 8)[::-1]
    tail = {"right": right, "wrong": _flip(right, [w]), "zero": [0] * 8, "short": right[:4]}[how]
    slc = ShortLinkControl.from_bits(_ba(m28 + tail))
    repr(slc)
    slc.as_bits()


def _sib_cs5(a):
    from okdmr.dmrlib.etsi.fec.five_bit_checksum import FiveBitChecksum

    how, w = a["how"], int(a.get("w", 0))
    ml, _mcs, _ref, _mat = _related(a)
    m72 = _fit(ml, 72, w)
    data = _ba(m72).tobytes()
    right = bptc_ref.cs5(m72)
    if how == "calculate":
        FiveBitChecksum.calculate(data)
    elif how == "calculate_short":
        FiveBitChecksum.calculate(data[1 + w % 8 :])
    elif how == "calculate_long":
        FiveBitChecksum.calculate(data + bytes([w & 0xFF]))
    elif how == "calculate_other_container":
        FiveBitChecksum.calculate([bytearray(data), memoryview(data), list(data), tuple(data)][w % 4])
    elif how == "calculate_wrong_type":
        FiveBitChecksum.calculate([_ba(m72), _ba(m72).to01(), None, [300] * 9, [-1] * 9][w % 5])
    elif how == "verify_right":
        FiveBitChecksum.verify(data, right)
    elif how == "verify_wrong":
        FiveBitChecksum.verify(data, (right + 1 + w % 29) % 31)
    elif how == "verify_out_of_range":
        FiveBitChecksum.verify(data, [31, -1, 32, 255][w % 4])


def _sib_hamming(a):
    """every Hamming class on the rows of the case's matrix: the row's leading k' bits through generate (bitarray / numpy
    array / list), the reference codeword with 0 / 1 / 2 bit errors through check, check_and_correct, correct_numpy_array,
    and the refused lengths"""
    import numpy

    how, w = a["how"], int(a.get("w", 0))
    _ml, _mcs, _ref, mat = _related(a)
    row = mat[int(a.get("v", 0)) % len(mat)]
    hname = _HAMMING_NAMES[int(a.get("h", 0)) % len(_HAMMING_NAMES)]
    H = _hamming_lib(hname)
    n, k = gf2.CODES[hname][0], gf2.CODES[hname][1]
    data = _fit(row, k, 0)
    cw = gf2.ref_encode(hname, data)
    if how == "generate":
        H.generate([_ba(data), numpy.array(data), data][w % 3])
    elif how == "generate_wrong_length":
        H.generate(_ba(_fit(row, [k - 1, k + 1, n, 0][w % 4], 0)))
    elif how == "generate_wrong_type":
        H.generate([None, "".join(map(str, data)), numpy.array(data, dtype=float) * 0.5, [2] * k][w % 4])
    elif how == "check":
        H.check(_ba(_flip(cw, [w, w // n + w + 1][: (w // 3) % 3])))
    elif how == "check_wrong_length":
        H.check(_ba(_fit(cw, [n - 1, n + 1, k, 0][w % 4], 0)))
    elif how == "check_and_correct":
        H.check_and_correct(_ba(_flip(cw, [w, w // n + w + 1][: (w // 3) % 3])))
    elif how == "check_and_correct_two_errors":
        H.check_and_correct(_ba(_flip(cw, [w, w + 1 + (w // n) % (n - 1)])))
    elif how == "correct_numpy_array":
        H.correct_numpy_array(numpy.array(_flip(cw, [w, w // n + w + 1][: (w // 3) % 3])))
    elif how == "correct_numpy_array_wrong_length":
        H.correct_numpy_array(numpy.array(_fit(cw, [n - 1, n + 1][w % 2], 0)))


def _sib_vbptc(a):
    """the three encoders and their extractors on the same bits (fitted to the other codes' lengths), every input form, both
    parities, words with bit errors, and the refused lengths / types"""
    how, w = a["how"], int(a.get("w", 0))
    ml, mcs, ref, _mat = _related(a)
    code2 = ("128_72", "68_28", "32_11")[int(a.get("c", 0)) % 3]
    k2, n2, _ = CODES[code2]
    V = lib(code2)
    kw = {"even_parity": bool(w & 1)} if code2 == "32_11" else {}
    if code2 == a["code"]:
        m2 = ml
    else:
        m2 = _fit(ml, k2, w >> 1)
    if code2 == "128_72":
        ref2, cs2 = bptc_ref.vbptc128_encode(m2), gf2.int_to_bits(bptc_ref.cs5(m2), 5)
    elif code2 == "68_28":
        ref2, cs2 = bptc_ref.vbptc68_encode(m2), gf2.int_to_bits(bptc_ref.crc8(m2), 8)[::-1]
    else:
        ref2, cs2 = bptc_ref.vbptc32_encode(m2, bool(w & 1)), []
    if how == "encode_message":
        V.encode(_ba(m2), **kw)
    elif how == "encode_message_with_checksum":
        V.encode(_ba(m2 + cs2), **kw)
    elif how == "encode_message_with_wrong_checksum":
        V.encode(_ba(m2 + _flip(cs2, [w])), **kw)
    elif how == "encode_matrix":
        V.encode(V.deinterleave_all_bits(_ba(ref2)), **kw)
    elif how == "encode_codeword_as_if_matrix":
        V.encode(_ba(ref2), **kw)
    elif how == "encode_wrong_length":
        V.encode(_ba(_fit(ref2, [k2 - 1, k2 + 1, n2 - 1, n2 + 1, 0, len(m2 + cs2) + 1][w % 6], 0)), **kw)
    elif how == "encode_wrong_type":
        V.encode([None, "".join(map(str, m2)), _ba(m2).tobytes(), m2, tuple(m2), [2] * k2][w % 6], **kw)
    elif how == "encode_other_parity" and code2 == "32_11":
        V.encode(_ba(m2), even_parity=[False, True, None, 0, 1, "odd"][w % 6])
    elif how == "extract":
        word = _ba(_flip(ref2, [w * 7, w * 13 + 5][: w % 3]))
        fn = [V.deinterleave_data_bits, V.deinterleave_all_bits, getattr(V, "deinterleave_cs5_bits", None) or getattr(V, "deinterleave_crc8_bits", None) or V.deinterleave_data_bits][(w // 3) % 3]
        fn(word)
    elif how == "extract_flag":
        if code2 == "128_72":
            V.deinterleave_data_bits(_ba(ref2), include_cs5=bool(w & 1))
        elif code2 == "68_28":
            V.deinterleave_data_bits(_ba(ref2), include_crc8=bool(w & 1))
        else:
            V.deinterleave_data_bits(_ba(ref2))
    elif how == "extract_wrong_length":
        word = _ba(_fit(ref2, [n2 - 1, n2 + 1, k2, 0][w % 4], 0))
        fn = [V.deinterleave_data_bits, V.deinterleave_all_bits, getattr(V, "deinterleave_cs5_bits", None) or getattr(V, "deinterleave_crc8_bits", None) or V.deinterleave_data_bits][(w // 4) % 3]
        fn(word)
    elif how == "table_helpers":
        t = V.make_encoding_table()
        if w % 4 == 0:
            V.fill_encoding_table(t, _ba(m2))
        elif w % 4 == 1:
            V.fill_encoding_table(t, _ba(m2[:-1]))  # refused
        elif w % 4 == 2:
            V.fill_encoding_table(t, V.deinterleave_all_bits(_ba(ref2)))
            t.fill(1)
        else:
            V.set_parity(t[: 1 + w % 3, 0])  # refused for most lengths
    elif how == "set_parity":
        import numpy

        rows = {"128_72": 7, "68_28": 3, "32_11": 2}[code2]
        col = numpy.array(_fit(ml, rows + (w % 3) - 1, 0))
        V.set_parity(col, **kw)


_SIB_FAMILIES = {
    "crc8": (_sib_crc8, ["calculate", "check_right", "check_wrong", "check_out_of_range", "verify_right", "verify_wrong", "verify_odd_expectation", "calculate_checksum",
                         "calculate_wrong_type", "verify_wrong_type", "check_wrong_type", "calculate_little_endian", "register_workflow", "fresh_calculator", "lookup_table"]),
    "other_crc": (_sib_other_crc, ["calc_verify_wrong", "calc_calculate", "class_calculate", "class_check_wrong", "class_check_out_of_range"]),
    "short_lc": (_sib_short_lc, ["right", "wrong", "zero", "short"]),
    "cs5": (_sib_cs5, ["calculate", "calculate_short", "calculate_long", "calculate_other_container", "calculate_wrong_type", "verify_right", "verify_wrong", "verify_out_of_range"]),
    "hamming": (_sib_hamming, ["generate", "generate_wrong_length", "generate_wrong_type", "check", "check_wrong_length", "check_and_correct", "check_and_correct_two_errors",
                               "correct_numpy_array", "correct_numpy_array_wrong_length"]),
    "vbptc": (_sib_vbptc, ["encode_message", "encode_message_with_checksum", "encode_message_with_wrong_checksum", "encode_matrix", "encode_codeword_as_if_matrix", "encode_wrong_length",
                           "encode_wrong_type", "encode_other_parity", "extract", "extract_flag", "extract_wrong_length", "table_helpers", "set_parity"]),
}


def _op_sibling(a):
    """PRELUDE_OPS entry: a = {fam, how, code, msg[, even, v, w, h, c]} - one sibling call on a value related to (code, msg)"""
    fn, hows = _SIB_FAMILIES[a["fam"]]
    if a["how"] in hows:
        fn(a)


PRELUDE_OPS = {"sibling": _op_sibling}


def _run_siblings(calls):
    """stimulus only: results and exceptions of sibling calls are ignored (like the framework's preludes)"""
    import contextlib
    import os
    import warnings

    with open(os.devnull, "w") as sink, contextlib.redirect_stderr(sink), contextlib.redirect_stdout(sink), warnings.catch_warnings():
        warnings.simplefilter("ignore")
        for c in calls:
            try:
                _op_sibling(c["a"])
            except (KeyboardInterrupt, SystemExit, MemoryError):
                raise
            except BaseException:
                pass


def _core(case):
    c = {"code": case["code"], "msg": case["msg"]}
    if "even" in case:
        c["even"] = case["even"]
    return c


def _sibling_call(core, fam, how, rng):
    """one sibling call on values related to `core`; the free selectors (which bits, which row, which Hamming class, which
    other code, which wrong value) are drawn from rng"""
    a = dict(core, fam=fam, how=how, w=rng.randrange(64))
    if fam in ("crc8", "other_crc"):
        a["v"] = rng.choice([0, 0, 0, 1, 2, 3, 4, 5, 6, 7, 8, 9])
    if fam == "hamming":
        a["v"] = rng.randrange(8)
        a["h"] = rng.randrange(len(_HAMMING_NAMES))
    if fam == "vbptc":
        a["c"] = rng.randrange(3)
    return {"x": "sibling", "a": a}


def _all_sibling_kinds(code):
    """(fam, how[, fixed selectors]) of every sibling call kind that is relevant next to `code`: the families are crossed with
    the Hamming classes / the three codes where the call has such a selector"""
    out = []
    for fam, (_fn, hows) in _SIB_FAMILIES.items():
        for how in hows:
            if fam == "hamming":
                out += [(fam, how, {"h": h}) for h in range(len(_HAMMING_NAMES))]
            elif fam == "vbptc":
                out += [(fam, how, {"c": c}) for c in range(3) if how != "encode_other_parity" or c == 2]
            elif fam == "crc8" and how in ("calculate", "check_wrong", "verify_wrong", "verify_right", "calculate_wrong_type", "verify_wrong_type"):
                out += [(fam, how, {"v": v}) for v in (0, 1, 2, 3, 6)]
            else:
                out.append((fam, how, {}))
    return out


def prelude_for(sub, case, rng):
    """sibling calls on values related to the case, run by the framework between two judgements of the case"""
    if not isinstance(case, dict) or "code" not in case:
        return []
    cores = []
    if "msg" in case:
        cores.append(_core(case))
    else:  # linearity: both operands
        for key in ("a", "b"):
            if key in case:
                c = {"code": case["code"], "msg": case[key]}
                if "even" in case:
                    c["even"] = case["even"]
                cores.append(c)
    if not cores:
        return []
    kinds = _all_sibling_kinds(case["code"])
    calls = []
    for fam, how, fixed in rng.sample(kinds, 5):
        c = _sibling_call(rng.choice(cores), fam, how, rng)
        c["a"].update(fixed)
        calls.append(c)
    return calls


def oracle_after_siblings(case):
    """case = {code, msg[, even], pre: [sibling calls], first: bool}.  `first`: the case is judged (every clause of
    oracle_code), the sibling calls run, the case is judged again - the earlier judgement shows that a failure of the later
    one is owed to what the calls left behind.  Not `first`: the calls run before the case is judged at all (a memo filled by
    a sibling before the judged entry point ever saw the value)."""
    core = _core(case)
    if case.get("first", True):
        oracle_code(core)
    _run_siblings(case.get("pre", []))
    try:
        oracle_code(core)
    except Fail as f:
        kinds = sorted({c["a"]["fam"] + "." + c["a"]["how"] for c in case.get("pre", [])})
        f.klass = (f.klass + "|" if f.klass else "") + "after:" + (kinds[0] if len(kinds) == 1 else "sequence")
        raise


def drv_after_siblings(ctx: Ctx, sub: SubCheck):
    """(a) every sibling call kind alone (x Hamming class / x code where it has such a selector), per code, over seeded
    messages, alternately judged-first / calls-first; (b) seeded sequences of 2-6 calls, with repeats of one refused call
    (the same refusal 2-3 times in a row) in a third of them."""
    _preimport()
    reps = ctx.pick(2, 12)
    items = []
    for code in CODES:
        k = CODES[code][0]
        kinds = _all_sibling_kinds(code)
        for j, (fam, how, fixed) in enumerate(kinds):
            for r in range(reps):
                rng = ctx.rng("after_siblings", code, fam, how, str(sorted(fixed.items())), r)
                core = {"code": code, "msg": _hex(code, rng.getrandbits(k) | 1)}
                if code == "32_11":
                    core["even"] = bool((j + r) & 1)
                c = _sibling_call(core, fam, how, rng)
                c["a"].update(fixed)
                items.append(("single:" + fam, dict(core, pre=[c], first=bool((j + r) % 3))))
        for r in range(ctx.pick(60, 600)):
            rng = ctx.rng("after_siblings_seq", code, r)
            core = {"code": code, "msg": _hex(code, rng.getrandbits(k))}
            if code == "32_11":
                core["even"] = rng.random() < 0.5
            pre = []
            for fam, how, fixed in rng.sample(kinds, rng.randrange(2, 7)):
                c = _sibling_call(core, fam, how, rng)
                c["a"].update(fixed)
                pre += [c] * (rng.choice([2, 3]) if rng.random() < 0.33 else 1)
            items.append(("sequence", dict(core, pre=pre, first=rng.random() < 0.6)))

    def work(chunk, t: Tally):
        for label, c in chunk:
            ctx.run_case(sub.name, oracle_after_siblings, c, t)
            t.case(sub.name, key=None, nontrivial=int(c["msg"], 16) != 0, cls=f"{c['code']}:{label}:{'judged_first' if c['first'] else 'calls_first'}")
        t.sample(sub.name, chunk[len(chunk) // 2][1])

    ctx.shards(work, [items[i::64] for i in range(64)])
    ctx.tally.extra["sibling_call_kinds"] = {code: len(_all_sibling_kinds(code)) for code in CODES}


# ---------------------------------------------------------------------------------------------- container variants

CONTAINERS =("little", "frozen_big", "frozen_little")


def _container(bits, kind: str):
    """the same bit sequence in another container: little-endian bitarray, frozenbitarray (either endianness)"""
    b = bitarray([int(x) for x in bits], endian="little" if "little" in kind else "big")
    return frozenbitarray(b) if kind.startswith("frozen") else b


def _rows_cols(code, el, even):
    if code == "128_72":
        mat, hcode, ndata = bptc_ref.vbptc128_to_matrix(el), "hamming_16_11_4", 7
    elif code == "68_28":
        mat, hcode, ndata = bptc_ref.vbptc68_to_matrix(el), "hamming_17_12_3", 3
    else:
        mat, hcode, ndata = bptc_ref.vbptc32_to_matrix(el), "hamming_16_11_4", 1
    hk = gf2.CODES[hcode][1]
    for r in range(ndata):
        exp = gf2.ref_encode(hcode, mat[r][:hk])
        if mat[r] != exp:
            raise Fail("data_row_is_hamming_codeword", {"row": r, "bits": "".join(map(str, mat[r]))}, "".join(map(str, exp)))
    want = 0 if even else 1
    for c in range(len(mat[0])):
        p = sum(mat[r][c] for r in range(len(mat))) & 1
        if p != want:
            raise Fail("column_parity", {"column": c, "parity": p}, want)


def oracle_container(case):
    """Policy of vp/containers.py: which containers an entry point ACCEPTS is not part of the property - a clean TypeError /
    AttributeError / ValueError / NotImplementedError for an alternative container puts the case outside the domain
    (counted as declined); an accepted container must give what its bit sequence demands (_oracle_container_body)."""
    try:
        _oracle_container_body(case)
    except Fail as f:
        if f.clause == "no_unexpected_exception" and str(f.observed).split(":")[0] in ("TypeError", "AttributeError", "ValueError", "NotImplementedError"):
            case["_declined"] = True
            return
        raise


def _oracle_container_body(case):
    """case = {code, msg, container[, even]}: the message (and the other accepted input forms, and the extractors' input) is
    handed over in another CONTAINER holding the same bit sequence.  Expected values come from the bit sequence (reference),
    never from the container.  Clause table = what the unchanged tree gets right (probed on /repo when this was written):
      * every extractor, every container: same result as for the plain big-endian bitarray;
      * encode(fully de-interleaved matrix), every container: the reference codeword;
      * encode(message) and encode(message+checksum): the reference codeword for (32,11) in every container and for all three
        codes in a big-endian frozenbitarray; for (128,72)/(68,28) in LITTLE-endian containers only extractor round trip and
        the row / column rules (the library's checksum helpers read such a container through tobytes() / the CRC register,
        both of which depend on the endianness flag - outside the big-endian domain of C05, see ASSUMPTIONS)."""
    code, kind = case["code"], case["container"]
    k, n, _ = CODES[code]
    V = lib(code)
    ml = msg_bits(code, case["msg"]).tolist()
    even = bool(case.get("even", True))
    kw = {} if code != "32_11" else {"even_parity": even}
    if code == "128_72":
        ref, cs_bits = bptc_ref.vbptc128_encode(ml), gf2.int_to_bits(bptc_ref.cs5(ml), 5)
        kw_plain, kw_cs, cs_ext = {"include_cs5": False}, {"include_cs5": True}, V.deinterleave_cs5_bits
    elif code == "68_28":
        ref, cs_bits = bptc_ref.vbptc68_encode(ml), gf2.int_to_bits(bptc_ref.crc8(ml), 8)[::-1]
        kw_plain, kw_cs, cs_ext = {"include_crc8": False}, {"include_crc8": True}, V.deinterleave_crc8_bits
    else:
        ref, cs_bits = bptc_ref.vbptc32_encode(ml, even), None
        kw_plain, kw_cs, cs_ext = {}, None, None
    full = code == "32_11" or kind == "frozen_big"

    def judge_encoding(what, arg_bits):
        arg = _container(arg_bits, kind)
        st, enc = call(V.encode, arg, **kw)
        endian = arg.endian() if callable(arg.endian) else arg.endian
        if arg.tolist() != [int(x) for x in arg_bits] or endian != ("little" if "little" in kind else "big"):
            raise Fail("encode_does_not_mutate_input", arg.to01(), "".join(map(str, arg_bits)), klass=f"{kind}:{what}")
        el = _ba(enc).tolist()
        if len(el) != n:
            raise Fail("encoded_length", len(el), n, klass=f"{kind}:{what}")
        if full:
            if el != ref:
                raise Fail("container_encode_equals_reference", _diff(el, ref), "no difference", klass=f"{kind}:{what}")
        else:
            st, dec = call(V.deinterleave_data_bits, bitarray(el), **kw_plain)
            if _ba(dec).tolist() != ml:
                raise Fail("container_extractor_returns_message", _ba(dec).to01(), "".join(map(str, ml)), klass=f"{kind}:{what}")
            _rows_cols(code, el, even)

    judge_encoding("message", ml)
    if cs_bits is not None:
        judge_encoding("message+checksum", ml + cs_bits)
    st, de_all = call(V.deinterleave_all_bits, bitarray(ref))
    de_all = _ba(de_all).tolist()
    st, e3 = call(V.encode, _container(de_all, kind), **kw)
    if _ba(e3).tolist() != ref:
        raise Fail("container_encode_equals_reference", _diff(e3, ref), "no difference", klass=f"{kind}:deinterleaved matrix")

    # extractors fed with the codeword in the container
    st, d0 = call(V.deinterleave_data_bits, _container(ref, kind), **kw_plain)
    if _ba(d0).tolist() != ml:
        raise Fail("container_extractor_returns_message", _ba(d0).to01(), "".join(map(str, ml)), klass=f"{kind}:codeword in container")
    st, d1 = call(V.deinterleave_all_bits, _container(ref, kind))
    if _ba(d1).tolist() != de_all:
        raise Fail("container_deinterleave_all_same_as_big_endian", _diff(d1, de_all), "no difference", klass=kind)
    if cs_bits is not None:
        st, d2 = call(V.deinterleave_data_bits, _container(ref, kind), **kw_cs)
        if _ba(d2).tolist() != ml + cs_bits:
            raise Fail("container_extractor_returns_message_with_checksum", _ba(d2).to01(), "".join(map(str, ml + cs_bits)), klass=kind)
        st, d3 = call(cs_ext, _container(ref, kind))
        if _ba(d3).tolist() != cs_bits:
            raise Fail("container_checksum_extractor", _ba(d3).to01(), "".join(map(str, cs_bits)), klass=kind)


def drv_containers(ctx: Ctx, sub: SubCheck):
    _preimport()
    from hypothesis import strategies as st

    # (32,11): complete; the other two: basis + boundary (deterministic) in every container, then Hypothesis
    items = [{"code": "32_11", "msg": m, "even": even, "container": kind} for m in range(2048) for even in (True, False) for kind in CONTAINERS]
    for code in ("68_28", "128_72"):
        for v in _basis(code) + _boundary(code, ctx):
            items += [{"code": code, "msg": _hex(code, v), "container": kind} for kind in CONTAINERS]

    def work(chunk, t: Tally):
        for c in chunk:
            ctx.run_case(sub.name, oracle_container, c, t)
            t.case(sub.name, key=None, nontrivial=(int(c["msg"], 16) if isinstance(c["msg"], str) else c["msg"]) != 0, cls=f"{c['code']}:{c['container']}")
        t.sample(sub.name, chunk[len(chunk) // 2])

    ctx.shards(work, [items[i::64] for i in range(64)])

    def strat(code):
        k = CODES[code][0]
        return st.tuples(st.integers(0, (1 << k) - 1), st.sampled_from(CONTAINERS)).map(lambda x: {"code": code, "msg": _hex(code, x[0]), "container": x[1]})

    def hyp(it, t: Tally):
        code, i = it
        ctx.hypothesis(sub.name, strat(code), oracle_container, ctx.pick(200, 4000), tally=t, shard=f"{code}/{i}",
                       record=lambda c, tt: tt.case(sub.name, key=c, nontrivial=int(c["msg"], 16) != 0, cls=f"{c['code']}:{c['container']}"))

    ctx.shards(hyp, [(code, i) for code in ("68_28", "128_72") for i in range(8)])


def _diff(a, b):
    a, b = _ba(a), _ba(b)
    return {"differing_positions": [i for i in range(min(len(a), len(b))) if a[i] != b[i]], "len": [len(a), len(b)]}


def oracle_linearity(case):
    """case = {code, a, b[, even]}.  (68,28) and (32,11) even: encode(a^b) == encode(a)^encode(b).  (32,11) odd parity is
    affine: the XOR of the three codewords is the odd-parity codeword of the zero message.  (128,72): the mod-31 checksum
    is not linear, so encode(a)^encode(b)^encode(a^b)^encode(0) may be non-zero only in the positions that depend on the
    checksum bits (CS cells, Hamming bits of rows 2..6, column parity of columns 10..15)."""
    code = case["code"]
    k, n, _ = CODES[code]
    V = lib(code)
    even = bool(case.get("even", True))
    kw = {} if code != "32_11" else {"even_parity": even}
    a, b = msg_bits(code, case["a"]), msg_bits(code, case["b"])
    ea, eb, eab, e0 = (_ba(call(V.encode, x, **kw)[1]) for x in (a, b, a ^ b, int2ba(0, k, endian="big")))
    res = ea ^ eb ^ eab ^ e0
    allowed = set(bptc_ref.vbptc128_checksum_dependent_positions()) if code == "128_72" else set()
    bad = [i for i in range(n) if res[i] and i not in allowed]
    if bad:
        raise Fail("encoder_gf2_affine_outside_checksum", {"positions": bad}, "no residual outside checksum-dependent positions")
    if code != "32_11" or even:
        if e0.any():
            raise Fail("zero_message_encodes_to_zero", e0.to01(), "0" * n)


# ---------------------------------------------------------------------------------------------- drivers


def _record_code(sub):
    def rec(c, t: Tally):
        _tally_code(sub, c, t, key=c, src="random")

    return rec


def _tally_code(sub, c, t: Tally, key, src):
    code = c["code"]
    v = int(c["msg"], 16) if isinstance(c["msg"], str) else c["msg"]
    nt = v != 0
    cls = src
    if code == "128_72":
        cs = bptc_ref.cs5(gf2.int_to_bits(v, 72))
        pal = _is_pal5(cs)
        nt = nt and not pal
        cls = f"{src}:cs_{'palindrome' if pal else 'non_palindrome'}"
        t.cls(sub, "cs=%02d" % cs)
    t.case(sub, key=key, nontrivial=nt, cls=cls)


def drv_32(ctx: Ctx, sub: SubCheck):
    _preimport()
    items = [(lo, lo + 128) for lo in range(0, 2048, 128)]

    def work(it, t: Tally):
        lo, hi = it
        for m in range(lo, hi):
            for even in (True, False):
                ctx.run_case(sub.name, oracle_code, {"code": "32_11", "msg": m, "even": even}, t)
                t.case(sub.name, nontrivial=(m != 0), cls="even" if even else "odd")
        t.sample(sub.name, {"code": "32_11", "msg": lo + 37, "even": bool(lo & 128)})

    ctx.shards(work, items)
    ctx.tally.exhaustive[sub.name] = True


def _basis(code):
    k = CODES[code][0]
    return [0, (1 << k) - 1] + [1 << i for i in range(k)]


def _directed_128(ctx: Ctx, per_target: int):
    """messages built to hit every checksum value: 8 random octets, the ninth (random position) solved so that the octet
    sum is congruent to the target modulo 31; plus carry-heavy octet patterns."""
    rng = ctx.rng("directed128")
    out = []
    for target in range(31):
        for j in range(per_target):
            oct_ = [rng.choice([0, 0xFF, rng.randrange(256), rng.randrange(256)]) for _ in range(9)]
            p = rng.randrange(9)
            rest = sum(oct_) - oct_[p]
            cands = [v for v in range(256) if (rest + v) % 31 == target]
            oct_[p] = rng.choice(cands)
            out.append(int.from_bytes(bytes(oct_), "big"))
    for pat in ([0xFF] * 9, [0xFF] * 8 + [0x00], [0x1F] * 9, [0x1E] + [0] * 8, [0] * 8 + [0x1F], [0xF8] * 9, [0x80] * 9):
        out.append(int.from_bytes(bytes(pat), "big"))
    return out


def _groups(code):
    """octet groups of a message, MSB first: nine octets for (128,72); 8+8+8+4 bits for (68,28)"""
    k = CODES[code][0]
    out, hi = [], k
    while hi > 0:
        lo = max(0, hi - 8)
        out.append(((1 << (hi - lo)) - 1) << lo)
        hi = lo
    return out


def _solve_cs5(octets, pos, target):
    """replace octet `pos` by the smallest and the largest value that make the octet sum congruent to target mod 31"""
    rest = sum(octets) - octets[pos]
    cands = [v for v in range(256) if (rest + v) % 31 == target]
    res = []
    for v in (cands[0], cands[-1]):
        o = list(octets)
        o[pos] = v
        res.append(int.from_bytes(bytes(o), "big"))
    return res


def _solve_crc8(high20: int, target: int) -> int:
    """28-bit message with the given upper 20 bits whose CRC-8 is `target`: the map low octet -> CRC is a bijection
    (x^8 is invertible modulo G), found by trying the 256 low octets against the reference CRC"""
    for low in range(256):
        v = (high20 << 8) | low
        if bptc_ref.crc8(gf2.int_to_bits(v, 28)) == target:
            return v
    raise AssertionError("CRC-8 low-octet map is not a bijection")


def _boundary(code, ctx: Ctx):
    """deterministic boundary pass (identical at every seed): all-ones, each octet all-ones, all but one octet ones,
    complements of the unit messages, alternating patterns, and messages whose checksum is each extreme value
    (0, 1, top bit only, maximum) built by construction over several fixed backgrounds."""
    k = CODES[code][0]
    full = (1 << k) - 1
    out = [full, full ^ 1, full ^ (1 << (k - 1)), int("a" * 18, 16) & full, int("5" * 18, 16) & full, 1, 1 << (k - 1)]
    for g in _groups(code):
        out += [g, full ^ g]
    out += [full ^ (1 << i) for i in range(k)]
    if code == "128_72":
        backgrounds = [[0] * 9, [0xFF] * 9, [0x80] * 9, [0x01] * 9, [0xAA, 0x55] * 4 + [0xAA], [0xFF] * 4 + [0] * 5, [0] * 5 + [0xFF] * 4]
        for target in (0, 1, 16, 30, 15, 29):
            for bg in backgrounds:
                for pos in (0, 4, 8):
                    out += _solve_cs5(bg, pos, target)
    elif code == "68_28":
        highs = [0, (1 << 20) - 1, 1 << 19, 1, 0xAAAAA, 0x55555, 0xFFF00, 0x000FF]
        for target in (0x00, 0x01, 0x80, 0xFF, 0x7F, 0xFE, 0xAA, 0x55):
            for h in highs:
                out.append(_solve_crc8(h, target))
    seen, uniq = set(), []
    for v in out:
        if v not in seen:
            seen.add(v)
            uniq.append(v)
    return uniq


def _accumulator_extremes(code, ctx: Ctx):
    """Extreme INTERMEDIATE values: inputs that drive every partial quantity of the reference computation (octet sum and its
    per-octet residues for CS5, the running CRC-8 remainder, row and column weights of the matrix) to its extremes - not
    only the final value.  Deterministic except for the seeded choice among equivalent octets.
      (a) constant fill with EVERY octet value 0..255, and 2-octet periods over a fixed set of octets + seeded pairs;
      (b) (128,72): all nine octets in the same residue class modulo 31, for every residue 0..30 (several seeded choices of
          the octets), every mixture of the two largest residues 29 / 30 over the nine positions, and of the two smallest;
          octets just below / at / above multiples of 31; maximal octet sum with each single octet lowered;
          (68,28): prefixes of 8 / 16 / 20 / 24 bits whose running CRC-8 remainder is 0x00, 0xFF, 0x80, 0x01;
      (c) every data row of the matrix all-ones / all-zero / alternating (both phases) in every combination for (68,28), one
          row differing from the rest for (128,72); every data column set in all rows, and all but that column."""
    k = CODES[code][0]
    full = (1 << k) - 1
    nbytes = (k + 7) // 8
    rng = ctx.rng("accumulator", code)

    def from_octets(octs):
        return int.from_bytes(bytes(octs), "big") >> (8 * nbytes - k)

    out = []
    # (a)
    for v in range(256):
        out.append(from_octets([v] * nbytes))
    special = [0x00, 0xFF, 0x1E, 0x1F, 0x3D, 0x3E, 0xF7, 0xF8, 0x80, 0x01, 0x7F, 0xFE]
    pairs = [(a, b) for a in special for b in special if a != b] + [(rng.randrange(256), rng.randrange(256)) for _ in range(64)]
    for a, b in pairs:
        out.append(from_octets(([a, b] * nbytes)[:nbytes]))
    # (b)
    if code == "128_72":
        by_res = {r: [v for v in range(256) if v % 31 == r] for r in range(31)}
        for r in range(31):
            out.append(from_octets([by_res[r][-1]] * 9))
            out.append(from_octets([by_res[r][0]] * 9))
            for _ in range(4):
                out.append(from_octets([rng.choice(by_res[r]) for _ in range(9)]))
        for hi, lo in ((30, 29), (0, 1)):
            for mask in range(512):
                out.append(from_octets([rng.choice(by_res[hi if (mask >> i) & 1 else lo]) for i in range(9)]))
        for base in (31, 62, 93, 124, 155, 186, 217, 248):
            for d in (-1, 0, 1):
                if 0 <= base + d <= 255:
                    out.append(from_octets([base + d] * 9))
        for i in range(9):
            for low in (0xFE, 0xF8, 0xF7, 0x00):
                o = [0xFF] * 9
                o[i] = low
                out.append(from_octets(o))
    elif code == "68_28":
        for L in (8, 16, 20, 24):
            for target in (0x00, 0xFF, 0x80, 0x01):
                for _ in range(3):
                    head = rng.getrandbits(L - 8) if L > 8 else 0
                    for low in range(256):
                        prefix = (head << 8) | low
                        if bptc_ref.crc8(gf2.int_to_bits(prefix, L)) == target:
                            break
                    tail = rng.getrandbits(28 - L) if L < 28 else 0
                    out += [(prefix << (28 - L)) | tail, prefix << (28 - L), (prefix << (28 - L)) | ((1 << (28 - L)) - 1)]
    # (c)
    rows = {"128_72": [11, 11, 10, 10, 10, 10, 10], "68_28": [12, 12, 4]}.get(code)
    if rows:
        def pat(n, kind):
            return {"0": 0, "1": (1 << n) - 1, "a": int(("10" * n)[:n], 2), "5": int(("01" * n)[:n], 2)}[kind]

        def from_rows(kinds):
            v = 0
            for n, kd in zip(rows, kinds):
                v = (v << n) | pat(n, kd)
            return v

        import itertools

        if code == "68_28":
            combos = list(itertools.product("01a5", repeat=len(rows)))
        else:
            combos = [tuple(bg if i != j else fg for i in range(len(rows))) for bg in "01a5" for fg in "01a5" for j in range(len(rows))]
        out += [from_rows(c) for c in combos]
        width = max(rows)
        for c in range(width):  # column c (from the left) set in every row that has it, and the complement
            v = 0
            for n in rows:
                v = (v << n) | ((1 << (n - 1 - c)) if c < n else 0)
            out += [v, full ^ v]
    seen, uniq = set(), []
    for v in out:
        v &= full
        if v not in seen:
            seen.add(v)
            uniq.append(v)
    return uniq


def _drv_sampled(code, n_quick, n_thorough, directed=None):
    def drv(ctx: Ctx, sub: SubCheck):
        _preimport()
        from hypothesis import strategies as st

        k = CODES[code][0]
        fixed = [("basis", v) for v in _basis(code)] + [("boundary", v) for v in _boundary(code, ctx)]
        fixed += [("accumulator_extremes", v) for v in _accumulator_extremes(code, ctx)]
        if directed:
            fixed += [("directed", v) for v in directed(ctx, ctx.pick(25, 400))]

        def work(chunk, t: Tally):
            for src, v in chunk:
                c = {"code": code, "msg": _hex(code, v)}
                ctx.run_case(sub.name, oracle_code, c, t)
                _tally_code(sub.name, c, t, key=c, src=src)

        ctx.shards(work, [fixed[i::16] for i in range(16)])

        strat = st.integers(0, (1 << k) - 1).map(lambda v: {"code": code, "msg": _hex(code, v)})

        def hyp(shard, t: Tally):
            ctx.hypothesis(sub.name, strat, oracle_code, ctx.pick(n_quick, n_thorough), tally=t, shard=shard, record=_record_code(sub.name))

        ctx.shards(hyp, list(range(ctx.pick(16, 32))))

    return drv


def drv_linearity(ctx: Ctx, sub: SubCheck):
    _preimport()
    from hypothesis import strategies as st

    def strat_for(code):
        k = CODES[code][0]
        base = st.tuples(st.integers(0, (1 << k) - 1), st.integers(0, (1 << k) - 1))
        if code == "32_11":
            return st.tuples(base, st.booleans()).map(lambda x: {"code": code, "a": _hex(code, x[0][0]), "b": _hex(code, x[0][1]), "even": x[1]})
        return base.map(lambda ab: {"code": code, "a": _hex(code, ab[0]), "b": _hex(code, ab[1])})

    def rec(c, t: Tally):
        a, b = int(c["a"], 16), int(c["b"], 16)
        t.case(sub.name, key=c, nontrivial=bool(a and b and (a ^ b)), cls=c["code"])

    r = ctx.pick(1, 2)
    shards = [("128_72", i) for i in range(7 * r)] + [("68_28", i) for i in range(7 * r)] + [("32_11", i) for i in range(2 * r)]

    def hyp(it, t: Tally):
        code, i = it
        ctx.hypothesis(sub.name, strat_for(code), oracle_linearity, ctx.pick(300, 8000), tally=t, shard=f"{code}/{i}", record=rec)

    ctx.shards(hyp, shards)


SUBCHECKS = [
    SubCheck("sb_32_11", oracle_code, drv_32, "single-burst (32,11): all 2^11 messages x both parities: reference codeword, rows/columns, round trip, re-encoding"),
    SubCheck("cach_68_28", oracle_code, _drv_sampled("68_28", 750, 13000), "CACH short LC (68,28): basis + random messages: reference codeword, CRC-8 read-back, rows/columns, round trip, three-way re-encoding"),
    SubCheck("emb_128_72", oracle_code, _drv_sampled("128_72", 750, 13000, _directed_128), "embedded LC (128,72): basis + checksum-directed + random messages: reference codeword, 5-bit checksum read-back, rows/columns, round trip, three-way re-encoding"),
    SubCheck("containers", oracle_container, drv_containers, "representation variants: the same bit sequences in little-endian bitarrays and frozenbitarrays (both endiannesses) through every encoder input form and every extractor; (32,11) complete"),
    SubCheck("after_sibling_calls", oracle_after_siblings, drv_after_siblings, "X, sibling calls, X again (and: sibling calls, then X): every other entry point of the anchored modules (CRC-8 calculator / register / other CRCs, 5-bit checksum, five Hamming classes, the other codes and input forms, short LC) and every rightly refused variant (mismatching checksum, out-of-range, wrong length / type) applied to values related to the message, then every clause of the code's oracle"),
    SubCheck("linearity", oracle_linearity, drv_linearity, "GF(2)-(affine) linearity of the encoders on random pairs; (128,72) residual confined to checksum-dependent positions"),
]
PREDICATES = {}
