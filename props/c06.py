"""C06 — Hamming, Golay and quadratic-residue codes: exact codeword sets and correction.

Complete enumeration (generator = "all of them", sharded over 16 processes) against the table-free cyclic-code
reference in vp/refs/gf2.py.  See DESIGN.md §4 C06.
"""
from __future__ import annotations

import importlib
import itertools

import numpy
from bitarray import bitarray
from bitarray.util import int2ba, ba2int

from vp.core import Ctx, Fail, SubCheck, Tally, call
from vp.refs import gf2

LEVEL = "fault_enumeration"
RULE = (
    "Complete enumeration per block code: every k-bit message through the encoder (systematic, equal to the reference "
    "cyclic encoder, accepted by the checker); every n-bit word through the checker (accepted iff in the reference "
    "codeword set); all pairs of library codewords for the minimum distance; every codeword x every single-bit error "
    "through check_and_correct / correct_numpy_array for the five Hamming codes; every codeword x all 120 double errors "
    "for Hamming(16,11,4).  A case is one (code, word) or (code, codeword, error pattern); every case is distinct by "
    "construction; non-trivial = words that are not codewords, codewords of non-zero messages, and all error patterns.  "
    "Sub-check 'reuse' (added after seeded change C06-2): directed and Hypothesis-drawn call histories in which a receiver "
    "reuses one bitarray as its buffer and words repeat, through check_and_correct and correct_numpy_array; distinct by hash, "
    "non-trivial = a word is presented again after the buffer was reused."
)
ASSUMPTIONS = [
    "reference = systematic encoders of the (shortened/extended) cyclic codes with g(x) = x^3+x+1, x^4+x+1, x^5+x^2+1, "
    "0xC75 (Golay) and x^8+x^5+x^4+x^3+1 (QR), extended by overall even parity where n is even; this is the mathematical "
    "definition of the ETSI B.3.x codes, not a copy of the library's matrices",
    "bitarray / numpy are trusted",
]

LIB = {
    "hamming_7_4_3": ("okdmr.dmrlib.etsi.fec.hamming_7_4_3", "Hamming743"),
    "hamming_13_9_3": ("okdmr.dmrlib.etsi.fec.hamming_13_9_3", "Hamming1393"),
    "hamming_15_11_3": ("okdmr.dmrlib.etsi.fec.hamming_15_11_3", "Hamming15113"),
    "hamming_16_11_4": ("okdmr.dmrlib.etsi.fec.hamming_16_11_4", "Hamming16114"),
    "hamming_17_12_3": ("okdmr.dmrlib.etsi.fec.hamming_17_12_3", "Hamming17123"),
    "golay_20_8_7": ("okdmr.dmrlib.etsi.fec.golay_20_8_7", "Golay2087"),
    "qr_16_7_6": ("okdmr.dmrlib.etsi.fec.quadratic_residue_16_7_6", "QuadraticResidue1676"),
}
HAMMING = [c for c in LIB if c.startswith("hamming")]


def lib(code):
    m, c = LIB[code]
    return getattr(importlib.import_module(m), c)


_REFSET = {}


def refset(code):
    if code not in _REFSET:
        _REFSET[code] = gf2.ref_codeword_set(code)
    return _REFSET[code]


def _bits(v, n):
    return int2ba(v, n, endian="big") if n else bitarray()


# ---------------------------------------------------------------------------------------------- oracles


def oracle_encode(case):
    """case = {code, msg} : encoder systematic, equals reference, accepted by checker, declared n/k right."""
    code, msg = case["code"], case["msg"]
    n, k, d, g, ext = gf2.CODES[code]
    cls = lib(code)
    m = _bits(msg, k)
    before = m.copy()
    st, cw = call(cls.generate, m)
    cwl = [int(x) for x in numpy.asarray(cw).tolist()]
    if len(cwl) != n:
        raise Fail("codeword_length", len(cwl), n)
    if any(b not in (0, 1) for b in cwl):
        raise Fail("codeword_binary", cwl, "0/1 entries")
    if cwl[:k] != gf2.int_to_bits(msg, k):
        raise Fail("systematic", cwl[:k], gf2.int_to_bits(msg, k))
    ref = gf2.ref_encode(code, gf2.int_to_bits(msg, k))
    if cwl != ref:
        raise Fail("equals_reference_code", "".join(map(str, cwl)), "".join(map(str, ref)))
    st, ok = call(cls.check, bitarray(cwl))
    if ok is not True and ok != True:  # numpy bools tolerated
        raise Fail("encoder_output_passes_checker", ok, True)
    if m != before:
        raise Fail("input_not_mutated", m.to01(), before.to01())
    if code in HAMMING:
        if (cls.CODEWORD_LENGTH, cls.CODE_DIMENSION, cls.MINIMUM_HAMMING_DISTANCE) != (n, k, d):
            raise Fail("advertised_parameters", (cls.CODEWORD_LENGTH, cls.CODE_DIMENSION, cls.MINIMUM_HAMMING_DISTANCE), (n, k, d))


def oracle_check_word(case):
    """case = {code, word}: checker accepts exactly the reference codewords."""
    code, w = case["code"], case["word"]
    n = gf2.CODES[code][0]
    st, ok = call(lib(code).check, _bits(w, n))
    exp = w in refset(code)
    if bool(ok) != exp:
        raise Fail("checker_accepts_exactly_codewords", bool(ok), exp)


def oracle_min_distance(case):
    """case = {code}: all pairs of *library* codewords differ in >= d positions (and there are 2^k distinct ones)."""
    code = case["code"]
    n, k, d, g, ext = gf2.CODES[code]
    cls = lib(code)
    cws = [gf2.bits_to_int(numpy.asarray(cls.generate(_bits(m, k))).tolist()) for m in range(1 << k)]
    if len(set(cws)) != (1 << k):
        raise Fail("distinct_codewords", len(set(cws)), 1 << k)
    arr = numpy.array(cws, dtype=numpy.uint32)
    best = n + 1
    pair = None
    # all unordered pairs, vectorised popcount
    for i in range(len(cws) - 1):
        x = numpy.bitwise_xor(arr[i + 1 :], arr[i])
        # popcount for 32-bit
        x = x - ((x >> 1) & 0x55555555)
        x = (x & 0x33333333) + ((x >> 2) & 0x33333333)
        x = (((x + (x >> 4)) & 0x0F0F0F0F) * 0x01010101 & 0xFFFFFFFF) >> 24
        mn = int(x.min())
        if mn < best:
            best = mn
            pair = (i, i + 1 + int(x.argmin()))
    if best < d:
        raise Fail("minimum_distance", best, f">= {d} (pair of messages {pair})")
    case["_observed_min_distance"] = best


def oracle_single_error(case):
    """case = {code, msg, pos}: Hamming codeword with one inverted bit is repaired to the original."""
    code, msg, pos = case["code"], case["msg"], case["pos"]
    n, k, d, g, ext = gf2.CODES[code]
    cls = lib(code)
    ref = bitarray(gf2.ref_encode(code, gf2.int_to_bits(msg, k)))
    rx = ref.copy()
    rx.invert(pos)
    st, res = call(cls.check_and_correct, rx.copy())
    ok, fixed = res
    if ok is not True or bitarray(fixed) != ref:
        raise Fail("single_error_repaired", [ok, bitarray(fixed).to01()], [True, ref.to01()])
    # numpy path must agree
    arr_in = numpy.array(rx.tolist())
    st, arr = call(cls.correct_numpy_array, arr_in)
    got = [int(x) for x in numpy.asarray(arr).tolist()]
    if got != ref.tolist():
        raise Fail("correct_numpy_array_repairs_single_error", "".join(map(str, got)), ref.to01())


def oracle_error_free(case):
    """case = {code, msg}: check_and_correct leaves an error-free codeword alone and reports True."""
    code, msg = case["code"], case["msg"]
    n, k, d, g, ext = gf2.CODES[code]
    cls = lib(code)
    ref = bitarray(gf2.ref_encode(code, gf2.int_to_bits(msg, k)))
    st, res = call(cls.check_and_correct, ref.copy())
    ok, fixed = res
    if ok is not True or bitarray(fixed) != ref:
        raise Fail("error_free_codeword_unchanged", [ok, bitarray(fixed).to01()], [True, ref.to01()])
    st, arr = call(cls.correct_numpy_array, numpy.array(ref.tolist()))
    if [int(x) for x in numpy.asarray(arr).tolist()] != ref.tolist():
        raise Fail("correct_numpy_array_keeps_codeword", numpy.asarray(arr).tolist(), ref.tolist())


def oracle_double_error_16_11(case):
    """case = {msg, i, j}: Hamming(16,11,4) reports a double error as uncorrectable and does not alter the word."""
    msg, i, j = case["msg"], case["i"], case["j"]
    code = "hamming_16_11_4"
    cls = lib(code)
    ref = bitarray(gf2.ref_encode(code, gf2.int_to_bits(msg, 11)))
    rx = ref.copy()
    rx.invert(i)
    rx.invert(j)
    st, res = call(cls.check_and_correct, rx.copy())
    ok, word = res
    if ok is not False:
        raise Fail("double_error_reported_uncorrectable", [ok, bitarray(word).to01()], [False, rx.to01()])
    if bitarray(word) != rx:
        raise Fail("double_error_word_not_altered", bitarray(word).to01(), rx.to01())
    st, arr = call(cls.correct_numpy_array, numpy.array(rx.tolist()))
    if [int(x) for x in numpy.asarray(arr).tolist()] != rx.tolist():
        raise Fail("correct_numpy_array_keeps_uncorrectable_word", numpy.asarray(arr).tolist(), rx.tolist())


# ---------------------------------------------------------------------------------------------- drivers

CHUNK = 1 << 13


def drv_encode(ctx: Ctx, sub: SubCheck):
    items = []
    for code in LIB:
        k = gf2.CODES[code][1]
        for lo in range(0, 1 << k, 1 << 10):
            items.append((code, lo, min(1 << k, lo + (1 << 10))))

    def work(it, t: Tally):
        code, lo, hi = it
        for m in range(lo, hi):
            case = {"code": code, "msg": m}
            ctx.run_case(sub.name, oracle_encode, case, t)
            t.case(sub.name, nontrivial=(m != 0), cls=code)
        t.sample(sub.name, {"code": code, "msg": lo + (hi - lo) // 3})

    ctx.shards(work, items)
    ctx.tally.exhaustive[sub.name] = True


def drv_check_word(ctx: Ctx, sub: SubCheck):
    items = []
    for code in LIB:
        n = gf2.CODES[code][0]
        for lo in range(0, 1 << n, CHUNK):
            items.append((code, lo, min(1 << n, lo + CHUNK)))
    if ctx.tier == "thorough":
        # same complete space, different call order (history independence of the class-level matrices)
        ctx.rng("order").shuffle(items)

    def work(it, t: Tally):
        code, lo, hi = it
        rs = refset(code)
        n_cw = 0
        for w in range(lo, hi):
            ctx.run_case(sub.name, oracle_check_word, {"code": code, "word": w}, t)
            if w in rs:
                n_cw += 1
        t.case(sub.name, nontrivial=True, cls=code + ":non_codeword", n=(hi - lo) - n_cw)
        t.case(sub.name, nontrivial=True, cls=code + ":codeword", n=n_cw)
        t.sample(sub.name, {"code": code, "word": lo + 12345 % (hi - lo)})

    ctx.shards(work, items, chunksize=2)
    ctx.tally.exhaustive[sub.name] = True


def drv_min_distance(ctx: Ctx, sub: SubCheck):
    def work(code, t: Tally):
        case = {"code": code}
        ctx.run_case(sub.name, oracle_min_distance, case, t)
        k = gf2.CODES[code][1]
        npairs = (1 << k) * ((1 << k) - 1) // 2
        t.case(sub.name, nontrivial=True, cls=code, n=npairs)
        t.sample(sub.name, {"code": code, "pairs": npairs, "observed_min_distance": case.get("_observed_min_distance")})
        t.extra.setdefault("observed_min_distance", {})[code] = case.get("_observed_min_distance")

    ctx.shards(work, list(LIB))
    ctx.tally.exhaustive[sub.name] = True


def drv_single_error(ctx: Ctx, sub: SubCheck):
    items = []
    for code in HAMMING:
        k = gf2.CODES[code][1]
        step = 1 << 8
        for lo in range(0, 1 << k, step):
            items.append((code, lo, min(1 << k, lo + step)))

    def work(it, t: Tally):
        code, lo, hi = it
        n = gf2.CODES[code][0]
        for m in range(lo, hi):
            ctx.run_case("error_free", oracle_error_free, {"code": code, "msg": m}, t)
            t.case("error_free", nontrivial=(m != 0), cls=code)
            for pos in range(n):
                ctx.run_case(sub.name, oracle_single_error, {"code": code, "msg": m, "pos": pos}, t)
            t.case(sub.name, nontrivial=True, cls=code, n=n)
        t.sample(sub.name, {"code": code, "msg": lo + 7 % (hi - lo), "pos": lo % n})

    ctx.shards(work, items)
    ctx.tally.exhaustive[sub.name] = True
    ctx.tally.exhaustive["error_free"] = True


def drv_double_error(ctx: Ctx, sub: SubCheck):
    items = [(lo, lo + 32) for lo in range(0, 1 << 11, 32)]
    pairs = list(itertools.combinations(range(16), 2))

    def work(it, t: Tally):
        lo, hi = it
        for m in range(lo, hi):
            for i, j in pairs:
                ctx.run_case(sub.name, oracle_double_error_16_11, {"msg": m, "i": i, "j": j}, t)
            t.case(sub.name, nontrivial=True, n=len(pairs))
        t.sample(sub.name, {"msg": lo, "i": pairs[lo % 120][0], "j": pairs[lo % 120][1]})

    ctx.shards(work, items)
    ctx.tally.exhaustive[sub.name] = True


# ---------------------------------------------------------------------------------------------- containers (lesson A.1)


def oracle_container(case):
    """case = {code, entry, rep, value[, pos]}: the same word / message handed over in another container (little-endian bitarray,
    frozenbitarray, numpy arrays) gives the decision / codeword its BIT SEQUENCE demands; a container the entry point does not
    accept (clean TypeError / AttributeError / ValueError) is outside the domain."""
    from vp import containers as C

    code, entry, rep, v = case["code"], case["entry"], case["rep"], case["value"]
    n, k, d, g, ext = gf2.CODES[code]
    cls = lib(code)
    if entry == "generate":
        bits = gf2.int_to_bits(v, k)
        st, out = C.try_call(cls.generate, C.make(rep, bits))
        if st == "rejected":
            case["_skipped"] = True
            return
        got, exp = C.to_bits(out), gf2.ref_encode(code, bits)
        if got != exp:
            raise Fail("container_generate_equals_reference_code", "".join(map(str, got)), "".join(map(str, exp)), rep)
    elif entry == "check":
        bits = gf2.int_to_bits(v, n)
        st, out = C.try_call(cls.check, C.make(rep, bits))
        if st == "rejected":
            case["_skipped"] = True
            return
        if bool(out) != (v in refset(code)):
            raise Fail("container_checker_accepts_exactly_codewords", bool(out), v in refset(code), rep)
    else:  # check_and_correct on a received word: reference decision by nearest codeword
        bits = gf2.int_to_bits(v, n)
        rx = C.make(rep, bits)
        st, out = C.try_call(cls.check_and_correct, rx)
        if st == "rejected":
            case["_skipped"] = True
            return
        ok, fixed = out
        eok, eword = _nearest(code, v)
        if bool(ok) != eok or C.to_bits(fixed) != gf2.int_to_bits(eword, n):
            raise Fail("container_check_and_correct_reference_decision", [bool(ok), "".join(map(str, C.to_bits(fixed)))], [eok, "".join(map(str, gf2.int_to_bits(eword, n)))], rep)


def drv_containers(ctx: Ctx, sub: SubCheck):
    from vp import containers as C

    items = []
    for code in LIB:
        n, k = gf2.CODES[code][0], gf2.CODES[code][1]
        for rep in C.ALTERNATIVE:
            items.append((code, "generate", rep))
            items.append((code, "check", rep))
            if code in HAMMING:
                items.append((code, "check_and_correct", rep))

    def work(it, t: Tally):
        code, entry, rep = it
        n, k = gf2.CODES[code][0], gf2.CODES[code][1]
        rs = sorted(refset(code))
        rng = ctx.rng(f"containers:{code}:{entry}:{rep}")
        if entry == "generate":
            values = range(1 << k)
        elif entry == "check":
            # all codewords, all their single-error neighbours (quick: every 4th codeword), and as many arbitrary words
            cws = rs if (n <= 17 or ctx.tier == "thorough") else rs
            near = {c ^ (1 << p) for c in cws[:: ctx.pick(4, 1)] for p in range(n)}
            values = list(cws) + sorted(near) + [rng.getrandbits(n) for _ in range(ctx.pick(2048, 1 << 15))]
        else:
            # every codeword x every single error (quick: every 8th codeword), error-free words, double errors
            cws = rs[:: ctx.pick(8, 1)]
            values = list(cws) + [c ^ (1 << p) for c in cws for p in range(n)] + [c ^ (1 << p) ^ (1 << q) for c in cws[::4] for p, q in itertools.combinations(range(n), 2)]
        skipped = 0
        for v in values:
            case = {"code": code, "entry": entry, "rep": rep, "value": v}
            ctx.run_case(sub.name, oracle_container, case, t)
            if case.get("_skipped"):
                skipped += 1
                break  # the entry point declines this container altogether
        if skipped:
            t.case(sub.name, nontrivial=False, cls=f"container_not_accepted.{code}.{entry}.{rep}")
        else:
            t.case(sub.name, nontrivial=True, cls=f"{entry}.{rep}", n=len(values))
        t.sample(sub.name, {"code": code, "entry": entry, "rep": rep, "n_values": len(values)})

    ctx.shards(work, items)


# ---------------------------------------------------------------------------------------------- buffer-reuse histories


def _nearest(code, w):
    """reference decision for a received word: (True, codeword) when a codeword lies within distance 1 (unique, d >= 3),
    else (False, word)"""
    n = gf2.CODES[code][0]
    rs = refset(code)
    if w in rs:
        return True, w
    for i in range(n):
        if (w ^ (1 << i)) in rs:
            return True, w ^ (1 << i)
    return False, w


def oracle_reuse(case):
    """case = {code, words: [int...], steps: [[word index, "reuse"|"fresh"|"numpy"], ...]}.  A receiver keeps ONE bitarray as
    its receive buffer: "reuse" overwrites that buffer in place with the word and calls check_and_correct on it, "fresh"
    passes a new bitarray, "numpy" goes through correct_numpy_array.  Whatever happened before, every call must give the
    reference decision for ITS word (single error repaired to the original codeword, codeword unchanged, otherwise
    reported uncorrectable and unchanged)."""
    code = case["code"]
    n = gf2.CODES[code][0]
    cls = lib(code)
    buf = bitarray(n)
    buf.setall(0)
    for wi, how in case["steps"]:
        w = case["words"][wi]
        exp_ok, exp_w = _nearest(code, w)
        if how == "numpy":
            st, arr = call(cls.correct_numpy_array, numpy.array(_bits(w, n).tolist()))
            got = gf2.bits_to_int([int(x) for x in numpy.asarray(arr).tolist()])
            if got != exp_w:
                raise Fail("numpy_repair_independent_of_history", format(got, f"0{n}b"), format(exp_w, f"0{n}b"), how)
            continue
        if how == "reuse":
            buf[:] = _bits(w, n)
            arg = buf
        else:
            arg = _bits(w, n)
        st, res = call(cls.check_and_correct, arg)
        ok, word = res
        got = gf2.bits_to_int(bitarray(word).tolist())
        if bool(ok) != exp_ok or got != exp_w:
            raise Fail("repair_independent_of_history", [bool(ok), format(got, f"0{n}b")], [exp_ok, format(exp_w, f"0{n}b")], how)


def drv_reuse(ctx: Ctx, sub: SubCheck):
    from hypothesis import strategies as st

    # deterministic core: (single error in the buffer, buffer reused for another word, first word again) for every code
    rng = ctx.rng("reuse")
    det = []
    for code in HAMMING:
        n, k = gf2.CODES[code][0], gf2.CODES[code][1]
        for _ in range(ctx.pick(30, 300)):
            cw1 = gf2.bits_to_int(gf2.ref_encode(code, gf2.int_to_bits(rng.getrandbits(k), k)))
            cw2 = gf2.bits_to_int(gf2.ref_encode(code, gf2.int_to_bits(rng.getrandbits(k), k)))
            i, j, l = rng.randrange(n), rng.randrange(n), rng.randrange(n)
            w1 = cw1 ^ (1 << i)
            w2 = cw2 ^ (1 << j)
            w3 = cw2 ^ (1 << j) ^ (1 << l) if l != j else cw2  # double error (or codeword)
            for second in (1, 2):
                for third in ("fresh", "numpy", "reuse"):
                    det.append({"code": code, "words": [w1, w2, w3], "steps": [[0, "reuse"], [second, "reuse"], [0, third], [0, "fresh"]]})
            det.append({"code": code, "words": [w1, w2, w3], "steps": [[0, "reuse"], [0, "reuse"], [0, "numpy"]]})

    def work(chunk, t: Tally):
        for c in chunk:
            ctx.run_case(sub.name, oracle_reuse, c, t)
            t.case(sub.name, key=c, nontrivial=True, cls="directed:" + c["code"])

    ctx.shards(work, [det[i::16] for i in range(16)])

    def strat_for(code):
        n, k = gf2.CODES[code][0], gf2.CODES[code][1]

        def mk(msgs, errs, steps):
            words = []
            for m, e in zip(msgs, errs):
                cw = gf2.bits_to_int(gf2.ref_encode(code, gf2.int_to_bits(m, k)))
                for pos in e:
                    cw ^= 1 << pos
                words.append(cw)
            return {"code": code, "words": words, "steps": steps}

        return st.builds(
            mk,
            st.lists(st.integers(0, (1 << k) - 1), min_size=3, max_size=3),
            st.lists(st.lists(st.integers(0, n - 1), min_size=0, max_size=2), min_size=3, max_size=3),
            st.lists(st.tuples(st.integers(0, 2), st.sampled_from(["reuse", "reuse", "fresh", "numpy"])).map(list), min_size=2, max_size=7),
        )

    strat = st.one_of(*[strat_for(c) for c in HAMMING])

    def rec(c, tt):
        idx = [x[0] for x in c["steps"]]
        tt.case(sub.name, key=c, nontrivial=len(set(idx)) < len(idx) and any(h == "reuse" for _, h in c["steps"]), cls="random:" + c["code"])

    def hyp(shard, t: Tally):
        ctx.hypothesis(sub.name, strat, oracle_reuse, ctx.pick(120, 2000), tally=t, shard=shard, record=rec)

    ctx.shards(hyp, list(range(16)))



# ---------------------------------------------------------------------------------------------- histories across the codes
# (seeded round 7: C06-7 / C02-7 / C04-7 - a repair table, syndrome memo or error-pattern table shared by sibling codes and keyed
# on something they have in common: the dimension k = 11 of (15,11,3) and (16,11,4), the length n = 16 of (16,11,4) and QR(16,7,6),
# a syndrome padded to whole octets.  Only a history that sends *the same bit image* through several codes can see it.)

_OPS_ALL = ("check", "generate")
_OPS_HAMMING = ("check", "generate", "repair", "numpy")


def oracle_cross_code(case):
    """case = {steps: [[code, value, op], ...]}.  value is an integer bit image; each code looks at its own width of it (the low
    n bits for check / repair / numpy, the low k bits for generate).  Every call must give the reference result for ITS code
    and ITS word, whatever the other codes were asked before."""
    for code, v, op in case["steps"]:
        n, k = gf2.CODES[code][0], gf2.CODES[code][1]
        cls = lib(code)
        if op == "generate":
            m = v & ((1 << k) - 1)
            st, res = call(cls.generate, _bits(m, k))
            got = gf2.bits_to_int([int(x) for x in numpy.asarray(res).tolist()])
            exp = gf2.bits_to_int(gf2.ref_encode(code, gf2.int_to_bits(m, k)))
            if got != exp:
                raise Fail("generate_independent_of_other_codes", format(got, f"0{n}b"), format(exp, f"0{n}b"), code)
            continue
        w = v & ((1 << n) - 1)
        if op == "check":
            st, res = call(cls.check, _bits(w, n))
            if bool(res) != (w in refset(code)):
                raise Fail("check_independent_of_other_codes", bool(res), w in refset(code), code)
            continue
        exp_ok, exp_w = _nearest(code, w)
        if op == "numpy":
            st, arr = call(cls.correct_numpy_array, numpy.array(_bits(w, n).tolist()))
            got = gf2.bits_to_int([int(x) for x in numpy.asarray(arr).tolist()])
            if got != exp_w:
                raise Fail("numpy_repair_independent_of_other_codes", format(got, f"0{n}b"), format(exp_w, f"0{n}b"), code)
            continue
        st, res = call(cls.check_and_correct, _bits(w, n))
        ok, word = res
        got = gf2.bits_to_int(bitarray(word).tolist())
        if bool(ok) != exp_ok or got != exp_w:
            raise Fail("repair_independent_of_other_codes", [bool(ok), format(got, f"0{n}b")], [exp_ok, format(exp_w, f"0{n}b")], code)


def _near_codeword(code, rng, weight):
    n, k = gf2.CODES[code][0], gf2.CODES[code][1]
    w = gf2.bits_to_int(gf2.ref_encode(code, gf2.int_to_bits(rng.getrandbits(k), k)))
    for pos in rng.sample(range(n), weight):
        w ^= 1 << pos
    return w


def drv_cross_code(ctx: Ctx, sub: SubCheck):
    from hypothesis import strategies as st

    codes = list(LIB)
    rng = ctx.rng("cross_code")
    det = []
    # directed: a word at distance 0 / 1 / 2 of a codeword of code A goes through code A, then the same image through every
    # other code (every op it has), then through code A again - for every ordered pair of codes and both orders of use
    for a in codes:
        for weight in (0, 1, 2):
            for _ in range(ctx.pick(2, 12)):
                v = _near_codeword(a, rng, weight)
                ops_a = _OPS_HAMMING if a in HAMMING else _OPS_ALL
                for b in codes:
                    if b == a:
                        continue
                    ops_b = _OPS_HAMMING if b in HAMMING else _OPS_ALL
                    first = [[a, v, op] for op in ops_a]
                    other = [[b, v, op] for op in ops_b]
                    det.append({"steps": first + other + first})
                    det.append({"steps": other + first + other})

    def work(chunk, t: Tally):
        for c in chunk:
            ctx.run_case(sub.name, oracle_cross_code, c, t)
            t.case(sub.name, key=c, nontrivial=True, cls="directed:" + c["steps"][0][0] + ">" + c["steps"][len(c["steps"]) // 2][0])

    ctx.shards(work, [det[i::16] for i in range(16)])

    def step_for(code):
        ops = _OPS_HAMMING if code in HAMMING else _OPS_ALL
        return st.tuples(st.just(code), st.sampled_from(ops))

    def mk(images, picks):
        return {"steps": [[code, images[i % len(images)], op] for (code, op), i in picks]}

    def image():
        # a near-codeword of a random code (so that repairs have work to do), or an arbitrary 20-bit image
        def near(code, m, flips):
            n, k = gf2.CODES[code][0], gf2.CODES[code][1]
            w = gf2.bits_to_int(gf2.ref_encode(code, gf2.int_to_bits(m & ((1 << k) - 1), k)))
            for pos in flips:
                w ^= 1 << (pos % n)
            return w

        return st.one_of(
            st.builds(near, st.sampled_from(codes), st.integers(0, (1 << 12) - 1), st.lists(st.integers(0, 19), min_size=0, max_size=2)),
            st.integers(0, (1 << 20) - 1),
        )

    strat = st.builds(
        mk,
        st.lists(image(), min_size=1, max_size=2),
        st.lists(st.tuples(st.one_of(*[step_for(c) for c in codes]), st.integers(0, 1)), min_size=3, max_size=12),
    )

    def rec(c, tt):
        used = {x[0] for x in c["steps"]}
        tt.case(sub.name, key=c, nontrivial=len(used) >= 2, cls=f"random:{min(len(used), 4)}_codes")

    def hyp(shard, t: Tally):
        ctx.hypothesis(sub.name, strat, oracle_cross_code, ctx.pick(150, 2500), tally=t, shard=shard, record=rec)

    ctx.shards(hyp, list(range(16)))


PRELUDE_GROUPS = ("fec", "bptc")

SUBCHECKS = [
    SubCheck("cross_code", oracle_cross_code, drv_cross_code, "histories that send one bit image through several of the seven codes (check / generate / both repair entry points): every call gives the reference result for its own code and word"),
    SubCheck("encode", oracle_encode, drv_encode, "all 2^k messages: systematic, equals reference cyclic code, passes checker"),
    SubCheck("check_word", oracle_check_word, drv_check_word, "all 2^n words: checker accepts exactly the 2^k reference codewords"),
    SubCheck("min_distance", oracle_min_distance, drv_min_distance, "all pairs of library codewords: distance >= advertised d"),
    SubCheck("single_error", oracle_single_error, drv_single_error, "all Hamming codewords x all single-bit errors repaired (bitarray and numpy paths)"),
    SubCheck("error_free", oracle_error_free, lambda ctx, sub: None, "all Hamming codewords pass check_and_correct unchanged (driven by single_error)"),
    SubCheck("containers", oracle_container, drv_containers, "generate / check / check_and_correct with the word in a little-endian bitarray, frozenbitarray or numpy array: result demanded by the bit sequence"),
    SubCheck("reuse", oracle_reuse, drv_reuse, "histories with a reused receive buffer / repeated words through both repair entry points: every call gives the reference decision for its own word"),
    SubCheck("double_error_16_11_4", oracle_double_error_16_11, drv_double_error, "Hamming(16,11,4): all codewords x all 120 double errors reported uncorrectable, word unchanged"),
]
PREDICATES = {}
