"""C01 — a burst the library assembles parses back identically and re-assembles; voice bursts survive parse/serialise.

Generated-input search (Hypothesis + seeded enumeration of the (PDU variant x colour code x sync) grid) against
(RT) round trip through Burst.from_bytes / as_bytes with field-by-field comparison of the payload PDU and
(R) an independent layout reference: 98+10+48+10+98 split, sync constants of TS 102 361-1 table 9.2, slot type = reference
Golay(20,8,7) codeword of (colour code, data type), payload = reference BPTC(196,96) codeword / reference rate-3/4 trellis / 96+4+96 rate-1 layout.
Field generators and the field dump live in vp/pdugen_c01.py.  See DESIGN.md §4 C01.
"""
from __future__ import annotations

from bitarray import bitarray

from vp import pdugen_c01 as G
from vp.core import Ctx, Fail, SubCheck, Tally, call, digest
from vp.refs import bptc_ref, gf2, trellis34_ref

LEVEL = "exploration"
RULE = (
    "data bursts: a case is (PDU kind, variant, field values, colour code 0..15, one of the four data sync patterns).  "
    "Variants: CSBK x 9 implemented opcodes, data header x 5 implemented formats, full LC x 7 implemented FLCOs x {voice LC "
    "header, terminator with LC} x {library RS(12,9) parity under the data-type mask, 24 free check bits}, PI header, rate "
    "1/2, 3/4, 1 x {unconfirmed, confirmed, unconfirmed last, confirmed last}.  Field values: every field of the variant "
    "drawn over the full width the serialiser writes (enum fields over the defined members), check fields left to the "
    "library.  data_grid enumerates variant x colour code x sync by construction (thorough: full cross product; quick: "
    "every variant with all 16 colour codes and all 4 syncs in a rotating pairing) with seeded random field values; "
    "data_random draws everything with Hypothesis.  voice bursts: 216 vocoder bits around each of the four voice sync "
    "patterns, or around the reference QR(16,7,6) codeword of every (colour code, PI, LCSS) (all 128 enumerated) with 32 "
    "embedded bits; payloads random / all-zero / all-one.  Distinct by hash of the complete case.  Non-trivial: data bursts "
    "whose PDU bits are not all zero; voice bursts whose 216 vocoder bits are neither all zero nor all one."
)
ASSUMPTIONS = [
    "burst assembly idiom = the one of TransmissionGenerator (the only assembly API the library has): "
    "Burst(burst_type=DataAndControl); has_emb=False; sync_or_embedded_signalling, slot_type=SlotType(cc, data type), data "
    "set; as_bytes()",
    "sync constants are written out in this module from ETSI TS 102 361-1 table 9.2 and compared with the library's enum; "
    "offline cross-checks: BsSourcedData, MsSourcedData and MsSourcedVoice occur at bits 108..155 of on-air captures in "
    "okdmr/tests/dmrlib/etsi/layer2/test_burst.py, pdu/test_csbk.py and transmission/test_transmission.py, BsSourcedVoice "
    "is the literal of elements/test_sync_patterns.py; all eight consist of the symbols 01/11 only (+3/-3 deviation) and "
    "every data pattern is the symbol-wise inverse (xor 0xAAAAAAAAAAAA) of the voice pattern of the same source, as the "
    "standard constructs them; the two TDMA direct-mode pairs have no second witness in the repository beyond that "
    "structural relation",
    "layout reference: slot type = Golay(20,8,7) reference codeword (vp/refs/gf2.py) split 10+10 around the 48 sync bits; "
    "BPTC payload = vp/refs/bptc_ref.bptc196_encode of the PDU's 96 bits; rate 1 = 96 bits + 4 zero bits + 96 bits (table "
    "B.10B as cited by the library); rate 3/4 = vp/refs/trellis34_ref.encode (FSM + constellation + interleaver written "
    "from the structure of B.2.4, validated against the three captured blocks of fec/test_trellis.py)",
    "no field setting is excluded: the three PDU-level asymmetries of DESIGN.md §5 rows 3-5 (C03) were routed around until "
    "they were repaired in /repo (a566ed4, 2d4d28d, 70fa250); on older trees they show up here as "
    "parsed_payload_fields_equal / reassembled_bytes_identical failures of NACK_Rsp, C_ALOHA and response headers",
    "rate blocks: a burst alone cannot know confirmed/last, the parsed block is .convert()-ed to the generated block type "
    "before fields are compared (the library's own idiom in Transmission)",
    "GPS coordinates are multiples of the wire resolution; other floats cannot survive a 25/24-bit field and are not "
    "'in-range field values'",
]

# ETSI TS 102 361-1 table 9.2 (48-bit SYNC patterns)
DATA_SYNCS = {
    "BsSourcedData": 0xDFF57D75DF5D,
    "MsSourcedData": 0xD5D7F77FD757,
    "Tdma1Data": 0xF7FDD5DDFD55,
    "Tdma2Data": 0xD7557F5FF7F5,
}
VOICE_SYNCS = {
    "BsSourcedVoice": 0x755FD7DF75F7,
    "MsSourcedVoice": 0x7F7D5DD57DFD,
    "Tdma1Voice": 0x5D577F7757FF,
    "Tdma2Voice": 0x7DFFD5F55D5F,
}
for _d, _v in zip(DATA_SYNCS.values(), VOICE_SYNCS.values()):
    assert _d ^ _v == 0xAAAAAAAAAAAA and set("%012X" % _d) <= set("57DF") and set("%012X" % _v) <= set("57DF")
assert trellis34_ref.selfcheck(), "trellis reference does not reproduce the captured rate 3/4 blocks"
SYNC_NAMES = list(DATA_SYNCS)
# every 48-bit pattern of table 9.2 (incl. reverse-channel and reserved SYNC): a burst centre equal to one of them is SYNC
_ALL_SYNC_VALUES = set(DATA_SYNCS.values()) | set(VOICE_SYNCS.values()) | {0x77D55F7DFD77, 0xDD7FF5D757DD}
VOICE_SYNC_NAMES = list(VOICE_SYNCS)

_SIDE: dict = {}  # tallying side channel oracle -> record (never influences a verdict)


def _ba(x) -> bitarray:
    return bitarray([int(v) for v in x], endian="big")


def _from_bytes(b: bytes) -> bitarray:
    out = bitarray(endian="big")
    out.frombytes(b)
    return out


def _diffpos(a, b):
    return {"differing_positions": [i for i in range(min(len(a), len(b))) if a[i] != b[i]], "len": [len(a), len(b)]}


def _preimport():
    """Hypothesis (6.13x and later) mixes constants harvested from the source of every *local* module present in
    sys.modules into its draws.  The library modules an oracle imports lazily would therefore make the generated cases
    depend on which forked worker happened to run which shard first.  Import everything the oracles touch in the parent,
    before any worker is forked, so that every worker sees the same module set."""
    import importlib
    import pkgutil

    import okdmr.dmrlib.etsi as etsi

    for m in pkgutil.walk_packages(etsi.__path__, "okdmr.dmrlib.etsi."):
        importlib.import_module(m.name)
    importlib.import_module("okdmr.dmrlib.etsi.layer2.burst")
    importlib.import_module("hypothesis.strategies")


# ---------------------------------------------------------------------------------------------- data bursts


def oracle_data(case):
    """case = {kind, variant, f: {field: value}, cc, sync}"""
    from okdmr.dmrlib.etsi.layer2.burst import Burst
    from okdmr.dmrlib.etsi.layer2.elements.burst_types import BurstTypes
    from okdmr.dmrlib.etsi.layer2.elements.data_types import DataTypes
    from okdmr.dmrlib.etsi.layer2.elements.sync_patterns import SyncPatterns
    from okdmr.dmrlib.etsi.layer2.pdu.slot_type import SlotType

    kind, variant, f, cc, sync = case["kind"], case["variant"], case["f"], case["cc"], case["sync"]
    dt = DataTypes[G.DATA_TYPE_OF_KIND[kind]]
    sp = SyncPatterns[sync]
    if sp.value != DATA_SYNCS[sync]:
        raise Fail("sync_constant_equals_table_9_2", "%012X" % sp.value, "%012X" % DATA_SYNCS[sync], klass=sync)

    st, pdu = call(G.build, kind, variant, f)
    st, pb = call(pdu.as_bits)
    pdu_bits = _ba(pb)
    _SIDE["nonzero"] = pdu_bits.any()

    def assemble():
        b = Burst(burst_type=BurstTypes.DataAndControl)
        b.has_emb = False
        b.sync_or_embedded_signalling = sp
        b.slot_type = SlotType(colour_code=cc, data_type=dt)
        b.data = pdu
        return b.as_bytes()

    st, raw = call(assemble)
    if not isinstance(raw, (bytes, bytearray)) or len(raw) != 33:
        raise Fail("serialised_burst_is_33_bytes", len(raw) if hasattr(raw, "__len__") else repr(raw), 33)
    raw = bytes(raw)
    bits = _from_bytes(raw)
    # field values of the object that was serialised (taken after serialising: a check field the library fills in while
    # serialising belongs to what was sent)
    before = G.dump(pdu)

    # (R) layout
    exp_sync = _ba(gf2.int_to_bits(DATA_SYNCS[sync], 48))
    if bits[108:156] != exp_sync:
        raise Fail("layout_sync_at_108_155", bits[108:156].to01(), exp_sync.to01())
    exp_slot = _ba(gf2.ref_encode("golay_20_8_7", gf2.int_to_bits(cc, 4) + gf2.int_to_bits(dt.value, 4)))
    got_slot = bits[98:108] + bits[156:166]
    if got_slot != exp_slot:
        raise Fail("layout_slot_type_golay_codeword_split_10_10", got_slot.to01(), exp_slot.to01())
    payload = bits[:98] + bits[166:]
    if kind == "rate34":
        if len(pdu_bits) != 144:
            raise Fail("pdu_bit_length", len(pdu_bits), 144)
        exp_payload = _ba(trellis34_ref.encode(pdu_bits.tolist()))
        pclause = "layout_payload_trellis_reference"
    elif kind == "rate1":
        if len(pdu_bits) != 192:
            raise Fail("pdu_bit_length", len(pdu_bits), 192)
        exp_payload = pdu_bits[:96] + bitarray("0000") + pdu_bits[96:]
        pclause = "layout_payload_rate1_96_gap4_96"
    else:
        if len(pdu_bits) != 96:
            raise Fail("pdu_bit_length", len(pdu_bits), 96)
        exp_payload = _ba(bptc_ref.bptc196_encode(pdu_bits.tolist()))
        pclause = "layout_payload_bptc_reference_codeword"
    if payload != exp_payload:
        raise Fail(pclause, _diffpos(payload, exp_payload), "no difference", klass=kind)

    # (RT) parse
    st, p = call(Burst.from_bytes, raw)
    if p.data_type != dt:
        raise Fail("parsed_data_type", str(p.data_type), str(dt))
    st, pcc = call(lambda: p.colour_code)
    if pcc != cc:
        raise Fail("parsed_colour_code", pcc, cc)
    if p.sync_or_embedded_signalling != sp:
        raise Fail("parsed_sync_pattern", str(p.sync_or_embedded_signalling), str(sp))
    if type(p.data).__name__ != G.expected_class_name(kind):
        raise Fail("parsed_payload_class", type(p.data).__name__, G.expected_class_name(kind))
    parsed_pdu = p.data
    if kind in ("rate12", "rate34", "rate1"):
        st, parsed_pdu = call(p.data.convert, G.rate_type(kind, variant))
    after = G.dump(parsed_pdu)
    d = G.diff_dumps(after, before)
    if d:
        raise Fail("parsed_payload_fields_equal", d[:6], "parsed == assembled (field by field)", klass=f"{kind}:{variant}")

    # (RT) re-assemble
    st, raw2 = call(p.as_bytes)
    if bytes(raw2) != raw:
        raise Fail("reassembled_bytes_identical", _diffpos(_from_bytes(bytes(raw2)), bits), "no difference", klass=kind)


def _record_data(sub):
    def rec(c, t: Tally):
        _tally_data(sub, c, t)

    return rec


def _tally_data(sub, c, t: Tally):
    kind, variant = c["kind"], c["variant"]
    cls = f"{kind}:{variant}"
    if kind.startswith("flc:"):
        cls += ":crc_" + c["f"]["crc_mode"]
    t.case(sub, key=None, nontrivial=False, cls=cls)
    if _SIDE.get("nonzero", True):
        t.nt_hashes.add(digest([sub, c]))
    if sub == "data_random":  # the grid is uniform over colour code and sync by construction
        t.cls(sub, "cc=%02d" % c["cc"])
        t.cls(sub, "sync=" + c["sync"])
    for m in c["f"].get("_excluded", []):
        t.excluded[m] += 1
    t.sample(sub, c)


def drv_data_grid(ctx: Ctx, sub: SubCheck):
    _preimport()
    items = []
    for vi, (kind, variant) in enumerate(G.VARIANTS):
        for cc in range(16):
            syncs = SYNC_NAMES if not ctx.quick else [SYNC_NAMES[(cc + vi) % 4]]
            for sync in syncs:
                items.append((kind, variant, cc, sync))

    def work(chunk, t: Tally):
        for kind, variant, cc, sync in chunk:
            rng = ctx.rng("grid", kind, variant, cc, sync)
            c = {"kind": kind, "variant": variant, "f": G.rng_fields(rng, kind, variant), "cc": cc, "sync": sync}
            _SIDE.clear()
            ctx.run_case(sub.name, oracle_data, c, t)
            _tally_data(sub.name, c, t)

    n = 64
    ctx.shards(work, [items[i::n] for i in range(n)])
    ctx.tally.extra["grid_cells_variant_x_cc_x_sync"] = len(items)
    ctx.tally.extra["grid_is_full_cross_product"] = not ctx.quick
    ctx.tally.extra["pdu_variants"] = len(G.VARIANTS)


def _variant_strategy(kind, variant):
    from hypothesis import strategies as st

    return st.fixed_dictionaries(
        {"kind": st.just(kind), "variant": st.just(variant), "f": G.st_fields(kind, variant), "cc": st.integers(0, 15), "sync": st.sampled_from(SYNC_NAMES)}
    )


def drv_data_random(ctx: Ctx, sub: SubCheck):
    _preimport()
    # one Hypothesis search per PDU variant (a single search over all variants starves some of them: Hypothesis spent 3 of
    # 1120 examples on HyteraIPSCSync and 2 on UDT headers when the variant was drawn with sampled_from)
    def hyp(kv, t: Tally):
        kind, variant = kv
        ctx.hypothesis(sub.name, _variant_strategy(kind, variant), oracle_data, ctx.pick(25, 1500), tally=t, shard=f"{kind}/{variant}", record=_record_data(sub.name))

    ctx.shards(hyp, list(G.VARIANTS))


# ---------------------------------------------------------------------------------------------- voice bursts


def oracle_voice(case):
    """case = {center: 'sync', sync: name, voice: hex54} | {center: 'emb', cc, pi, lcss, emb_bits: hex8, voice: hex54}"""
    from okdmr.dmrlib.etsi.layer2.burst import Burst
    from okdmr.dmrlib.etsi.layer2.elements.burst_types import BurstTypes
    from okdmr.dmrlib.etsi.layer2.elements.sync_patterns import SyncPatterns

    voice = _ba(gf2.int_to_bits(int(case["voice"], 16), 216))
    if case["center"] == "sync":
        sp = SyncPatterns[case["sync"]]
        if sp.value != VOICE_SYNCS[case["sync"]]:
            raise Fail("sync_constant_equals_table_9_2", "%012X" % sp.value, "%012X" % VOICE_SYNCS[case["sync"]], klass=case["sync"])
        center = _ba(gf2.int_to_bits(VOICE_SYNCS[case["sync"]], 48))
    else:
        emb = _ba(gf2.ref_encode("qr_16_7_6", gf2.int_to_bits(case["cc"], 4) + [case["pi"]] + gf2.int_to_bits(case["lcss"], 2)))
        embedded = _ba(gf2.int_to_bits(int(case["emb_bits"], 16), 32))
        center = emb[:8] + embedded + emb[8:]
    bits = voice[:108] + center + voice[108:]
    assert len(bits) == 264
    _SIDE["nonzero"] = voice.any() and not voice.all()

    for how in ("from_bits", "from_bytes"):
        arg = bits.copy()
        if how == "from_bits":
            st, b = call(Burst.from_bits, arg, BurstTypes.Vocoder)
        else:
            st, b = call(Burst.from_bytes, arg.tobytes(), BurstTypes.Vocoder)
        st, out = call(b.as_bits)
        if _ba(out) != bits:
            raise Fail("voice_burst_bits_survive_parse_serialise", _diffpos(_ba(out), bits), "no difference", klass=f"{case['center']}:{how}")
        st, ob = call(b.as_bytes)
        if bytes(ob) != bits.tobytes():
            raise Fail("voice_burst_bytes_survive_parse_serialise", bytes(ob).hex(), bits.tobytes().hex(), klass=f"{case['center']}:{how}")
        if _ba(b.voice_bits) != voice:
            raise Fail("voice_bits_extracted", _diffpos(_ba(b.voice_bits), voice), "no difference")
        if case["center"] == "sync":
            if b.sync_or_embedded_signalling != sp:
                raise Fail("voice_sync_recognised", str(b.sync_or_embedded_signalling), str(sp))
        elif gf2.bits_to_int(center.tolist()) in _ALL_SYNC_VALUES:
            pass  # EMB + embedded bits that spell a SYNC pattern are a SYNC pattern: only bit survival is required
        else:
            if b.emb is None:
                raise Fail("embedded_signalling_recognised", [str(b.sync_or_embedded_signalling), b.has_emb], "an EMB PDU")
            got = [b.emb.colour_code, b.emb.preemption_and_power_control_indicator.value, b.emb.link_control_start_stop.value]
            if got != [case["cc"], case["pi"], case["lcss"]]:
                raise Fail("emb_fields_equal", got, [case["cc"], case["pi"], case["lcss"]])
            st, pcc = call(lambda: b.colour_code)
            if pcc != case["cc"]:
                raise Fail("parsed_colour_code", pcc, case["cc"])
            if _ba(b.embedded_signalling_bits) != embedded:
                raise Fail("embedded_bits_extracted", _ba(b.embedded_signalling_bits).to01(), embedded.to01())


def _tally_voice(sub, c, t: Tally):
    cls = "sync:" + c["sync"] if c["center"] == "sync" else "emb"
    t.case(sub, key=None, nontrivial=False, cls=cls)
    if _SIDE.get("nonzero", True):
        t.nt_hashes.add(digest([sub, c]))
    if c["center"] == "emb":
        t.cls(sub, "emb:lcss=%d:pi=%d" % (c["lcss"], c["pi"]))
    t.sample(sub, c)


def _voice_payload(rng):
    r = rng.random()
    if r < 0.04:
        return "0" * 54
    if r < 0.08:
        return "f" * 54
    return "%054x" % rng.getrandbits(216)


def drv_voice_grid(ctx: Ctx, sub: SubCheck):
    _preimport()
    k = ctx.pick(4, 24)
    items = [("emb", cc, pi, lcss) for cc in range(16) for pi in range(2) for lcss in range(4)] + [("sync", s, 0, 0) for s in VOICE_SYNC_NAMES for _ in range(8)]

    def work(chunk, t: Tally):
        for j, it in enumerate(chunk):
            rng = ctx.rng("voice", *it, j)
            for _ in range(k):
                if it[0] == "emb":
                    eb = rng.choice(["00000000", "ffffffff", "%08x" % rng.getrandbits(32), "%08x" % rng.getrandbits(32)])
                    c = {"center": "emb", "cc": it[1], "pi": it[2], "lcss": it[3], "emb_bits": eb, "voice": _voice_payload(rng)}
                else:
                    c = {"center": "sync", "sync": it[1], "voice": _voice_payload(rng)}
                _SIDE.clear()
                ctx.run_case(sub.name, oracle_voice, c, t)
                _tally_voice(sub.name, c, t)

    ctx.shards(work, [items[i::16] for i in range(16)])
    ctx.tally.extra["emb_values_enumerated"] = 128


def drv_voice_random(ctx: Ctx, sub: SubCheck):
    _preimport()
    from hypothesis import strategies as st

    voice = st.integers(0, 2**216 - 1).map(lambda v: "%054x" % v)
    strat = st.one_of(
        st.fixed_dictionaries({"center": st.just("sync"), "sync": st.sampled_from(VOICE_SYNC_NAMES), "voice": voice}),
        st.fixed_dictionaries(
            {
                "center": st.just("emb"),
                "cc": st.integers(0, 15),
                "pi": st.integers(0, 1),
                "lcss": st.integers(0, 3),
                "emb_bits": st.integers(0, 2**32 - 1).map(lambda v: "%08x" % v),
                "voice": voice,
            }
        ),
    )

    def hyp(shard, t: Tally):
        ctx.hypothesis(sub.name, strat, oracle_voice, ctx.pick(40, 2500), tally=t, shard=shard, record=lambda c, tt: _tally_voice(sub.name, c, tt))

    ctx.shards(hyp, list(range(16)))


SUBCHECKS = [
    SubCheck("data_grid", oracle_data, drv_data_grid, "every PDU variant x colour code x data sync (by construction), seeded random fields: layout reference, parse, field equality, re-assembly"),
    SubCheck("data_random", oracle_data, drv_data_random, "Hypothesis-drawn (variant, fields, colour code, sync): same oracle"),
    SubCheck("voice_grid", oracle_voice, drv_voice_grid, "all 128 (cc, PI, LCSS) EMB codewords and the 4 voice syncs x random vocoder/embedded bits: parse-then-serialise is the identity"),
    SubCheck("voice_random", oracle_voice, drv_voice_random, "Hypothesis-drawn voice bursts (both centre kinds): same oracle"),
]
PREDICATES = {}
