"""C01 — a burst the library assembles parses back identically and re-assembles; voice bursts survive parse/serialise.

Generated-input search (Hypothesis + seeded enumeration of the (PDU variant x colour code x sync) grid) against
(RT) round trip through Burst.from_bytes / as_bytes with field-by-field comparison of the payload PDU and
(R) an independent layout reference: 98+10+48+10+98 split, sync constants of TS 102 361-1 table 9.2, slot type = reference
Golay(20,8,7) codeword of (colour code, data type), payload = reference BPTC(196,96) codeword / reference rate-3/4 trellis / 96+4+96 rate-1 layout.
Field generators and the field dump live in vp/pdugen_c01.py.  See DESIGN.md §4 C01.
"""
from __future__ import annotations

from bitarray import bitarray, frozenbitarray

from vp import pdugen_c01 as G
from vp.core import Ctx, Fail, SubCheck, Tally, call, digest
from vp.refs import bptc_ref, gf2, trellis34_ref

LEVEL = "exploration"
RULE = (
    "data bursts: a case is (PDU kind, variant, field values, colour code 0..15, one of the four data sync patterns).  "
    "Variants: CSBK x 9 implemented opcodes, data header x 5 implemented formats, full LC x 7 implemented FLCOs x {voice LC "
    "header, terminator with LC} x {library RS(12,9) parity under the data-type mask, 24 free check bits}, PI header, rate "
    "1/2, 3/4, 1 x {unconfirmed, confirmed, unconfirmed last, confirmed last}.  Field values: every field of the variant "
    "drawn over the full width the serialiser writes (enum fields over the defined members), check fields left to the "
    "library.  data_grid enumerates the full cross product variant x colour code x sync by construction (quick: one, thorough: four "
    "seeded random field settings per cell); data_boundary is a deterministic pass that puts every field of every variant at "
    "each extreme value one at a time (integers 0, 1, max-1, max, top bit only; every enum member; payload bytes/bits "
    "all-zero, all-ones, single octet/bit, alternating; byte-string fields also constant-filled with every octet value - every "
    "third one in quick) over two seeded backgrounds, plus all-min / all-max settings and the "
    "constructor-settable check fields (CSBK/header/PI CRC, CRC-9, 24-bit full-LC field) at 0 / all-ones / library-computed; "
    "data_random draws everything with Hypothesis.  voice bursts: 216 vocoder bits around each of the four voice sync "
    "patterns, or around the reference QR(16,7,6) codeword of every (colour code, PI, LCSS) (all 128 enumerated) with 32 "
    "embedded bits; payloads random / all-zero / all-one; voice_near_sync: for every SYNC word S of table 9.2 (10) and every EMB codeword "
    "E (128) the centre E[0:8]+S[8:40]+E[8:16] - the closest a valid-EMB centre gets to S - and neighbours with 1-2 "
    "embedded bits flipped (the minimum distance reached is recorded in the evidence); voice_sync_images: centres that are, "
    "or are built around the middle 32 bits of, a transformed image of a SYNC word (48-bit bit reversal, byte / word "
    "reversals, in-octet bit and nibble swaps, dibit swap, rotations, complement and complements of all of these; the "
    "images that are themselves valid EMB centres are listed in the evidence).  reuse: a case is two such data-burst states (second state: any non-empty subset of {payload, colour code, sync} changed; "
    "a changed payload is new field values, another variant of the same PDU class or another class / data type) carried "
    "one after the other by the same Burst object.  batch: 2-4 seeded data / voice bursts (40 % all of one variant, else "
    "mixed classes) that are all built and parsed before any is serialised, with 0-2 arbitrary 'noise' bursts parsed in "
    "between, then serialised in a shuffled order and its reverse; in half of the one-variant batches items 2..n are near twins of item 1 "
    "(one field, only the colour code, only the sync changed, or nothing).  same_payload: a case is one data burst, optional hinted PDUs and a "
    "walk; the oracle collects the bursts of OTHER data types that have, by the references, the same 196 on-air payload bits (every 96-bit "
    "BPTC payload is an unconfirmed rate 1/2 block; bits 96..99 zero - by chance, or constructed for unconfirmed rate 1/2 and 3/4 blocks - "
    "make it an unconfirmed rate 1 block; a rate 1 block laid over a BPTC / trellis codeword) and walks: judged steps (one of these bursts, "
    "same or another colour code / sync, every clause of data_grid) and stimulus steps (the payload under any of the 16 data types, around "
    "any SYNC / an EMB, as any burst type, through from_bytes / from_bits / the constructor / from_mmdvm / from_hytera_ipsc, optionally with "
    "bit errors) in five orders (stimulus first, judged first, alternating, all 16 types then judged, judged - all 16 types - judged).  "
    "voice_walk: 2-4 voice bursts that share vocoder bits or centre (near twins) judged in both orders with such stimulus steps in between.  "
    "The framework's preludes (every 8th case of every sub-check is judged again after them) run the same stimulus on the case's own 264 bits "
    "plus the FEC / slot type / SYNC / EMB / PDU entry points on its parts and their refused variants (prelude_for).  Distinct by hash of the complete case.  Non-trivial: data bursts "
    "whose PDU bits are not all zero; voice bursts whose 216 vocoder bits are neither all zero nor all one; reuse cases whose two states serialise to different bytes."
)
ASSUMPTIONS = [
    "burst assembly idiom = the one of TransmissionGenerator (the only assembly API the library has): "
    "Burst(burst_type=DataAndControl); has_emb=False; sync_or_embedded_signalling, slot_type=SlotType(cc, data type), data "
    "set; as_bytes()",
    "sync constants are written out in this module from ETSI TS 102 361-1 table 9.2 and compared with the library's enum; "
    "offline cross-checks: BsSourcedData, MsSourcedData and MsSourcedVoice occur at bits 108..155 of on-air captures in "
    "okdmr/tests/dmrlib/etsi/layer2/test_burst.py, pdu/test_csbk.py and transmission/test_transmission.py, BsSourcedVoice "
    "is the literal of elements/test_sync_patterns.py; all eight consist of the symbols 01/11 only (+3/-3 deviation) and "
    "every data pattern is the symbol-wise inverse (xor 0xAAAAAAAAAAAA) of the voice pattern of the same source, as the "
    "standard constructs them; the two TDMA direct-mode pairs have no second witness in the repository beyond that "
    "structural relation",
    "layout reference: slot type = Golay(20,8,7) reference codeword (vp/refs/gf2.py) split 10+10 around the 48 sync bits; "
    "BPTC payload = vp/refs/bptc_ref.bptc196_encode of the PDU's 96 bits; rate 1 = 96 bits + 4 zero bits + 96 bits (table "
    "B.10B as cited by the library); rate 3/4 = vp/refs/trellis34_ref.encode (FSM + constellation + interleaver written "
    "from the structure of B.2.4, validated against the three captured blocks of fec/test_trellis.py)",
    "no field setting is excluded: the three PDU-level asymmetries of DESIGN.md §5 rows 3-5 (C03) were routed around until "
    "they were repaired in /repo (a566ed4, 2d4d28d, 70fa250); on older trees they show up here as "
    "parsed_payload_fields_equal / reassembled_bytes_identical failures of NACK_Rsp, C_ALOHA and response headers",
    "'payload field values' = (a) every field the generator generated for the variant, compared with the GENERATED value, "
    "the library-computed check fields compared with the assembled object, (b) public non-callable attributes present on "
    "both the assembled and the parsed PDU and not None on the assembled one; attributes that are None / absent on the "
    "assembled object (diagnostics such as source_bits), private names and *_ok verdicts are not payload fields; an "
    "attribute absent on one side is a note (class 'note:...' in the evidence), never a violation.  Enums are addressed by "
    "member name (sorted by name for drawing), SYNC words are read through the public as_bits()",
    "rate blocks: a burst alone cannot know confirmed/last, the parsed block is .convert()-ed to the generated block type "
    "before fields are compared (the library's own idiom in Transmission)",
    "reuse, in-place variant: copying the attribute dict of a fresh PDU / SlotType into the old object of the same class "
    "(obj.__dict__.clear(); obj.__dict__.update(fresh.__dict__)) is indistinguishable from a fresh object for the library's "
    "plain Python classes (skipped for __slots__ classes and self-referencing objects); no attribute of a PDU is poked "
    "individually, so derived fields (CRC, parity) are always the ones the library computed for the new state",
    "representation variants (container of the same 264 bits): Burst.from_bits is additionally fed a big-endian "
    "frozenbitarray (data and voice); little-endian bitarrays are NOT in the domain: the unchanged tree resolves the sync "
    "through tobytes() and the PDU fields through ba2int(), both of which read the container's endianness flag (a "
    "little-endian copy of a valid burst is mis-parsed or rejected on /repo), and no caller in the library builds one",
    "a Burst is a snapshot taken at parse time: batch parses out of reused caller-owned buffers (bitarray through from_bits, "
    "bytearray through from_bytes) and overwrites them afterwards; every later serialisation must give the burst's own bits. "
    "Holds on /repo because every attribute the serialisers read is a slice copy; Burst.full_bits itself IS the caller's "
    "object (stored by reference) and is therefore never read by this check",
    "same_payload / voice_walk: stimulus steps are not judged - a payload under a data type of another FEC class is in general not a "
    "burst the library serialises; only bursts that ARE (by the independent references: same payload bits, valid PDU length, the library "
    "re-assembles them from generated fields) are judged, each with the unchanged clauses of data_grid / oracle_voice",
    "GPS coordinates are multiples of the wire resolution; other floats cannot survive a 25/24-bit field and are not "
    "'in-range field values'",
]

# ETSI TS 102 361-1 table 9.2 (48-bit SYNC patterns)
DATA_SYNCS = {
    "BsSourcedData": 0xDFF57D75DF5D,
    "MsSourcedData": 0xD5D7F77FD757,
    "Tdma1Data": 0xF7FDD5DDFD55,
    "Tdma2Data": 0xD7557F5FF7F5,
}
VOICE_SYNCS = {
    "BsSourcedVoice": 0x755FD7DF75F7,
    "MsSourcedVoice": 0x7F7D5DD57DFD,
    "Tdma1Voice": 0x5D577F7757FF,
    "Tdma2Voice": 0x7DFFD5F55D5F,
}
for _d, _v in zip(DATA_SYNCS.values(), VOICE_SYNCS.values()):
    assert _d ^ _v == 0xAAAAAAAAAAAA and set("%012X" % _d) <= set("57DF") and set("%012X" % _v) <= set("57DF")
assert trellis34_ref.selfcheck(), "trellis reference does not reproduce the captured rate 3/4 blocks"
SYNC_NAMES = list(DATA_SYNCS)
# data type values (TS 102 361-1 9.3.6) of the serialisable payload kinds
DT_VALUES = {"PIHeader": 0, "VoiceLCHeader": 1, "TerminatorWithLC": 2, "CSBK": 3, "DataHeader": 6, "Rate12Data": 7, "Rate34Data": 8, "Rate1Data": 10}
# every 48-bit pattern of table 9.2 (incl. reverse-channel and reserved SYNC): a burst centre equal to one of them is SYNC
_ALL_SYNC_VALUES = set(DATA_SYNCS.values()) | set(VOICE_SYNCS.values()) | {0x77D55F7DFD77, 0xDD7FF5D757DD}
VOICE_SYNC_NAMES = list(VOICE_SYNCS)

_SIDE: dict = {}  # tallying side channel oracle -> record (never influences a verdict)


def _ba(x) -> bitarray:
    return bitarray([int(v) for v in x], endian="big")


def _from_bytes(b: bytes) -> bitarray:
    out = bitarray(endian="big")
    out.frombytes(b)
    return out


def _diffpos(a, b):
    return {"differing_positions": [i for i in range(min(len(a), len(b))) if a[i] != b[i]], "len": [len(a), len(b)]}


def _preimport():
    """Hypothesis (6.13x and later) mixes constants harvested from the source of every *local* module present in
    sys.modules into its draws.  The library modules an oracle imports lazily would therefore make the generated cases
    depend on which forked worker happened to run which shard first.  Import everything the oracles touch in the parent,
    before any worker is forked, so that every worker sees the same module set."""
    import importlib
    import pkgutil

    import okdmr.dmrlib.etsi as etsi

    for m in pkgutil.walk_packages(etsi.__path__, "okdmr.dmrlib.etsi."):
        importlib.import_module(m.name)
    importlib.import_module("okdmr.dmrlib.etsi.layer2.burst")
    importlib.import_module("hypothesis.strategies")


# ---------------------------------------------------------------------------------------------- data bursts


def _sync_constant_clause(sp, table_value: int, name: str):
    """the library's 48 SYNC bits (public as_bits(), not the enum's internal value) are those of table 9.2"""
    st, sb = call(sp.as_bits)
    got = gf2.bits_to_int(_ba(sb).tolist())
    if len(sb) != 48 or got != table_value:
        raise Fail("sync_constant_equals_table_9_2", "%012X" % got, "%012X" % table_value, klass=name)


def _intval(x) -> int:
    """protocol value of an element that may be an enum member or a plain int / bool"""
    import enum as _enum

    return int(x.value) if isinstance(x, _enum.Enum) else int(x)


def _lib():
    from okdmr.dmrlib.etsi.layer2.burst import Burst
    from okdmr.dmrlib.etsi.layer2.elements.burst_types import BurstTypes
    from okdmr.dmrlib.etsi.layer2.elements.data_types import DataTypes
    from okdmr.dmrlib.etsi.layer2.elements.sync_patterns import SyncPatterns
    from okdmr.dmrlib.etsi.layer2.pdu.slot_type import SlotType

    return Burst, BurstTypes, DataTypes, SyncPatterns, SlotType


def _new_burst(pdu, cc, dt, sp):
    """the library's own assembly idiom (TransmissionGenerator)"""
    Burst, BurstTypes, DataTypes, SyncPatterns, SlotType = _lib()
    b = Burst(burst_type=BurstTypes.DataAndControl)
    b.has_emb = False
    b.sync_or_embedded_signalling = sp
    b.slot_type = SlotType(colour_code=cc, data_type=dt)
    b.data = pdu
    return b


def _as_33_bytes(b) -> bytes:
    st, raw = call(b.as_bytes)
    if not isinstance(raw, (bytes, bytearray)) or len(raw) != 33:
        raise Fail("serialised_burst_is_33_bytes", len(raw) if hasattr(raw, "__len__") else repr(raw), 33)
    return bytes(raw)


def _repeat_after_scribble(fn, what: str):
    """scribble-and-repeat: call fn() (no arguments, returns a bitarray), invert every bit of the RETURNED buffer in
    place, call again: the second result must equal the first (a cache that hands out its own buffer fails here)."""
    st, r1 = call(fn)
    saved = _ba(r1)
    if isinstance(r1, bitarray):
        try:
            r1.invert()
        except TypeError:
            pass  # an immutable (frozen) buffer cannot be scribbled on - nothing to check
    st, r2 = call(fn)
    if _ba(r2) != saved:
        raise Fail("repeated_call_equal_after_scribbling_on_returned_buffer", _diffpos(_ba(r2), saved), "no difference", klass=what)
    return saved


def _check_serialised(kind, variant, f, cc, sync, pdu, raw: bytes, containers: bool = True):
    """every clause of the statement's first sentence for one serialisation `raw` of (pdu, cc, sync): independent layout
    reference, parse back (data type, colour code, sync, payload fields), re-assembly."""
    Burst, BurstTypes, DataTypes, SyncPatterns, SlotType = _lib()
    dt = DataTypes[G.DATA_TYPE_OF_KIND[kind]]
    sp = SyncPatterns[sync]
    st, pb = call(pdu.as_bits)
    pdu_bits = _ba(pb)
    bits = _from_bytes(raw)

    # (R) layout
    exp_sync = _ba(gf2.int_to_bits(DATA_SYNCS[sync], 48))
    if bits[108:156] != exp_sync:
        raise Fail("layout_sync_at_108_155", bits[108:156].to01(), exp_sync.to01())
    exp_slot = _ba(gf2.ref_encode("golay_20_8_7", gf2.int_to_bits(cc, 4) + gf2.int_to_bits(DT_VALUES[G.DATA_TYPE_OF_KIND[kind]], 4)))
    got_slot = bits[98:108] + bits[156:166]
    if got_slot != exp_slot:
        raise Fail("layout_slot_type_golay_codeword_split_10_10", got_slot.to01(), exp_slot.to01())
    payload = bits[:98] + bits[166:]
    if kind == "rate34":
        if len(pdu_bits) != 144:
            raise Fail("pdu_bit_length", len(pdu_bits), 144)
        exp_payload = _ba(trellis34_ref.encode(pdu_bits.tolist()))
        pclause = "layout_payload_trellis_reference"
    elif kind == "rate1":
        if len(pdu_bits) != 192:
            raise Fail("pdu_bit_length", len(pdu_bits), 192)
        exp_payload = pdu_bits[:96] + bitarray("0000") + pdu_bits[96:]
        pclause = "layout_payload_rate1_96_gap4_96"
    else:
        if len(pdu_bits) != 96:
            raise Fail("pdu_bit_length", len(pdu_bits), 96)
        exp_payload = _ba(bptc_ref.bptc196_encode(pdu_bits.tolist()))
        pclause = "layout_payload_bptc_reference_codeword"
    if payload != exp_payload:
        raise Fail(pclause, _diffpos(payload, exp_payload), "no difference", klass=kind)

    # (RT) parse
    st, p = call(Burst.from_bytes, raw)
    if p.data_type != dt:
        raise Fail("parsed_data_type", str(p.data_type), str(dt))
    st, pcc = call(lambda: p.colour_code)
    if pcc != cc:
        raise Fail("parsed_colour_code", pcc, cc)
    if p.sync_or_embedded_signalling != sp:
        raise Fail("parsed_sync_pattern", str(p.sync_or_embedded_signalling), str(sp))
    if not isinstance(p.data, G.expected_class(kind)):
        raise Fail("parsed_payload_class", type(p.data).__name__, G.expected_class_name(kind))
    parsed_pdu = p.data
    if kind in ("rate12", "rate34", "rate1"):
        st, parsed_pdu = call(p.data.convert, G.rate_type(kind, variant))
    # payload field values: generated fields + library-computed check fields + attributes common to both objects (the
    # assembled object is read after serialising: a check field filled in while serialising belongs to what was sent)
    d, notes = G.compare_payload_fields(kind, variant, f, pdu, parsed_pdu)
    if notes:
        _SIDE.setdefault("notes", set()).update(notes)
    if d:
        raise Fail("parsed_payload_fields_equal", d[:6], "parsed == assembled (field by field)", klass=f"{kind}:{variant}")

    # (RT) re-assemble
    st, raw2 = call(p.as_bytes)
    if bytes(raw2) != raw:
        raise Fail("reassembled_bytes_identical", _diffpos(_from_bytes(bytes(raw2)), bits), "no difference", klass=kind)

    # representation variant of the same 264 bits: Burst.from_bits on an immutable big-endian frozenbitarray (the container
    # variant the unchanged tree parses correctly; little-endian containers are outside the domain, see ASSUMPTIONS)
    if containers:
        st, pf = call(Burst.from_bits, frozenbitarray(bits), BurstTypes.DataAndControl)
        st, rawf = call(pf.as_bytes)
        if bytes(rawf) != raw:
            raise Fail("container_parse_reassembles_identically", _diffpos(_from_bytes(bytes(rawf)), bits), "no difference", klass="frozen_big:" + kind)
        fp = pf.data
        if kind in ("rate12", "rate34", "rate1") and fp is not None:
            st, fp = call(fp.convert, G.rate_type(kind, variant))
        if not isinstance(fp, G.expected_class(kind)):
            raise Fail("parsed_payload_class", type(fp).__name__, G.expected_class_name(kind), klass="frozen_big")
        d2, _notes = G.compare_payload_fields(kind, variant, f, pdu, fp)
        if d2:
            raise Fail("parsed_payload_fields_equal", d2[:6], "parsed == assembled (field by field)", klass=f"frozen_big:{kind}:{variant}")
    return p


def oracle_data(case):
    """case = {kind, variant, f: {field: value}, cc, sync}"""
    Burst, BurstTypes, DataTypes, SyncPatterns, SlotType = _lib()
    kind, variant, f, cc, sync = case["kind"], case["variant"], case["f"], case["cc"], case["sync"]
    dt = DataTypes[G.DATA_TYPE_OF_KIND[kind]]
    sp = SyncPatterns[sync]
    _sync_constant_clause(sp, DATA_SYNCS[sync], sync)

    st, pdu = call(G.build, kind, variant, f)
    st, pb = call(pdu.as_bits)
    _SIDE["nonzero"] = _ba(pb).any()
    st, b = call(_new_burst, pdu, cc, dt, sp)
    raw = _as_33_bytes(b)
    p = _check_serialised(kind, variant, f, cc, sync, pdu, raw)

    # a buffer that was handed out is not rewritten by later serialisations (shared scratch buffers)
    st, kept = call(b.as_bits)
    kept_copy = _ba(kept)
    # scribble-and-repeat on every buffer the serialisers hand out
    _repeat_after_scribble(pdu.as_bits, "pdu.as_bits")
    _repeat_after_scribble(b.as_bits, "assembled_burst.as_bits")
    _repeat_after_scribble(p.as_bits, "parsed_burst.as_bits")
    if _as_33_bytes(b) != raw or _as_33_bytes(p) != raw:
        raise Fail("repeated_call_equal_after_scribbling_on_returned_buffer", "as_bytes differs", raw.hex(), klass="as_bytes")
    if _ba(kept) != kept_copy or kept_copy != _from_bytes(raw):
        raise Fail("earlier_result_unchanged_by_later_call", _diffpos(_ba(kept), kept_copy), "no difference", klass="burst.as_bits")


# ---------------------------------------------------------------------------------------------- reuse of objects

_RATE_KINDS = ("rate12", "rate34", "rate1")


def _inplace_ok(old, fresh) -> bool:
    """copying a fresh object's attribute dict into an old object of the same class is indistinguishable from a fresh
    object for plain Python objects: not for __slots__ classes, nor when the fresh object refers to itself"""
    if type(old) is not type(fresh) or not hasattr(old, "__dict__"):
        return False
    if any("__slots__" in vars(k) for k in type(old).__mro__ if k is not object):
        return False
    return not any(v is fresh for v in vars(fresh).values())


def _become(old, fresh):
    old.__dict__.clear()
    old.__dict__.update(fresh.__dict__)


def _warm(b):
    """everything that serialises (and could populate a cache): as_bytes, as_bits, repr, debug.  repr of some PDUs raises
    on payloads it cannot print (talker alias text that is not ASCII): irrelevant here, swallowed."""
    raw = _as_33_bytes(b)
    call(b.as_bits)
    for fn in (lambda: repr(b), lambda: b.debug(printout=False)):
        try:
            fn()
        except Exception:
            pass
    return raw


def oracle_reuse(case):
    """case = {kind, variant, f, cc, sync,  kind2, variant2, f2, cc2, sync2}.  State 1 is assembled and serialised (as_bytes,
    as_bits, repr, debug), then THE SAME Burst object is made to carry state 2 - touching only what differs, the way the
    assembly idiom sets it - and serialised again; then it is taken back to state 1.  Each serialisation must equal the
    bytes of a freshly assembled burst of that state (which itself must satisfy every clause of data_grid).
      replace : b.data = fresh PDU 2;  b.slot_type = fresh SlotType;  b.sync_or_embedded_signalling = sync 2
      inplace : the old PDU / SlotType objects stay (b.data is p1) and receive the attribute dict of a fresh object
      parsed  : as replace, but the reused Burst came out of Burst.from_bytes(bytes of state 1)
    Mirror on the parse side: serialising one parsed burst does not influence parsing / serialising another."""
    Burst, BurstTypes, DataTypes, SyncPatterns, SlotType = _lib()
    s1 = (case["kind"], case["variant"], case["f"], case["cc"], case["sync"])
    s2 = (case["kind2"], case["variant2"], case["f2"], case["cc2"], case["sync2"])

    def parts(s):
        kind, variant, f, cc, sync = s
        return DataTypes[G.DATA_TYPE_OF_KIND[kind]], SyncPatterns[sync]

    def fresh(s):
        kind, variant, f, cc, sync = s
        dt, sp = parts(s)
        st, pdu = call(G.build, kind, variant, f)
        st, b = call(_new_burst, pdu, cc, dt, sp)
        return pdu, _as_33_bytes(b)

    pdu1, bytes1 = fresh(s1)
    pdu2, bytes2 = fresh(s2)
    _SIDE["nonzero"] = bytes1 != bytes2
    # the fresh serialisations are what data_grid judges; judge them here too so that "equal to fresh" means "right"
    _check_serialised(*s1, pdu1, bytes1, containers=False)
    _check_serialised(*s2, pdu2, bytes2, containers=False)
    if fresh(s1)[1] != bytes1:
        raise Fail("fresh_assembly_repeatable", "two fresh assemblies of the same case differ", "equal bytes")

    def retarget(b, src, dst, mode):
        """make burst b (currently in state src) carry state dst, touching only what differs"""
        (k_a, v_a, f_a, cc_a, sy_a), (k_b, v_b, f_b, cc_b, sy_b) = src, dst
        dt_a, sp_a = parts(src)
        dt_b, sp_b = parts(dst)
        changed = []
        if (k_a, v_a, f_a) != (k_b, v_b, f_b):
            st, new_pdu = call(G.build, k_b, v_b, f_b)
            if mode == "inplace" and _inplace_ok(b.data, new_pdu):
                old = b.data
                _become(old, new_pdu)
                assert b.data is old
                changed.append("payload_in_place")
            else:
                b.data = new_pdu
                changed.append("payload_replaced")
        if (cc_a, dt_a) != (cc_b, dt_b):
            st, new_slot = call(SlotType, colour_code=cc_b, data_type=dt_b)
            if mode == "inplace" and _inplace_ok(b.slot_type, new_slot):
                _become(b.slot_type, new_slot)
                changed.append("slot_type_in_place")
            else:
                b.slot_type = new_slot
                changed.append("slot_type_replaced")
        if sy_a != sy_b:
            b.sync_or_embedded_signalling = sp_b
            changed.append("sync")
        return "+".join(changed) or "nothing"

    for mode in ("replace", "inplace", "parsed"):
        if mode == "parsed":
            st, b = call(Burst.from_bytes, bytes1)
        else:
            dt1, sp1 = parts(s1)
            st, p1 = call(G.build, *s1[:3])
            st, b = call(_new_burst, p1, s1[3], dt1, sp1)
        first = _warm(b)
        if first != bytes1:
            raise Fail("reused_burst_serialises_current_state", {"step": "initial", **_diffpos(_from_bytes(first), _from_bytes(bytes1))}, "bytes of a freshly assembled burst", klass=mode)
        st, kept = call(b.as_bits)
        what = retarget(b, s1, s2, "replace" if mode == "parsed" else mode)
        second = _warm(b)
        if second != bytes2:
            raise Fail("reused_burst_serialises_current_state", {"step": "state 1 -> 2", "changed": what, **_diffpos(_from_bytes(second), _from_bytes(bytes2))}, "bytes of a freshly assembled burst", klass=mode)
        if _ba(kept) != _from_bytes(bytes1):  # checked while the burst carries the OTHER state
            raise Fail("earlier_result_unchanged_by_later_call", _diffpos(_ba(kept), _from_bytes(bytes1)), "no difference", klass=f"reuse:{mode}")
        what = retarget(b, s2, s1, "replace" if mode == "parsed" else mode)
        third = _as_33_bytes(b)
        if third != bytes1:
            raise Fail("reused_burst_serialises_current_state", {"step": "state 2 -> 1", "changed": what, **_diffpos(_from_bytes(third), _from_bytes(bytes1))}, "bytes of a freshly assembled burst", klass=mode)

    # parse side: bursts are independent of each other
    st, x = call(Burst.from_bytes, bytes1)
    _warm(x)
    st, y = call(Burst.from_bytes, bytes2)
    if _as_33_bytes(y) != bytes2:
        raise Fail("parsed_bursts_independent", "second parsed burst does not serialise to its own bytes", bytes2.hex(), klass="second")
    if _as_33_bytes(x) != bytes1:
        raise Fail("parsed_bursts_independent", "first parsed burst changed after a second one was parsed", bytes1.hex(), klass="first")


# ---------------------------------------------------------------------------------------------- the same on-air payload under every data type (round 7)
#
# The 196 on-air payload bits of a burst say nothing about their FEC class: the slot type's data type selects BPTC(196,96)
# (ten data types), the rate 3/4 trellis (8), the rate 1 layout (10) or no decoder at all (reserved 12..15, refused).  A
# result that is remembered per payload bits - not per (payload bits, data type) - is only wrong once the SAME bits came by
# under another data type.  same_payload keeps one payload P and walks it through data types, burst types, centres and
# entry points in one process, in both orders, and judges every burst of the walk that the library can serialise itself.

_KIND_FEC = {"rate34": "trellis", "rate1": "rate1"}  # every other kind: BPTC(196,96)
BURST_TYPE_NAMES = ["DataAndControl", "Vocoder", "Undefined"]
_MMDVM_HEAD = bytes.fromhex("444d5244192807220000090028072290864b516b")  # DMRD header of a captured frame (20 octets; octet 15 = flags)
_IPSC_TEMPLATES = [  # captured IPSC frames (voice frame C, terminator with LC, sync); octets 26..59 carry the 16-bit-swapped burst + pad
    "5a5a5a5a0300000041000501020000002222999911110000100038d424a26d410436c0dda2f46165307000904607a54d4715ff8e3685dd23255501e3000001000900000022072800",
    "5a5a5a5a8f00000043000501020000002222222255550000409c5e06ca0ac804e823d04aa04b9d1457ff5dd7dff52001600d7039003cc12d031c003cca0a01006f0000003c382300",
    "5a5a5a5a0000000042000501020000002222eeee555533334000bd0000008000150000000800fd00230038003b0038003b00b41200447eb7ffffef0844400000fd0800003b382300",
]


def _fec_class_of_nibble(v: int) -> str:
    return "trellis" if v == 8 else "rate1" if v == 10 else "reserved" if v >= 12 else "bptc"


def _ref_payload(kind, pdu_bits: bitarray):
    """196 reference on-air payload bits of a PDU of this kind, or None when the PDU does not have the length its class carries"""
    cls = _KIND_FEC.get(kind, "bptc")
    if len(pdu_bits) != {"trellis": 144, "rate1": 192, "bptc": 96}[cls]:
        return None
    if cls == "trellis":
        return _ba(trellis34_ref.encode(pdu_bits.tolist()))
    if cls == "rate1":
        return pdu_bits[:96] + bitarray("0000") + pdu_bits[96:]
    return _ba(bptc_ref.bptc196_encode(pdu_bits.tolist()))


def _centre_bits(name: str, w: int = 0) -> bitarray:
    """48 centre bits: a data / voice SYNC word of table 9.2 by name, or 'emb': a valid EMB word around 32 arbitrary bits"""
    if name in DATA_SYNCS:
        return _ba(gf2.int_to_bits(DATA_SYNCS[name], 48))
    if name in VOICE_SYNCS:
        return _ba(gf2.int_to_bits(VOICE_SYNCS[name], 48))
    emb = _ba(gf2.ref_encode("qr_16_7_6", gf2.int_to_bits(w % 128, 7)))
    return emb[:8] + _ba(gf2.int_to_bits((w * 2654435761) % (1 << 32), 32)) + emb[8:]


def _layout264(payload: bitarray, cc: int, nibble: int, centre: bitarray) -> bitarray:
    slot = _ba(gf2.ref_encode("golay_20_8_7", gf2.int_to_bits(cc, 4) + gf2.int_to_bits(nibble, 4)))
    out = payload[:98] + slot[:10] + centre + slot[10:] + payload[98:]
    assert len(out) == 264
    return out


def _swap16(b: bytes) -> bytes:
    return bytes(b[i ^ 1] for i in range(len(b)))


def _parse_ignoring_everything(bits264: bitarray, bt_name: str = "DataAndControl", via: str = "from_bytes", w: int = 0):
    """stimulus: one parse of 264 bits through one of the library's entry points, then whatever serialises / prints the result.
    Arbitrary bits under an arbitrary data type may be refused in any way; only the after-effects matter."""
    import contextlib
    import io

    Burst, BurstTypes, DataTypes, SyncPatterns, SlotType = _lib()
    raw = bits264.tobytes()
    try:
        with contextlib.redirect_stdout(io.StringIO()):
            bt = BurstTypes[bt_name]
            if via == "from_bits":
                x = Burst.from_bits(bits264.copy(), bt)
            elif via == "constructor":
                x = Burst(full_bits=bits264.copy(), burst_type=bt)
            elif via == "mmdvm":
                from okdmr.kaitai.homebrew.mmdvm2020 import Mmdvm2020

                flags = ((w & 3) << 6) | ((2 if bt_name == "DataAndControl" else (w >> 2) & 1) << 4) | ((w >> 3) & 15)
                pkt = _MMDVM_HEAD[:15] + bytes([flags]) + _MMDVM_HEAD[16:] + raw + b"\x00\x00"
                x = Burst.from_mmdvm(Mmdvm2020.from_bytes(pkt).command_data)
            elif via == "ipsc":
                t = bytes.fromhex(_IPSC_TEMPLATES[{"Vocoder": 0, "DataAndControl": 1, "Undefined": 2}[bt_name]])
                x = Burst.from_hytera_ipsc(t[:26] + _swap16(raw + b"\x00") + t[60:])
            else:
                x = Burst.from_bytes(raw, bt)
            for fn in (x.as_bytes, x.as_bits, lambda: repr(x), lambda: x.debug(printout=False), lambda: x.data_type, lambda: x.colour_code, lambda: x.target_radio_id, x.interleave):
                try:
                    fn()
                except Exception:
                    pass
            return x
    except Exception:
        return None


def _twins_of(kind, variant, pdu_bits: bitarray, payload: bitarray):
    """(kind, variant, fields) of bursts of ANOTHER data type that the library serialises itself and whose 196 on-air payload
    bits are, by the references, the same: any 96-bit BPTC payload is also an unconfirmed rate 1/2 block; a payload whose bits
    96..99 are zero is also an unconfirmed rate 1 block; a rate 1 payload that is a BPTC codeword is also a rate 1/2 block."""
    cls = _KIND_FEC.get(kind, "bptc")
    out = []
    if cls == "bptc" and kind != "rate12":
        out.append(("rate12", "Unconfirmed", {"data": pdu_bits.tobytes().hex()}))
    if cls != "rate1" and not payload[96:100].any():
        out.append(("rate1", "Unconfirmed", {"data": (payload[:96] + payload[100:]).tobytes().hex()}))
    if cls == "rate1":
        pl = payload.tolist()
        info = [pl[p] for p in bptc_ref.bptc196_info_positions()]
        if bptc_ref.bptc196_encode(info) == pl:
            out.append(("rate12", "Unconfirmed", {"data": _ba(info).tobytes().hex()}))
    return out


def oracle_same_payload(case):
    """case = {a: data case, hints: [{kind, variant, f}], seq: [step, ...]}.
    Items: a, the twins derived from a's PDU bits (see _twins_of) and those hinted PDUs whose reference payload equals a's
    (hints are built by the driver from the references: a rate 1 block laid over a BPTC / trellis codeword whose bits 96..99
    are zero, and the reverse).  All items have the same 196 on-air payload bits and different data types.
    Steps:  {j, cc, sync}  the j-th item (modulo their number) is assembled with that colour code and sync and judged with
                           every clause of data_grid (layout reference, parse, data type, colour code, fields, re-assembly);
            {n: {dt, cc, centre, bt, via, flip, w}}  stimulus: the payload (optionally with bit errors) under data type nibble dt
                           (all 16, reserved ones included) around a data / voice SYNC or an EMB, parsed as burst type bt through
                           from_bytes / from_bits / the constructor / from_mmdvm / from_hytera_ipsc, serialised, printed; ignored.
    Every burst of the judged steps stays alive; at the end each is serialised again and its parsed fields compared again."""
    Burst, BurstTypes, DataTypes, SyncPatterns, SlotType = _lib()
    a = case["a"]
    st, pdu_a = call(G.build, a["kind"], a["variant"], a["f"])
    st, pb = call(pdu_a.as_bits)
    pdu_bits = _ba(pb)
    payload = _ref_payload(a["kind"], pdu_bits)
    if payload is None:
        raise Fail("pdu_bit_length", len(pdu_bits), "96 / 144 / 192 according to the kind", klass=a["kind"])
    items = [(a["kind"], a["variant"], a["f"])]
    for h in [{"kind": k, "variant": v, "f": f} for k, v, f in _twins_of(a["kind"], a["variant"], pdu_bits, payload)] + list(case.get("hints", [])):
        st, hp = call(G.build, h["kind"], h["variant"], h["f"])
        st, hb = call(hp.as_bits)
        if _ref_payload(h["kind"], _ba(hb)) == payload and G.DATA_TYPE_OF_KIND[h["kind"]] not in {G.DATA_TYPE_OF_KIND[k] for k, _v, _f in items}:
            items.append((h["kind"], h["variant"], h["f"]))
    _SIDE["nonzero"] = pdu_bits.any()
    _SIDE["items"] = sorted(G.DATA_TYPE_OF_KIND[k] for k, _v, _f in items)

    kept = []
    for step in case["seq"]:
        if "n" in step:
            n = step["n"]
            bits = payload.copy()
            for p in n.get("flip", []):
                bits.invert(p % 196)
            _parse_ignoring_everything(_layout264(bits, n["cc"], n["dt"], _centre_bits(n["centre"], n.get("w", 0))), n.get("bt", "DataAndControl"), n.get("via", "from_bytes"), n.get("w", 0))
            continue
        kind, variant, f = items[step["j"] % len(items)]
        cc, sync = step["cc"], step["sync"]
        st, pdu = call(G.build, kind, variant, f)
        st, b = call(_new_burst, pdu, cc, DataTypes[G.DATA_TYPE_OF_KIND[kind]], SyncPatterns[sync])
        raw = _as_33_bytes(b)
        try:
            p = _check_serialised(kind, variant, f, cc, sync, pdu, raw, containers=False)
        except Fail as e:
            e.klass = (e.klass + "|" if e.klass else "") + "same_payload:" + kind
            raise
        kept.append((kind, variant, f, pdu, raw, b, p))
    for i, (kind, variant, f, pdu, raw, b, p) in enumerate(kept):
        if _as_33_bytes(p) != raw:
            raise Fail("retained_burst_unchanged_by_later_parses", {"judged_step": i, "object": "parsed", **_diffpos(_from_bytes(_as_33_bytes(p)), _from_bytes(raw))}, "its own bytes", klass="parsed:" + kind)
        if _as_33_bytes(b) != raw:
            raise Fail("retained_burst_unchanged_by_later_parses", {"judged_step": i, "object": "assembled"}, "its own bytes", klass="assembled:" + kind)
        pp = p.data
        if kind in _RATE_KINDS and pp is not None:
            st, pp = call(pp.convert, G.rate_type(kind, variant))
        d, _n = G.compare_payload_fields(kind, variant, f, pdu, pp)
        if d:
            raise Fail("retained_burst_unchanged_by_later_parses", d[:6], "the fields it was parsed with", klass="fields:" + kind)


def _zero_gap_codeword(rng, cls: str):
    """(data bits, 196 on-air bits) of a random BPTC(196,96) / trellis codeword whose on-air bits 96..99 are zero (references only)"""
    k = 96 if cls == "bptc" else 144
    while True:
        data = [rng.getrandbits(1) for _ in range(k)]
        if cls == "trellis":  # the gap is constellation point 45 = +1/+1: state 2..5 and the one tribit that leads there
            s = rng.choice([2, 3, 4, 5])
            t = [t for t in range(8) if trellis34_ref.transition(s, t) == 11][0]
            data[132:138] = gf2.int_to_bits(s, 3) + gf2.int_to_bits(t, 3)
        cw = bptc_ref.bptc196_encode(data) if cls == "bptc" else trellis34_ref.encode(data)
        if not any(cw[96:100]):
            return data, cw


def _same_payload_case(rng, kind, variant, shape):
    """shape: 'plain' (seeded fields of the variant; a rate 1 twin exists when bits 96..99 happen to be zero), 'bptc_zero_gap' /
    'trellis_zero_gap' (an unconfirmed rate 1/2 or 3/4 block laid out so that bits 96..99 are zero: the rate 1 twin always
    exists), 'rate1_over_bptc' / 'rate1_over_trellis' (a = the rate 1 block, the coded block is the hint)."""
    hints = []
    if shape == "plain":
        a = {"kind": kind, "variant": variant, "f": G.rng_fields(rng, kind, variant)}
    else:
        cls = "bptc" if "bptc" in shape else "trellis"
        data, cw = _zero_gap_codeword(rng, cls)
        coded = {"kind": "rate12" if cls == "bptc" else "rate34", "variant": "Unconfirmed", "f": {"data": _ba(data).tobytes().hex()}}
        r1 = {"kind": "rate1", "variant": "Unconfirmed", "f": {"data": _ba(cw[:96] + cw[100:]).tobytes().hex()}}
        if shape.startswith("rate1_over"):
            a, hints = r1, [coded]
        else:
            a, hints = coded, [r1]
    a["cc"], a["sync"] = rng.randrange(16), rng.choice(SYNC_NAMES)

    def judged(j):
        same = rng.random() < 0.6  # the very same 264 bits but for the data type, or also another colour code / sync
        return {"j": j, "cc": a["cc"] if same else rng.randrange(16), "sync": a["sync"] if same else rng.choice(SYNC_NAMES)}

    def noise():
        r = rng.random()
        n = {"dt": rng.randrange(16), "cc": a["cc"] if rng.random() < 0.7 else rng.randrange(16), "centre": a["sync"], "w": rng.randrange(1 << 16)}
        if r < 0.25:
            n["centre"] = rng.choice(SYNC_NAMES + VOICE_SYNC_NAMES + ["emb"])
        if rng.random() < 0.3:
            n["bt"] = rng.choice(BURST_TYPE_NAMES)
        if rng.random() < 0.4:
            n["via"] = rng.choice(["from_bits", "constructor", "mmdvm", "ipsc"])
        if rng.random() < 0.15:
            n["flip"] = [rng.randrange(196) for _ in range(rng.choice([1, 1, 2, 3]))]
        return {"n": n}

    pattern = rng.choice(["noise_first", "judged_first", "alternate", "all_types_then_judged", "judged_all_types_judged"])
    n_items = 3  # indices are taken modulo the number of items the oracle finds
    seq = []
    if pattern == "noise_first":
        seq = [noise() for _ in range(rng.randrange(2, 6))] + [judged(j) for j in rng.sample(range(n_items), n_items)]
    elif pattern == "judged_first":
        order = rng.sample(range(n_items), n_items)
        seq = [judged(j) for j in order] + [noise() for _ in range(rng.randrange(1, 4))] + [judged(j) for j in order[::-1]]
    elif pattern == "alternate":
        for j in rng.sample(range(n_items), n_items) * 2:
            seq += [judged(j)] + ([noise()] if rng.random() < 0.5 else [])
    else:
        every = [{"n": {"dt": dt, "cc": a["cc"], "centre": a["sync"], "w": rng.randrange(1 << 16)}} for dt in rng.sample(range(16), 16)]
        if pattern == "judged_all_types_judged":
            seq = [judged(0)] + every + [judged(j) for j in range(n_items)]
        else:
            seq = every + [judged(j) for j in rng.sample(range(n_items), n_items)]
    return {"a": a, "hints": hints, "seq": seq, "pattern": pattern}


def drv_same_payload(ctx: Ctx, sub: SubCheck):
    _preimport()
    reps = ctx.pick(6, 32)
    cells = [(kind, variant, "plain", r) for (kind, variant) in G.VARIANTS for r in range(reps)]
    cells += [("-", "-", shape, r) for shape in ("bptc_zero_gap", "trellis_zero_gap", "rate1_over_bptc", "rate1_over_trellis") for r in range(ctx.pick(60, 500))]

    def work(chunk, t: Tally):
        for kind, variant, shape, r in chunk:
            c = _same_payload_case(ctx.rng("same_payload", kind, variant, shape, r), kind, variant, shape)
            _SIDE.clear()
            ctx.run_case(sub.name, oracle_same_payload, c, t)
            t.case(sub.name, key=None, nontrivial=False, cls=f"{shape}:{c['pattern']}")
            t.cls(sub.name, "data_types_sharing_the_payload:" + "+".join(_SIDE.get("items", ["?"])))
            if _SIDE.get("nonzero", True):
                t.nt_hashes.add(digest([sub.name, c]))
            if r == 0:
                t.sample(sub.name, c)

    ctx.shards(work, [cells[i::64] for i in range(64)])


# ---------------------------------------------------------------------------------------------- sibling calls for preludes (round 7)


def _sib_same_bits(a):
    """a = {bits: hex33, w}: the same 264 bits under all 16 data types (slot type replaced by the reference codeword, the
    colour code kept), under every burst type, through every entry point; and the same payload around other centres"""
    bits = _from_bytes(bytes.fromhex(a["bits"]))
    w = int(a.get("w", 0))
    slot = bits[98:108] + bits[156:166]
    cc = gf2.bits_to_int(slot[:4].tolist())
    payload, centre = bits[:98] + bits[166:], bits[108:156]
    how = a.get("how", "types")
    if how == "types":  # one data type of each FEC class (BPTC, trellis, rate 1, refused) first, then four more
        for nib in [7, 8, 10, 12 + w % 4] + [(w // 4 + 5 * i) % 16 for i in range(4)]:
            _parse_ignoring_everything(_layout264(payload, cc, nib, centre))
    elif how == "burst_types":
        for i, bt in enumerate(BURST_TYPE_NAMES):
            _parse_ignoring_everything(bits, bt, ("from_bytes", "from_bits", "constructor")[(w + i) % 3], w)
    elif how == "entry_points":
        for i, bt in enumerate(BURST_TYPE_NAMES):
            _parse_ignoring_everything(bits, bt, ("mmdvm", "ipsc")[(w + i) % 2], w)
            _parse_ignoring_everything(bits, bt, ("mmdvm", "ipsc")[(w + i + 1) % 2], w >> 3)
    elif how == "centres":
        names = SYNC_NAMES + VOICE_SYNC_NAMES + ["emb"]
        for i in range(4):
            _parse_ignoring_everything(bits[:108] + _centre_bits(names[(w + 2 * i) % 9], w) + bits[156:], ("DataAndControl", "Vocoder")[(w >> 4) + i & 1])
    elif how == "bit_errors":
        for k in range(4):
            x = bits.copy()
            for j in range(1 + k % 3):
                x.invert((w * 31 + k * 67 + j * 101) % 264)
            _parse_ignoring_everything(x, BURST_TYPE_NAMES[k % 2])
    elif how == "refused":
        Burst, BurstTypes, DataTypes, SyncPatterns, SlotType = _lib()
        for fn in (lambda: Burst.from_bytes(bits.tobytes()[:32]), lambda: Burst.from_bits(bits[:263], BurstTypes.DataAndControl), lambda: Burst.from_bytes(bits.tobytes() + b"\x00"),
                   lambda: Burst.from_bits(None, BurstTypes.Vocoder), lambda: Burst.from_bytes(bits.to01()), lambda: Burst(full_bits=bits.copy(), burst_type=None),
                   lambda: Burst.deinterleave(payload, DataTypes.Reserved), lambda: Burst.deinterleave(payload[:195], DataTypes.CSBK), lambda: Burst.deinterleave(payload, None)):
            try:
                fn()
            except Exception:
                pass


def _sib_fec(a):
    """a = {bits: hex33, w}: the FEC entry points the burst layer calls, applied directly to the burst's 196 payload bits (as
    they are, with bit errors, in refused lengths) and to its slot type / centre"""
    from okdmr.dmrlib.etsi.fec.bptc_196_96 import BPTC19696
    from okdmr.dmrlib.etsi.fec.trellis import Trellis34
    from okdmr.dmrlib.etsi.layer2.pdu.embedded_signalling import EmbeddedSignalling

    Burst, BurstTypes, DataTypes, SyncPatterns, SlotType = _lib()
    bits = _from_bytes(bytes.fromhex(a["bits"]))
    w = int(a.get("w", 0))
    payload, centre, slot = bits[:98] + bits[166:], bits[108:156], bits[98:108] + bits[156:166]
    noisy = payload.copy()
    for j in range(1 + w % 3):
        noisy.invert((w * 29 + j * 53) % 196)
    how = a.get("how", "bptc")
    calls = []
    if how == "bptc":
        calls = [lambda: BPTC19696.deinterleave_data_bits(payload.copy()), lambda: BPTC19696.deinterleave_data_bits(payload.copy(), False), lambda: BPTC19696.deinterleave_all_bits(payload.copy()),
                 lambda: BPTC19696.repair_if_necessary(noisy.copy()), lambda: BPTC19696.deinterleave_data_bits(noisy.copy()), lambda: BPTC19696.encode(payload[:96]),
                 lambda: BPTC19696.encode(BPTC19696.deinterleave_data_bits(payload.copy())), lambda: BPTC19696.deinterleave_data_bits(payload[:195]), lambda: BPTC19696.encode(payload[:95]),
                 lambda: BPTC19696.repair_if_necessary(payload[:100]), lambda: BPTC19696.deinterleave_all_bits(None)]
    elif how == "trellis":
        calls = [lambda: Trellis34.decode(payload.copy()), lambda: Trellis34.decode(payload.copy(), as_bytes=True), lambda: Trellis34.encode(payload[:144]), lambda: Trellis34.encode(payload.tobytes()[:18]),
                 lambda: Trellis34.decode(Trellis34.encode(payload[:144])), lambda: Trellis34.decode(noisy.copy()), lambda: Trellis34.decode(payload[:195]), lambda: Trellis34.encode(payload[:143]),
                 lambda: Trellis34.encode(~payload[:144]), lambda: Trellis34.encode(None)]
    elif how == "deinterleave":
        order = sorted(DataTypes, key=lambda d: (d.value * 7 + w) % 16)
        calls = [(lambda d=d: Burst.deinterleave(payload.copy(), d)) for d in order]
    elif how == "slot":
        s2 = slot.copy()
        for j in range(w % 5):
            s2.invert((w * 7 + j * 11) % 20)
        calls = [lambda: SlotType.from_bits(slot.copy()), lambda: repr(SlotType.from_bits(s2)), lambda: SlotType.from_bits(s2).as_bits(), lambda: SlotType(colour_code=w % 16, data_type=(w >> 4) % 16),
                 lambda: SlotType(colour_code=w % 16, data_type=DataTypes((w >> 4) % 13)).as_bits(), lambda: SlotType(colour_code=16, data_type=3), lambda: SlotType(colour_code=1, data_type=16),
                 lambda: SlotType(colour_code=1, data_type=3, parity=4096), lambda: SlotType(colour_code=w % 16, data_type=3, parity=1 + w % 4095).as_bits(), lambda: SlotType.from_bits(slot[:19]), lambda: DataTypes(17)]
    elif how == "centre":
        c2 = centre.copy()
        for j in range(w % 4):
            c2.invert((w * 5 + j * 17) % 48)
        emb = centre[:8] + centre[40:]
        e2 = emb.copy()
        for j in range(w % 4):
            e2.invert((w * 3 + j * 7) % 16)
        calls = [lambda: SyncPatterns.resolve_bytes(centre.tobytes()), lambda: SyncPatterns.resolve_bytes(c2.tobytes()), lambda: SyncPatterns.from_bits(c2.copy()), lambda: SyncPatterns.resolve_bytes(centre.tobytes()[:5]),
                 lambda: SyncPatterns.from_bits(centre[:47]), lambda: SyncPatterns(w), lambda: EmbeddedSignalling.from_bits(emb.copy()), lambda: repr(EmbeddedSignalling.from_bits(e2)),
                 lambda: EmbeddedSignalling.from_bits(e2).as_bits(), lambda: EmbeddedSignalling.from_bits(emb[:15]), lambda: EmbeddedSignalling(colour_code=16, preemption_and_power_control_indicator=0, link_control_start_stop=0)]
    for fn in calls:
        try:
            fn()
        except Exception:
            pass


def _sib_pdu(a):
    """a = {bits: hex33, w}: every payload PDU class parses the FEC-decoded bits of every FEC class of this payload (the PDU the
    data type did not select), serialises and prints them"""
    import importlib

    bits = _from_bytes(bytes.fromhex(a["bits"]))
    payload = bits[:98] + bits[166:]
    pl = payload.tolist()
    info96 = _ba([pl[p] for p in bptc_ref.bptc196_info_positions()])
    variants = [info96, payload[:96] + payload[100:], payload[:144]]
    for mod, cls in (("csbk", "CSBK"), ("data_header", "DataHeader"), ("pi_header", "PIHeader"), ("full_link_control", "FullLinkControl"), ("rate12_data", "Rate12Data"), ("rate34_data", "Rate34Data"), ("rate1_data", "Rate1Data")):
        K = getattr(importlib.import_module("okdmr.dmrlib.etsi.layer2.pdu." + mod), cls)
        for v in variants:
            try:
                x = K.from_bits(v.copy())
                x.as_bits()
                repr(x)
            except Exception:
                pass


_SIB_C01 = {"same_bits": (_sib_same_bits, ["types", "burst_types", "entry_points", "centres", "bit_errors", "refused"]), "fec": (_sib_fec, ["bptc", "trellis", "deinterleave", "slot", "centre"]), "pdu": (_sib_pdu, ["from_bits"])}


def _op_sibling(a):
    import contextlib
    import io

    fn, hows = _SIB_C01[a["fam"]]
    if a.get("how", hows[0]) in hows:
        with contextlib.redirect_stdout(io.StringIO()):
            fn(a)


PRELUDE_OPS = {"sibling": _op_sibling}


def _bits_of_any_case(sub, case):
    """264 bits (hex) that the case is about, computed with the references where possible: voice cases by construction, data cases
    from the PDU's own bits (library PDU codec, reference FEC / slot type / SYNC)"""
    c = case
    if "items" in case:  # batch, voice_walk
        c = case["items"][0]
    elif "a" in case:  # same_payload
        c = case["a"]
    if "center" in c:
        return _voice_bits_of(c).tobytes().hex()
    pdu = G.build(c["kind"], c["variant"], c["f"])
    payload = _ref_payload(c["kind"], _ba(pdu.as_bits()))
    if payload is None:
        return None
    return _layout264(payload, c["cc"], DT_VALUES[G.DATA_TYPE_OF_KIND[c["kind"]]], _centre_bits(c["sync"])).tobytes().hex()


def prelude_for(sub, case, rng):
    """sibling calls on the case's own 264 bits, run by the framework between two judgements of the case"""
    try:
        hx = _bits_of_any_case(sub, case)
    except Exception:
        hx = None
    if hx is None:
        return []
    kinds = [(fam, how) for fam, (_fn, hows) in _SIB_C01.items() for how in hows]
    picked = [("same_bits", "types")] + rng.sample(kinds, 2)
    rng.shuffle(picked)
    return [{"x": "sibling", "a": {"fam": fam, "how": how, "bits": hx, "w": rng.randrange(1 << 16)}} for fam, how in picked]


def _voice_bits_of(case):
    """264 bits of a voice case (same construction as oracle_voice)"""
    voice = _ba(gf2.int_to_bits(int(case["voice"], 16), 216))
    if case["center"] == "sync":
        center = _ba(gf2.int_to_bits(VOICE_SYNCS[case["sync"]], 48))
    else:
        emb = _ba(gf2.ref_encode("qr_16_7_6", gf2.int_to_bits(case["cc"], 4) + [case["pi"]] + gf2.int_to_bits(case["lcss"], 2)))
        center = emb[:8] + _ba(gf2.int_to_bits(int(case["emb_bits"], 16), 32)) + emb[8:]
    return voice[:108] + center + voice[108:]


def oracle_batch(case):
    """Interleaved two-phase batch.  case = {items: [data case | voice case, ...], order: permutation, noise: [hex33, ...]}.
    Solo: every item is assembled / parsed on its own (and judged with data_grid's clauses).  Batch, phase 1: ALL items are
    built (assembled bursts, not yet serialised) and ALL their byte strings are parsed into Burst objects; in between, the
    `noise` byte strings (arbitrary 33 octets: reserved data types, unlisted enum values, broken FEC) are parsed and, when
    that works, serialised and repr-ed - whatever they do is ignored.  The byte strings are parsed either fresh or
    (70 % of the batches) out of ONE caller-owned bitarray / bytearray that is overwritten in place before every parse (slice
    assignment, clear+extend, setall+|=, single-bit inverts) and again after the last parse (zeros / ones / another burst /
    inverted).  Phase 2: the objects are serialised in ANOTHER order,
    twice: every result must equal the solo result, every parsed payload must still carry its own generated fields."""
    Burst, BurstTypes, DataTypes, SyncPatterns, SlotType = _lib()
    items, order = case["items"], case["order"]
    solo = []
    for it in items:
        if "kind" in it:
            dt, sp = DataTypes[G.DATA_TYPE_OF_KIND[it["kind"]]], SyncPatterns[it["sync"]]
            st, pdu = call(G.build, it["kind"], it["variant"], it["f"])
            st, b = call(_new_burst, pdu, it["cc"], dt, sp)
            raw = _as_33_bytes(b)
            _check_serialised(it["kind"], it["variant"], it["f"], it["cc"], it["sync"], pdu, raw, containers=False)
            solo.append(raw)
        else:
            solo.append(_voice_bits_of(it).tobytes())
    _SIDE["nonzero"] = len(set(solo)) > 1

    def noise():
        for hx in case.get("noise", []):
            for bt in (BurstTypes.DataAndControl, BurstTypes.Vocoder):
                try:
                    x = Burst.from_bytes(bytes.fromhex(hx), bt)
                    x.as_bytes()
                    repr(x)
                except Exception:
                    pass  # arbitrary octets may be rejected in any way; only their after-effects matter

    # phase 1.  The parsed objects come from CALLER-OWNED buffers that are reused: one mutable bitarray (and one bytearray)
    # is overwritten in place with the next burst before every parse and once more after the last parse.  A Burst is a
    # snapshot taken at parse time: what the caller does to its own buffer afterwards must not show in any later result.
    modes = case.get("buffer_modes") or ["fresh"] * len(items)
    buf, bbuf = bitarray(264, endian="big"), bytearray(33)
    buf.setall(0)

    def overwrite(bits: bitarray, mode: str):
        if mode == "slice":
            buf[:] = bits
        elif mode == "clear_extend":
            buf.clear()
            buf.extend(bits)
        elif mode == "setall_or":
            buf.setall(0)
            buf.__ior__(bits)
        else:  # flip_bits: invert exactly the positions that differ
            for i in range(264):
                if buf[i] != bits[i]:
                    buf.invert(i)
        assert buf == bits and len(buf) == 264

    assembled, pdus, parsed, parsed_b = [], [], [], []
    for it, raw, mode in zip(items, solo, modes):
        bt = BurstTypes.DataAndControl if "kind" in it else BurstTypes.Vocoder
        if "kind" in it:
            dt, sp = DataTypes[G.DATA_TYPE_OF_KIND[it["kind"]]], SyncPatterns[it["sync"]]
            st, pdu = call(G.build, it["kind"], it["variant"], it["f"])
            st, b = call(_new_burst, pdu, it["cc"], dt, sp)
            pdus.append(pdu)
            assembled.append(b)
            noise()
        else:
            pdus.append(None)
            assembled.append(None)
        if mode == "fresh":
            parsed.append(call(Burst.from_bytes, raw, bt)[1])
            parsed_b.append(None)
        else:
            overwrite(_from_bytes(raw), mode)
            parsed.append(call(Burst.from_bits, buf, bt)[1])
            bbuf[:] = raw
            parsed_b.append(call(Burst.from_bytes, bbuf, bt)[1])
    after = case.get("buffer_after")
    if after == "zeros":
        buf.setall(0)
        bbuf[:] = bytes(33)
    elif after == "ones":
        buf.setall(1)
        bbuf[:] = b"\xff" * 33
    elif after == "other":
        overwrite(_from_bytes(solo[order[0]]), "slice")
        bbuf[:] = solo[order[0]]
    elif after == "invert":
        buf.invert()
        bbuf[:] = bytes(x ^ 0xFF for x in bbuf)
    noise()
    # phase 2: another order, then the reverse of it
    for rnd, seq in enumerate((order, order[::-1])):
        for j in seq:
            it, raw = items[j], solo[j]
            if assembled[j] is not None and _as_33_bytes(assembled[j]) != raw:
                raise Fail("batch_result_equals_solo_result", {"item": j, "object": "assembled", "round": rnd}, "solo bytes", klass="assembled")
            if _as_33_bytes(parsed[j]) != raw:
                raise Fail("batch_result_equals_solo_result", {"item": j, "object": "parsed", "round": rnd, "buffer": modes[j], "after": after}, "solo bytes",
                           klass="parsed:" + ("data" if "kind" in it else "voice") + (":reused_caller_buffer" if modes[j] != "fresh" else ""))
            if parsed_b[j] is not None and _as_33_bytes(parsed_b[j]) != raw:
                raise Fail("batch_result_equals_solo_result", {"item": j, "object": "parsed from bytearray", "round": rnd, "after": after}, "solo bytes",
                           klass="parsed:" + ("data" if "kind" in it else "voice") + ":reused_caller_bytearray")
            if "kind" in it:
                pp = parsed[j].data
                if it["kind"] in _RATE_KINDS and pp is not None:
                    st, pp = call(pp.convert, G.rate_type(it["kind"], it["variant"]))
                if not isinstance(pp, G.expected_class(it["kind"])):
                    raise Fail("batch_result_equals_solo_result", type(pp).__name__, G.expected_class_name(it["kind"]), klass="payload class")
                d, _n = G.compare_payload_fields(it["kind"], it["variant"], it["f"], pdus[j], pp)
                if d:
                    raise Fail("batch_result_equals_solo_result", d[:6], "the item's own generated fields", klass=f"fields:{it['kind']}")
            elif it["center"] == "emb" and gf2.bits_to_int(_voice_bits_of(it)[108:156].tolist()) not in _ALL_SYNC_VALUES:
                e = parsed[j].emb
                got = None if e is None else [_intval(e.colour_code), _intval(e.preemption_and_power_control_indicator), _intval(e.link_control_start_stop)]
                if got != [it["cc"], it["pi"], it["lcss"]]:
                    raise Fail("batch_result_equals_solo_result", got, [it["cc"], it["pi"], it["lcss"]], klass="emb fields")


def _batch_case(rng):
    n = rng.choice([2, 2, 3, 3, 4])
    same_variant = rng.random() < 0.4
    voice_only = (not same_variant) and rng.random() < 0.25  # a superframe's worth of voice bursts through one buffer
    base = rng.choice(G.VARIANTS)
    near_twins = same_variant and rng.random() < 0.5  # items 2..n equal item 1 but for ONE thing (one field, the colour code, the sync) or nothing
    items = []
    for _ in range(n):
        r = rng.random()
        if near_twins and items:
            tw = {"kind": items[0]["kind"], "variant": items[0]["variant"], "f": dict(items[0]["f"]), "cc": items[0]["cc"], "sync": items[0]["sync"]}
            what = rng.choice(["field", "field", "field", "cc", "sync", "nothing"])
            if what == "field":
                other = G.rng_fields(rng, *base)
                names = [k for k in other if k != "_excluded" and other[k] != tw["f"].get(k)]
                if names:
                    k = rng.choice(names)
                    tw["f"][k] = other[k]
            elif what == "cc":
                tw["cc"] = rng.choice([c for c in range(16) if c != tw["cc"]])
            elif what == "sync":
                tw["sync"] = rng.choice([x for x in SYNC_NAMES if x != tw["sync"]])
            items.append(tw)
            continue
        if (r < 0.25 and not same_variant) or voice_only:
            if rng.random() < 0.7:
                m = rng.randrange(128)
                items.append({"center": "emb", "cc": m >> 3, "pi": (m >> 2) & 1, "lcss": m & 3, "emb_bits": "%08x" % rng.getrandbits(32), "voice": _voice_payload(rng)})
            else:
                items.append({"center": "sync", "sync": rng.choice(VOICE_SYNC_NAMES), "voice": _voice_payload(rng)})
        else:
            kind, variant = base if same_variant else rng.choice(G.VARIANTS)
            items.append({"kind": kind, "variant": variant, "f": G.rng_fields(rng, kind, variant), "cc": rng.randrange(16), "sync": rng.choice(SYNC_NAMES)})
    order = list(range(n))
    while order == list(range(n)):
        rng.shuffle(order)
    noise = []
    for _ in range(rng.choice([0, 1, 1, 2])):
        r = rng.random()
        if r < 0.5:
            noise.append(bytes(rng.getrandbits(8) for _ in range(33)).hex())
        else:  # a real data burst layout with a reserved / unsupported data type nibble and arbitrary payload
            bits = [rng.getrandbits(1) for _ in range(264)]
            bits[108:156] = gf2.int_to_bits(rng.choice(list(DATA_SYNCS.values())), 48)
            slot = gf2.ref_encode("golay_20_8_7", gf2.int_to_bits(rng.randrange(16), 4) + gf2.int_to_bits(rng.choice([4, 5, 9, 11, 12, 13, 14, 15]), 4))
            bits[98:108], bits[156:166] = slot[:10], slot[10:]
            noise.append(_ba(bits).tobytes().hex())
    # caller-owned buffer: 70 % of the batches parse every item out of ONE reused mutable buffer, overwritten in place
    if rng.random() < 0.7:
        modes = [rng.choice(["slice", "clear_extend", "setall_or", "flip_bits"]) for _ in items]
        after = rng.choice([None, "zeros", "ones", "other", "invert"])
    else:
        modes, after = ["fresh"] * n, None
    return {"items": items, "order": order, "noise": noise, "buffer_modes": modes, "buffer_after": after}


def drv_batch(ctx: Ctx, sub: SubCheck):
    _preimport()
    n = ctx.pick(400, 6000)

    def work(chunk, t: Tally):
        for j in chunk:
            c = _batch_case(ctx.rng("batch", j))
            _SIDE.clear()
            ctx.run_case(sub.name, oracle_batch, c, t)
            kinds = sorted({G.expected_class_name(it["kind"]) if "kind" in it else "voice" for it in c["items"]})
            t.case(sub.name, key=None, nontrivial=False, cls="items=%d:noise=%d" % (len(c["items"]), len(c["noise"])))
            t.cls(sub.name, "one_class" if len(kinds) == 1 else "mixed_classes")
            if len(c["items"]) > 1 and all("kind" in it for it in c["items"]) and all(sum(1 for k in set(it["f"]) | set(c["items"][0]["f"]) if it["f"].get(k) != c["items"][0]["f"].get(k)) + (it["cc"] != c["items"][0]["cc"]) + (it["sync"] != c["items"][0]["sync"]) <= 1 and (it["kind"], it["variant"]) == (c["items"][0]["kind"], c["items"][0]["variant"]) for it in c["items"][1:]):
                t.cls(sub.name, "near_twins_of_first_item")
            t.cls(sub.name, "parse_source:" + ("fresh" if c["buffer_modes"][0] == "fresh" else "reused_caller_buffer:after=%s" % c["buffer_after"]))
            if sum(1 for it in c["items"] if "kind" not in it) >= 2:
                t.cls(sub.name, "two_or_more_voice_items")
            if _SIDE.get("nonzero", True):
                t.nt_hashes.add(digest([sub.name, c]))
            if j < 3:
                t.sample(sub.name, c)

    ctx.shards(work, [list(range(n))[i::64] for i in range(64)])


def _reuse_case(rng, kind, variant):
    """second state: which of payload / colour code / sync change is drawn uniformly from the 7 non-empty subsets; a changed
    payload is new field values of the same variant (50 %), another variant of the same PDU class (25 %) or a variant of
    another class, i.e. another data type (25 %)."""
    f = G.rng_fields(rng, kind, variant)
    cc, sync = rng.randrange(16), rng.choice(SYNC_NAMES)
    mask = rng.randrange(1, 8)
    kind2, variant2, f2, cc2, sync2 = kind, variant, f, cc, sync
    if mask & 1:
        r = rng.random()
        if r >= 0.5:
            same_cls = [kv for kv in G.VARIANTS if G.expected_class_name(kv[0]) == G.expected_class_name(kind) and kv != (kind, variant)]
            other_cls = [kv for kv in G.VARIANTS if G.expected_class_name(kv[0]) != G.expected_class_name(kind)]
            pool = same_cls if (r < 0.75 and same_cls) else other_cls
            kind2, variant2 = rng.choice(pool)
        f2 = G.rng_fields(rng, kind2, variant2)
    if mask & 2:
        cc2 = rng.choice([c for c in range(16) if c != cc])
    if mask & 4:
        sync2 = rng.choice([s for s in SYNC_NAMES if s != sync])
    return {"kind": kind, "variant": variant, "f": f, "cc": cc, "sync": sync, "kind2": kind2, "variant2": variant2, "f2": f2, "cc2": cc2, "sync2": sync2}


def _tally_reuse(sub, c, t: Tally):
    ch = []
    if (c["kind"], c["variant"]) != (c["kind2"], c["variant2"]):
        ch.append("other_class" if G.expected_class_name(c["kind"]) != G.expected_class_name(c["kind2"]) else "other_variant")
    elif c["f"] != c["f2"]:
        ch.append("fields")
    if c["cc"] != c["cc2"]:
        ch.append("cc")
    if c["sync"] != c["sync2"]:
        ch.append("sync")
    t.case(sub, key=None, nontrivial=False, cls="changes:" + ("+".join(ch) or "nothing"))
    t.cls(sub, "first:" + G.expected_class_name(c["kind"]))
    if _SIDE.get("nonzero", True):
        t.nt_hashes.add(digest([sub, c]))
    t.sample(sub, c)


def drv_reuse(ctx: Ctx, sub: SubCheck):
    _preimport()
    from hypothesis import strategies as st

    k = ctx.pick(25, 250)
    items = [(kind, variant, j) for (kind, variant) in G.VARIANTS for j in range(k)]

    def work(chunk, t: Tally):
        for kind, variant, j in chunk:
            c = _reuse_case(ctx.rng("reuse", kind, variant, j), kind, variant)
            _SIDE.clear()
            ctx.run_case(sub.name, oracle_reuse, c, t)
            _tally_reuse(sub.name, c, t)

    ctx.shards(work, [items[i::64] for i in range(64)])

    # Hypothesis: same variant, two independent field draws, colour code and sync drawn twice
    def strat(kind, variant):
        return st.fixed_dictionaries(
            {
                "kind": st.just(kind), "variant": st.just(variant), "f": G.st_fields(kind, variant), "cc": st.integers(0, 15), "sync": st.sampled_from(SYNC_NAMES),
                "kind2": st.just(kind), "variant2": st.just(variant), "f2": G.st_fields(kind, variant), "cc2": st.integers(0, 15), "sync2": st.sampled_from(SYNC_NAMES),
            }
        )

    def hyp(kv, t: Tally):
        kind, variant = kv
        ctx.hypothesis(sub.name, strat(kind, variant), oracle_reuse, ctx.pick(12, 350), tally=t, shard=f"{kind}/{variant}", record=lambda c, tt: _tally_reuse(sub.name, c, tt))

    ctx.shards(hyp, list(G.VARIANTS))


def _record_data(sub):
    def rec(c, t: Tally):
        _tally_data(sub, c, t)

    return rec


def _tally_data(sub, c, t: Tally):
    kind, variant = c["kind"], c["variant"]
    cls = f"{kind}:{variant}"
    if kind.startswith("flc:"):
        cls += ":crc_" + c["f"]["crc_mode"]
    t.case(sub, key=None, nontrivial=False, cls=cls)
    if _SIDE.get("nonzero", True):
        t.nt_hashes.add(digest([sub, c]))
    if sub == "data_random":  # the grid is uniform over colour code and sync by construction
        t.cls(sub, "cc=%02d" % c["cc"])
        t.cls(sub, "sync=" + c["sync"])
    for m in c["f"].get("_excluded", []):
        t.excluded[m] += 1
    for n in sorted(_SIDE.get("notes", ())):
        t.cls(sub, n)
    t.sample(sub, c)


def drv_data_grid(ctx: Ctx, sub: SubCheck):
    _preimport()
    reps = ctx.pick(1, 4)
    items = [(kind, variant, cc, sync, r) for (kind, variant) in G.VARIANTS for cc in range(16) for sync in SYNC_NAMES for r in range(reps)]

    def work(chunk, t: Tally):
        for kind, variant, cc, sync, r in chunk:
            rng = ctx.rng("grid", kind, variant, cc, sync, r)
            c = {"kind": kind, "variant": variant, "f": G.rng_fields(rng, kind, variant), "cc": cc, "sync": sync}
            _SIDE.clear()
            ctx.run_case(sub.name, oracle_data, c, t)
            _tally_data(sub.name, c, t)

    n = 64
    ctx.shards(work, [items[i::n] for i in range(n)])
    ctx.tally.extra["grid_cells_variant_x_cc_x_sync"] = len(items) // reps
    ctx.tally.extra["grid_field_backgrounds_per_cell"] = reps
    ctx.tally.extra["grid_is_full_cross_product"] = True
    ctx.tally.extra["pdu_variants"] = len(G.VARIANTS)
    # transformed images on the data side: slot-type (Golay(20,8,7)) codewords whose bit-reversed / half-swapped / complemented
    # image is a codeword again (possibly of another colour code / data type).  The grid runs EVERY colour code with every
    # serialisable data type, so each such word with a serialisable data type is exercised above; counted for the reader.
    cws = {gf2.bits_to_int(gf2.ref_encode("golay_20_8_7", gf2.int_to_bits(m, 8))): m for m in range(256)}
    supported = {DT_VALUES[k] for k in G.DATA_TYPE_OF_KIND.values()}
    img = {"bit_reversal_20": lambda w: _rev_bits(w, 20), "half_swap_10_10": lambda w: ((w << 10) | (w >> 10)) & 0xFFFFF, "complement": lambda w: w ^ 0xFFFFF}
    summary = {}
    for name, fn in img.items():
        hits = [(m, cws[fn(w)]) for w, m in cws.items() if fn(w) in cws and fn(w) != w]
        summary[name] = {"codewords_whose_image_is_another_codeword": len(hits), "of_these_with_serialisable_data_type_(all_in_grid)": sum(1 for m, _ in hits if (m & 15) in supported)}
    ctx.tally.extra["slot_type_codeword_images"] = summary


def drv_data_boundary(ctx: Ctx, sub: SubCheck):
    """deterministic boundary pass: per variant every field at each of its extreme values, one at a time, over two seeded
    backgrounds (G.boundary_cases), the all-minimum / all-maximum field settings and the check-field modes 0 / all-ones /
    library-computed; colour code and sync rotate over {0, 15, 8, 1, 7} x the four data syncs."""
    _preimport()
    items = []
    for kind, variant in G.VARIANTS:
        bgs = [G.rng_fields(ctx.rng("boundary_background", kind, variant, i), kind, variant) for i in range(2)]
        fill = range(256) if not ctx.quick else sorted(set(range(0, 256, 3)) | {0x1E, 0x1F, 0x7F, 0x80, 0xF7, 0xF8, 0xFE, 0xFF})
        for j, (label, f) in enumerate(G.boundary_cases(kind, variant, bgs, fill_octets=fill)):
            items.append((label, {"kind": kind, "variant": variant, "f": f, "cc": (0, 15, 8, 1, 7)[j % 5], "sync": SYNC_NAMES[(j // 5) % 4]}))

    def work(chunk, t: Tally):
        for label, c in chunk:
            _SIDE.clear()
            ctx.run_case(sub.name, oracle_data, c, t)
            _tally_data(sub.name, c, t)
            t.cls(sub.name, "boundary:" + label)

    ctx.shards(work, [items[i::64] for i in range(64)])
    ctx.tally.extra["boundary_cases"] = len(items)


def _variant_strategy(kind, variant):
    from hypothesis import strategies as st

    return st.fixed_dictionaries(
        {"kind": st.just(kind), "variant": st.just(variant), "f": G.st_fields(kind, variant), "cc": st.integers(0, 15), "sync": st.sampled_from(SYNC_NAMES)}
    )


def drv_data_random(ctx: Ctx, sub: SubCheck):
    _preimport()
    # one Hypothesis search per PDU variant (a single search over all variants starves some of them: Hypothesis spent 3 of
    # 1120 examples on HyteraIPSCSync and 2 on UDT headers when the variant was drawn with sampled_from)
    def hyp(it, t: Tally):
        kind, variant, part = it
        ctx.hypothesis(sub.name, _variant_strategy(kind, variant), oracle_data, ctx.pick(150, 3500), tally=t, shard=f"{kind}/{variant}/{part}", record=_record_data(sub.name))

    ctx.shards(hyp, [(kind, variant, part) for part in range(ctx.pick(1, 2)) for (kind, variant) in G.VARIANTS])


# ---------------------------------------------------------------------------------------------- voice bursts


def oracle_voice(case):
    """case = {center: 'sync', sync: name, voice: hex54} | {center: 'emb', cc, pi, lcss, emb_bits: hex8, voice: hex54}"""
    from okdmr.dmrlib.etsi.layer2.burst import Burst
    from okdmr.dmrlib.etsi.layer2.elements.burst_types import BurstTypes
    from okdmr.dmrlib.etsi.layer2.elements.sync_patterns import SyncPatterns

    voice = _ba(gf2.int_to_bits(int(case["voice"], 16), 216))
    if case["center"] == "sync":
        sp = SyncPatterns[case["sync"]]
        _sync_constant_clause(sp, VOICE_SYNCS[case["sync"]], case["sync"])
        center = _ba(gf2.int_to_bits(VOICE_SYNCS[case["sync"]], 48))
    else:
        emb = _ba(gf2.ref_encode("qr_16_7_6", gf2.int_to_bits(case["cc"], 4) + [case["pi"]] + gf2.int_to_bits(case["lcss"], 2)))
        embedded = _ba(gf2.int_to_bits(int(case["emb_bits"], 16), 32))
        center = emb[:8] + embedded + emb[8:]
    bits = voice[:108] + center + voice[108:]
    assert len(bits) == 264
    _SIDE["nonzero"] = voice.any() and not voice.all()

    for how in ("from_bits", "from_bytes", "from_bits_frozen"):
        arg = bits.copy()
        if how == "from_bits":
            st, b = call(Burst.from_bits, arg, BurstTypes.Vocoder)
        elif how == "from_bits_frozen":
            st, b = call(Burst.from_bits, frozenbitarray(bits), BurstTypes.Vocoder)
        else:
            st, b = call(Burst.from_bytes, arg.tobytes(), BurstTypes.Vocoder)
        st, out = call(b.as_bits)
        if _ba(out) != bits:
            raise Fail("voice_burst_bits_survive_parse_serialise", _diffpos(_ba(out), bits), "no difference", klass=f"{case['center']}:{how}")
        st, ob = call(b.as_bytes)
        if bytes(ob) != bits.tobytes():
            raise Fail("voice_burst_bytes_survive_parse_serialise", bytes(ob).hex(), bits.tobytes().hex(), klass=f"{case['center']}:{how}")
        if _ba(b.voice_bits) != voice:
            raise Fail("voice_bits_extracted", _diffpos(_ba(b.voice_bits), voice), "no difference")
        # scribble-and-repeat: on the returned buffer (same burst), then on the argument (fresh burst from fresh bits)
        _repeat_after_scribble(b.as_bits, f"voice_burst.as_bits:{how}")
        if how == "from_bits":
            arg.invert()
            # the parsed burst is a snapshot: scribbling on the caller's own buffer afterwards does not change what it serialises
            st, again = call(b.as_bits)
            if _ba(again) != bits:
                raise Fail("burst_independent_of_callers_buffer_after_parse", _diffpos(_ba(again), bits), "no difference", klass=case["center"])
            st, b2 = call(Burst.from_bits, bits.copy(), BurstTypes.Vocoder)
            st, out2 = call(b2.as_bits)
            if _ba(out2) != bits:
                raise Fail("repeated_call_equal_after_scribbling_on_returned_buffer", _diffpos(_ba(out2), bits), "no difference", klass="from_bits argument")
        if case["center"] == "sync":
            if b.sync_or_embedded_signalling != sp:
                raise Fail("voice_sync_recognised", str(b.sync_or_embedded_signalling), str(sp))
        elif gf2.bits_to_int(center.tolist()) in _ALL_SYNC_VALUES:
            pass  # EMB + embedded bits that spell a SYNC pattern are a SYNC pattern: only bit survival is required
        else:
            if b.emb is None:
                raise Fail("embedded_signalling_recognised", [str(b.sync_or_embedded_signalling), b.has_emb], "an EMB PDU")
            got = [_intval(b.emb.colour_code), _intval(b.emb.preemption_and_power_control_indicator), _intval(b.emb.link_control_start_stop)]
            if got != [case["cc"], case["pi"], case["lcss"]]:
                raise Fail("emb_fields_equal", got, [case["cc"], case["pi"], case["lcss"]])
            st, pcc = call(lambda: b.colour_code)
            if pcc != case["cc"]:
                raise Fail("parsed_colour_code", pcc, case["cc"])
            if _ba(b.embedded_signalling_bits) != embedded:
                raise Fail("embedded_bits_extracted", _ba(b.embedded_signalling_bits).to01(), embedded.to01())


# ---------------------------------------------------------------------------------------------- voice walk (round 7)


def _voice_twins(rng, base):
    """voice bursts that share everything but one thing with `base`: the same 216 vocoder bits around every other kind of
    centre, the same centre around vocoder bits that differ in one bit / only at the positions where a data burst carries its
    slot type / only in the first or last octet, the same EMB word around other embedded bits, and an exact duplicate"""
    out = []
    v = int(base["voice"], 16)

    def emb_centre(m=None, eb=None):
        m = rng.randrange(128) if m is None else m
        return {"center": "emb", "cc": m >> 3, "pi": (m >> 2) & 1, "lcss": m & 3, "emb_bits": ("%08x" % rng.getrandbits(32)) if eb is None else eb}

    centre = {k: base[k] for k in base if k != "voice"}
    for _ in range(rng.randrange(1, 4)):
        r = rng.random()
        if r < 0.3:  # same vocoder bits, another centre
            c2 = {"center": "sync", "sync": rng.choice(VOICE_SYNC_NAMES)} if rng.random() < 0.4 else emb_centre()
            out.append(dict(c2, voice=base["voice"]))
        elif r < 0.45 and base["center"] == "emb":  # same EMB word, other embedded bits / same embedded bits, other EMB word
            if rng.random() < 0.5:
                out.append(dict(centre, emb_bits="%08x" % (int(base["emb_bits"], 16) ^ (1 << rng.randrange(32))), voice=base["voice"]))
            else:
                out.append(dict(emb_centre(eb=base["emb_bits"]), voice=base["voice"]))
        elif r < 0.85:  # same centre, vocoder bits that differ a little
            how = rng.choice(["one_bit", "slot_type_positions", "first_octet", "last_octet", "middle_bits"])
            if how == "one_bit":
                v2 = v ^ (1 << rng.randrange(216))
            elif how == "slot_type_positions":  # burst bits 98..107 and 156..165 = vocoder bits 98..117
                v2 = v ^ (rng.randrange(1, 1 << 20) << (216 - 118))
            elif how == "first_octet":
                v2 = v ^ (rng.randrange(1, 256) << 208)
            elif how == "last_octet":
                v2 = v ^ rng.randrange(1, 256)
            else:
                v2 = v ^ (rng.randrange(1, 1 << 16) << 100)
            out.append(dict(centre, voice="%054x" % v2))
        else:
            out.append(dict(base))
    return out


def oracle_voice_walk(case):
    """case = {items: [voice case, ...], seq: [{j} | {n: {j, bt, via, w, dt, flip}}]}.  {j}: item j is judged with every clause of
    oracle_voice and one more parsed burst of it is kept alive.  {n}: stimulus - the 264 bits of item j (optionally with the
    20 slot-type positions overwritten by a valid slot type of data type dt, or with bit errors) are parsed as burst type bt
    through from_bytes / from_bits / the constructor / from_mmdvm / from_hytera_ipsc, serialised, printed; ignored.  At the
    end every kept burst must still serialise to its own bits."""
    from okdmr.dmrlib.etsi.layer2.burst import Burst
    from okdmr.dmrlib.etsi.layer2.elements.burst_types import BurstTypes

    items = case["items"]
    kept = []
    nonzero = False
    for step in case["seq"]:
        if "n" in step:
            n = step["n"]
            bits = _voice_bits_of(items[n["j"] % len(items)])
            if n.get("dt") is not None:
                slot = _ba(gf2.ref_encode("golay_20_8_7", gf2.int_to_bits(n.get("w", 0) % 16, 4) + gf2.int_to_bits(n["dt"], 4)))
                bits[98:108], bits[156:166] = slot[:10], slot[10:]
            for p in n.get("flip", []):
                bits.invert(p % 264)
            _parse_ignoring_everything(bits, n.get("bt", "Vocoder"), n.get("via", "from_bytes"), n.get("w", 0))
            continue
        it = items[step["j"] % len(items)]
        oracle_voice(it)
        nonzero = nonzero or _SIDE.get("nonzero", True)
        bits = _voice_bits_of(it)
        st, b = call(Burst.from_bytes, bits.tobytes(), BurstTypes.Vocoder)
        kept.append((bits, b))
    _SIDE["nonzero"] = nonzero
    for i, (bits, b) in enumerate(kept):
        st, out = call(b.as_bits)
        if _ba(out) != bits:
            raise Fail("retained_burst_unchanged_by_later_parses", {"judged_step": i, **_diffpos(_ba(out), bits)}, "its own bits", klass="voice")
        if _ba(b.voice_bits) != bits[:108] + bits[156:]:
            raise Fail("retained_burst_unchanged_by_later_parses", {"judged_step": i, "attribute": "voice_bits"}, "its own vocoder bits", klass="voice")


def _voice_walk_case(rng):
    if rng.random() < 0.7:
        m = rng.randrange(128)
        base = {"center": "emb", "cc": m >> 3, "pi": (m >> 2) & 1, "lcss": m & 3, "emb_bits": "%08x" % rng.getrandbits(32), "voice": _voice_payload(rng)}
    else:
        base = {"center": "sync", "sync": rng.choice(VOICE_SYNC_NAMES), "voice": _voice_payload(rng)}
    items = [base] + _voice_twins(rng, base)

    def noise():
        n = {"j": rng.randrange(len(items)), "bt": rng.choice(BURST_TYPE_NAMES), "w": rng.randrange(1 << 16)}
        if rng.random() < 0.5:
            n["via"] = rng.choice(["from_bits", "constructor", "mmdvm", "ipsc"])
        if rng.random() < 0.3:
            n["dt"] = rng.randrange(16)
        if rng.random() < 0.15:
            n["flip"] = [rng.randrange(264) for _ in range(rng.choice([1, 2, 3]))]
        return {"n": n}

    order = list(range(len(items)))
    rng.shuffle(order)
    pattern = rng.choice(["noise_first", "judged_first", "alternate"])
    if pattern == "noise_first":
        seq = [noise() for _ in range(rng.randrange(2, 7))] + [{"j": j} for j in order]
    elif pattern == "judged_first":
        seq = [{"j": j} for j in order] + [noise() for _ in range(rng.randrange(1, 5))] + [{"j": j} for j in order[::-1]]
    else:
        seq = []
        for j in order + order[::-1]:
            seq += [{"j": j}] + ([noise()] if rng.random() < 0.6 else [])
    return {"items": items, "seq": seq, "pattern": pattern}


def drv_voice_walk(ctx: Ctx, sub: SubCheck):
    _preimport()
    n = ctx.pick(640, 6000)

    def work(chunk, t: Tally):
        for j in chunk:
            c = _voice_walk_case(ctx.rng("voice_walk", j))
            _SIDE.clear()
            ctx.run_case(sub.name, oracle_voice_walk, c, t)
            t.case(sub.name, key=None, nontrivial=False, cls="items=%d:%s" % (len(c["items"]), c["pattern"]))
            if _SIDE.get("nonzero", True):
                t.nt_hashes.add(digest([sub.name, c]))
            if j < 3:
                t.sample(sub.name, c)

    ctx.shards(work, [list(range(n))[i::64] for i in range(64)])


def _tally_voice(sub, c, t: Tally):
    cls = "sync:" + c["sync"] if c["center"] == "sync" else "emb"
    t.case(sub, key=None, nontrivial=False, cls=cls)
    if _SIDE.get("nonzero", True):
        t.nt_hashes.add(digest([sub, c]))
    if c["center"] == "emb":
        t.cls(sub, "emb:lcss=%d:pi=%d" % (c["lcss"], c["pi"]))
    t.sample(sub, c)


def _voice_payload(rng):
    r = rng.random()
    if r < 0.04:
        return "0" * 54
    if r < 0.08:
        return "f" * 54
    return "%054x" % rng.getrandbits(216)


def drv_voice_grid(ctx: Ctx, sub: SubCheck):
    _preimport()
    k = ctx.pick(12, 100)
    items = [("emb", cc, pi, lcss) for cc in range(16) for pi in range(2) for lcss in range(4)] + [("sync", s, 0, 0) for s in VOICE_SYNC_NAMES for _ in range(8)]

    def work(chunk, t: Tally):
        for j, it in enumerate(chunk):
            rng = ctx.rng("voice", *it, j)
            for _ in range(k):
                if it[0] == "emb":
                    eb = rng.choice(["00000000", "ffffffff", "%08x" % rng.getrandbits(32), "%08x" % rng.getrandbits(32)])
                    c = {"center": "emb", "cc": it[1], "pi": it[2], "lcss": it[3], "emb_bits": eb, "voice": _voice_payload(rng)}
                else:
                    c = {"center": "sync", "sync": it[1], "voice": _voice_payload(rng)}
                _SIDE.clear()
                ctx.run_case(sub.name, oracle_voice, c, t)
                _tally_voice(sub.name, c, t)

    ctx.shards(work, [items[i::16] for i in range(16)])
    ctx.tally.extra["emb_values_enumerated"] = 128


def _emb_word(m: int) -> int:
    """16-bit EMB word (reference QR(16,7,6) codeword) of the 7-bit message cc(4) | pi(1) | lcss(2)"""
    return gf2.bits_to_int(gf2.ref_encode("qr_16_7_6", gf2.int_to_bits(m, 7)))


def _centre_value(emb16: int, embedded32: int) -> int:
    return ((emb16 >> 8) << 40) | (embedded32 << 8) | (emb16 & 0xFF)


def _dist_to_nearest_sync(centre: int) -> int:
    return min(bin(centre ^ s).count("1") for s in _ALL_SYNC_VALUES)


def drv_voice_near_sync(ctx: Ctx, sub: SubCheck):
    """Inputs at minimal Hamming distance from a magic constant: burst centres made of a VALID EMB word around embedded bits
    that are as close to a SYNC pattern as a valid-EMB centre can be.  For each of the 10 SYNC words S of table 9.2 and each
    of the 128 EMB codewords E: centre = E[0:8] + S[8:40] + E[8:16] (this contains, for every S, the centre whose outer 16
    bits are the codeword NEAREST to S's outer bits), plus the same with single embedded bits flipped (all 32 positions for
    the codewords within 2 of the per-S minimum and in the thorough tier, a seeded sample otherwise) and seeded pairs of
    flipped bits.  Same oracle as the other voice sub-checks."""
    _preimport()
    syncs = sorted(_ALL_SYNC_VALUES)
    words = [_emb_word(m) for m in range(128)]
    cells, dmin_all, closest = [], 99, []
    for S in syncs:
        outer, mid = ((S >> 40) << 8) | (S & 0xFF), (S >> 8) & 0xFFFFFFFF
        dist = [bin(w ^ outer).count("1") for w in words]
        dmin = min(dist)
        for m in range(128):
            cells.append((S, mid, m, dist[m] <= dmin + 2))
            if dist[m] < dmin_all:
                dmin_all, closest = dist[m], []
            if dist[m] == dmin_all:
                closest.append({"sync": "%012X" % S, "cc": m >> 3, "pi": (m >> 2) & 1, "lcss": m & 3, "emb_bits": "%08x" % mid})

    def work(chunk, t: Tally):
        for S, mid, m, near in chunk:
            rng = ctx.rng("near_sync", S, m)
            flips = [()]
            pos = list(range(32)) if (near or not ctx.quick) else rng.sample(range(32), 2)
            flips += [(p,) for p in pos]
            flips += [tuple(rng.sample(range(32), 2)) for _ in range(ctx.pick(1, 4))]
            for fl in flips:
                eb = mid
                for p in fl:
                    eb ^= 1 << (31 - p)
                c = {"center": "emb", "cc": m >> 3, "pi": (m >> 2) & 1, "lcss": m & 3, "emb_bits": "%08x" % eb, "voice": _voice_payload(rng)}
                _SIDE.clear()
                ctx.run_case(sub.name, oracle_voice, c, t)
                d = _dist_to_nearest_sync(_centre_value(words[m], eb))
                t.case(sub.name, key=None, nontrivial=False, cls="distance_to_nearest_sync=%02d" % min(d, 9) + ("+" if d >= 9 else ""))
                t.cls(sub.name, "embedded_bits_flipped=%d" % len(fl))
                if _SIDE.get("nonzero", True):
                    t.nt_hashes.add(digest([sub.name, c]))
                if d <= 3:
                    t.sample(sub.name, c)

    ctx.shards(work, [cells[i::64] for i in range(64)])
    ctx.tally.extra["near_sync_min_hamming_distance_valid_emb_centre_to_any_sync"] = dmin_all
    ctx.tally.extra["near_sync_centres_at_min_distance"] = closest
    ctx.tally.extra["near_sync_grid_cells_sync_x_emb_word"] = len(cells)


def drv_voice_boundary(ctx: Ctx, sub: SubCheck):
    """deterministic: vocoder bits all-zero / all-ones / alternating (both phases) x embedded bits all-zero / all-ones /
    alternating (both phases) for every EMB value, and the four vocoder patterns for every voice sync"""
    _preimport()
    voices = ["0" * 54, "f" * 54, "a" * 54, "5" * 54]
    embs = ["00000000", "ffffffff", "aaaaaaaa", "55555555"]
    items = [{"center": "emb", "cc": m >> 3, "pi": (m >> 2) & 1, "lcss": m & 3, "emb_bits": e, "voice": v} for m in range(128) for e in embs for v in voices]
    items += [{"center": "sync", "sync": sname, "voice": v} for sname in VOICE_SYNC_NAMES for v in voices]

    def work(chunk, t: Tally):
        for c in chunk:
            _SIDE.clear()
            ctx.run_case(sub.name, oracle_voice, c, t)
            t.case(sub.name, key=None, nontrivial=True, cls=("emb" if c["center"] == "emb" else "sync") + ":voice=" + c["voice"][0] * 2)
        t.sample(sub.name, chunk[0])

    ctx.shards(work, [items[i::16] for i in range(16)])
    ctx.tally.exhaustive[sub.name] = True


def _rev_bits(v: int, n: int) -> int:
    return int(format(v, "0%db" % n)[::-1], 2)


def _per_octet(v: int, fn) -> int:
    return int.from_bytes(bytes(fn(b) for b in v.to_bytes(6, "big")), "big")


def _rot48(v: int, k: int) -> int:
    return ((v << k) | (v >> (48 - k))) & (2**48 - 1)


# transformed images of a 48-bit magic constant: the ways a word gets mangled by an endianness / ordering mix-up
_IMAGE_TRANSFORMS = [
    ("bit_reversal_48", lambda v: _rev_bits(v, 48)),
    ("byte_reversal", lambda v: int.from_bytes(v.to_bytes(6, "big")[::-1], "big")),
    ("byte_swap_in_16_bit_words", lambda v: int.from_bytes(b"".join(v.to_bytes(6, "big")[i : i + 2][::-1] for i in (0, 2, 4)), "big")),
    ("word_order_reversal_16", lambda v: int.from_bytes(b"".join(v.to_bytes(6, "big")[i : i + 2] for i in (4, 2, 0)), "big")),
    ("half_swap_24", lambda v: _rot48(v, 24)),
    ("bit_reversal_in_octets", lambda v: _per_octet(v, lambda b: _rev_bits(b, 8))),
    ("nibble_swap_in_octets", lambda v: _per_octet(v, lambda b: ((b << 4) | (b >> 4)) & 0xFF)),
    ("dibit_swap", lambda v: ((v & 0xAAAAAAAAAAAA) >> 1) | ((v & 0x555555555555) << 1)),
    ("rotation_8", lambda v: _rot48(v, 8)),
    ("rotation_16", lambda v: _rot48(v, 16)),
    ("rotation_32", lambda v: _rot48(v, 32)),
    ("rotation_40", lambda v: _rot48(v, 40)),
    ("identity", lambda v: v),
]


def _sync_images():
    """[(sync value S, transform name, image C)] for every SYNC word, every transform and its complement; the untransformed
    word itself is left out (it IS a SYNC pattern), its complement is kept"""
    out = []
    for S in sorted(_ALL_SYNC_VALUES):
        for name, fn in _IMAGE_TRANSFORMS:
            for comp in (False, True):
                if name == "identity" and not comp:
                    continue
                C = fn(S) ^ (2**48 - 1 if comp else 0)
                out.append((S, ("complement_of_" if comp else "") + name, C))
    return out


def drv_voice_sync_images(ctx: Ctx, sub: SubCheck):
    """Transformed images of magic constants: for each SYNC word S and each transform T (bit / byte / word reversals,
    in-octet bit and nibble swaps, dibit swap, rotations, complement and the complement of each) the image C = T(S).
    (a) when the outer 16 bits of C are a valid EMB word, C itself is a legitimate voice-burst centre and is used as such;
    (b) for EMB words E the centre E[0:8] + C[8:40] + E[8:16] (thorough: all 128 E; quick: the 8 codewords nearest to C's
    outer bits and 8 seeded others).  Seeded vocoder bits, from_bits and from_bytes, same oracle as the other voice checks."""
    _preimport()
    words = [_emb_word(m) for m in range(128)]
    word_index = {w: m for m, w in enumerate(words)}
    images = _sync_images()
    kind_a = []
    cells = []
    for S, tname, C in images:
        outer, mid = ((C >> 40) << 8) | (C & 0xFF), (C >> 8) & 0xFFFFFFFF
        if outer in word_index and C not in _ALL_SYNC_VALUES:
            m = word_index[outer]
            kind_a.append({"sync": "%012X" % S, "transform": tname, "image": "%012X" % C, "cc": m >> 3, "pi": (m >> 2) & 1, "lcss": m & 3, "emb_bits": "%08x" % mid})
            cells.append((S, tname, mid, m, "a"))
        if ctx.quick:
            rng = ctx.rng("images", S, tname)
            near = sorted(range(128), key=lambda m: (bin(words[m] ^ outer).count("1"), m))[:8]
            ms = near + rng.sample([m for m in range(128) if m not in near], 8)
        else:
            ms = range(128)
        for m in ms:
            cells.append((S, tname, mid, m, "b"))

    def work(chunk, t: Tally):
        for S, tname, mid, m, kind in chunk:
            rng = ctx.rng("images_voice", S, tname, m, kind)
            for _ in range(3 if kind == "a" else 1):
                c = {"center": "emb", "cc": m >> 3, "pi": (m >> 2) & 1, "lcss": m & 3, "emb_bits": "%08x" % mid, "voice": _voice_payload(rng)}
                _SIDE.clear()
                ctx.run_case(sub.name, oracle_voice, c, t)
                t.case(sub.name, key=None, nontrivial=False, cls="image_is_itself_a_valid_emb_centre" if kind == "a" else "emb_word_around_image_middle")
                t.cls(sub.name, "transform:" + tname)
                if _SIDE.get("nonzero", True):
                    t.nt_hashes.add(digest([sub.name, c]))
                if kind == "a":
                    t.sample(sub.name, c)

    ctx.shards(work, [cells[i::64] for i in range(64)])
    ctx.tally.extra["sync_images_generated"] = len(images)
    ctx.tally.extra["sync_images_that_are_valid_emb_centres"] = kind_a
    ctx.tally.extra["sync_images_that_are_valid_emb_centres_count"] = len(kind_a)


def drv_voice_random(ctx: Ctx, sub: SubCheck):
    _preimport()
    from hypothesis import strategies as st

    voice = st.integers(0, 2**216 - 1).map(lambda v: "%054x" % v)
    strat = st.one_of(
        st.fixed_dictionaries({"center": st.just("sync"), "sync": st.sampled_from(VOICE_SYNC_NAMES), "voice": voice}),
        st.fixed_dictionaries(
            {
                "center": st.just("emb"),
                "cc": st.integers(0, 15),
                "pi": st.integers(0, 1),
                "lcss": st.integers(0, 3),
                "emb_bits": st.integers(0, 2**32 - 1).map(lambda v: "%08x" % v),
                "voice": voice,
            }
        ),
    )

    def hyp(shard, t: Tally):
        ctx.hypothesis(sub.name, strat, oracle_voice, ctx.pick(300, 8000), tally=t, shard=shard, record=lambda c, tt: _tally_voice(sub.name, c, tt))

    ctx.shards(hyp, list(range(ctx.pick(16, 32))))


SUBCHECKS = [
    SubCheck("data_grid", oracle_data, drv_data_grid, "every PDU variant x colour code x data sync (by construction), seeded random fields: layout reference, parse, field equality, re-assembly"),
    SubCheck("data_boundary", oracle_data, drv_data_boundary, "deterministic boundary pass: every field of every variant at each extreme value (0, 1, max-1, max, top bit; every enum member; all-00 / all-FF / single-octet / alternating payloads) one at a time, all-min / all-max, check fields 0 / all-ones / computed"),
    SubCheck("data_random", oracle_data, drv_data_random, "Hypothesis-drawn (variant, fields, colour code, sync): same oracle"),
    SubCheck("reuse", oracle_reuse, drv_reuse, "stale state on reused objects: one Burst (assembled or parsed) carries state 1, is serialised (as_bytes/as_bits/repr/debug), is re-targeted to state 2 (payload replaced or rewritten in place, slot type, sync) and back: every serialisation equals a freshly assembled burst"),
    SubCheck("batch", oracle_batch, drv_batch, "interleaved two-phase batches: 2-4 data / voice bursts are all built and parsed first (with arbitrary 'noise' bursts parsed in between), then serialised in another order, twice: every result equals the solo result"),
    SubCheck("same_payload", oracle_same_payload, drv_same_payload, "one 196-bit on-air payload walked through data types / FEC classes in one process, both orders: the bursts of different data types that share it (any BPTC payload = a rate 1/2 block; bits 96..99 zero = a rate 1 block; a rate 1 block laid over a BPTC / trellis codeword) are each judged with data_grid's clauses, before and after the same bits were parsed under all 16 data types, other burst types, centres and entry points (from_bits, constructor, from_mmdvm, from_hytera_ipsc); every burst stays alive and is re-judged at the end"),
    SubCheck("voice_grid", oracle_voice, drv_voice_grid, "all 128 (cc, PI, LCSS) EMB codewords and the 4 voice syncs x random vocoder/embedded bits: parse-then-serialise is the identity"),
    SubCheck("voice_boundary", oracle_voice, drv_voice_boundary, "every EMB value x {all-zero, all-ones, alternating} vocoder bits x {all-zero, all-ones, alternating} embedded bits; every voice sync x the vocoder patterns (complete)"),
    SubCheck("voice_near_sync", oracle_voice, drv_voice_near_sync, "voice bursts whose valid-EMB centre is at minimal Hamming distance from a SYNC pattern: 10 SYNC words x 128 EMB codewords with the SYNC word's own middle bits as embedded bits, and 1-2 embedded bits flipped"),
    SubCheck("voice_sync_images", oracle_voice, drv_voice_sync_images, "voice bursts whose centre is (built around) a transformed image of a SYNC word: bit/byte/word reversal, in-octet swaps, rotations, complements; images that are themselves valid EMB centres are used as they are"),
    SubCheck("voice_walk", oracle_voice_walk, drv_voice_walk, "voice bursts that share their vocoder bits or their centre (other SYNC / EMB word / embedded bits; vocoder bits differing in one bit, only at the slot-type positions, only in the first / last octet; exact duplicates) judged one after the other in one process, with the same 264 bits parsed in between / before as every burst type through every entry point (from_bits, constructor, from_mmdvm, from_hytera_ipsc), with a slot type of every data type written over the slot-type positions; every burst stays alive and is re-judged at the end"),
    SubCheck("voice_random", oracle_voice, drv_voice_random, "Hypothesis-drawn voice bursts (both centre kinds): same oracle"),
]
PREDICATES = {}
