"""C15 — LRRP/MBXML documents re-serialise to the bytes they were parsed from; token lookup API; termination.

Sub-checks
  documents  canonical buffers (1..3 documents) from the reference serializer vp/refs/mbxml_ref.py (declarative token
             grammar) -> MBXML.from_bytes -> number of documents, document ids, token ids, values -> MBXML.as_bytes(doc_i)
             equals the bytes of document i.  (R + RT)
  lookup     documents assembled through LRRP.get_token(name|id, value, attributes, is_request) -> MBXML.as_bytes ->
             MBXML.from_bytes: same token ids, values and attribute values as doc.parts.  (RT)
  mutated    damaged / arbitrary byte strings: the parse returns or raises within the bound; if it parses, re-serialising
             raises only the documented range rejections.
  atheris    (thorough) coverage-guided campaign on the same oracle as 'mutated', in a subprocess.
Every sub-check additionally requires: parse terminates (in-process alarm, 20 s; normal cost < 1 ms) and the class-level
LRRP token tables are unchanged by the calls (they are snapshotted; restored between cases so a leak cannot poison later
cases).
Failures whose root cause is a C14 integer-codec defect (some integer of the case is written differently by the library's
write_uintvar / write_sintvar than by the reference) are reported under the clause
'roundtrip_blocked_by_C14_codec_defect' so that they are attributed to C14's finding / fix and not counted as new causes.
"""
from __future__ import annotations

import contextlib
import copy
import os
import signal
import subprocess
import sys
import tempfile

from vp.core import Ctx, Fail, SubCheck, Tally, call, jsonable, VERIF_DIR
from props.c14 import warm_hypothesis_constants
from vp.refs import mbxml_ref as R

LEVEL = "exploration"
RULE = (
    "documents: Hypothesis-generated buffers of 1..3 canonical LRRP documents: id from the 18 LRRP ids that have a token "
    "table, 0..12 tokens drawn from the implemented tokens of the id's group (declarative grammar in vp/refs/mbxml_ref.py: "
    "inline opaque 0..200 octets incl. 0/127/128/129, fixed 1-octet opaque, result-code attribute + opaque, uintvar (septet-"
    "biased to 2^32-1), result-code attribute without data (0x37), uint8, no-value, ufloat/sfloat with one fraction septet (both signs, zero integer part), info-time, "
    "point-2d, point-3d, circle-2d); ids without constant table (table implied by the id) and ids with an inline table "
    "(standard LRRP table, random length-value entries, empty); NOT generated: CDT_LEN=1 ('same table as previous "
    "document' - the intended wire form cannot be established offline), tokens the library has no codec for (0x24, circle-3d, "
    "point-3d with accuracy).  lookup: sequences of 0..8 LRRP.get_token calls (by id or by name, attributes by id or name, "
    "a few deliberately invalid ones that must raise ModuleNotFoundError) on a fresh document.  mutated: canonical buffers "
    "with truncation / octet substitution / insertion / length-field damage, and arbitrary octets.  Before the random search "
    "every run executes a DETERMINISTIC boundary pass (documents and lookup): every document id x every token it admits as "
    "only / first / last token and two / three times in a row; every boundary value of every value kind (septet borders "
    "63/64, 127/128, 8191/8192, 16383/16384, 2^21, 2^28, 2^31, 2^32-1; uint8 0/127/128/255; floats with those integer parts "
    "and fractions 0/1/64/127, both signs); opaque / attribute+opaque / inline-table lengths 0, 1, 127, 128, 129, 255, 256, "
    "16383, 16384; body lengths 124..132 and 16380..16388 (alone, before, between other documents, via an inline table); "
    "inline tables equal to / one octet different from / proper prefix of / longer than the standard table for every id "
    "with inline table; the same token / the same lookup N times in a row for N in {2..12, 16, 17, 31, 32, 33, 64, 100, 128, "
    "255, 256, 257, 300}; two- and three-document buffers built from those documents.  mode_flags: the boundary documents "
    "and random documents again with from_bytes(debug=True), after from_bytes(malformed, debug=True) raised, and with "
    "MBXML.DEBUG on while serialising.  Distinct by case hash (boundary pass: "
    "de-duplicated list); "
    "non-trivial: >= 2 tokens, or >= 2 documents, or an inline constant table (documents, lookup); the parser got past the "
    "first document header (mutated).  batches: several buffers / lookup assemblies / stimulus calls in ONE process, every parsed "
    "document kept and judged again (values, bytes) at the end: element id 0x56 with equal numeric value in a request-family "
    "document (ufloatvar N.0) and a report-family document (uint8 N) for EVERY N in 0..255, in the arrangements two buffers "
    "(both orders) / one buffer (both orders) / X Y X / via the lookup API / with a refused parse or a wrong-family lookup in "
    "between; same integer part with non-zero fraction; every id the two families share (0x34 0x51 0x56 0x66 0x69) x boundary "
    "values of both kinds; equal numbers under every numeric id of a family; the boundary documents with their other-family "
    "twin (same ids, numerically equal values) and same-family twins (other document id, table inline / implied, one value "
    "changed, one token dropped / doubled); Hypothesis batches of such twins; each batch is judged in a process of its own that "
    "starts from a freshly imported library.  Preludes (framework: every 8th held case is judged again after them): the case's documents re-typed into the other "
    "family, under sibling ids, through the lookup API (right and wrong family), truncated with debug=True."
)
ASSUMPTIONS = [
    "canonical form = vp/refs/mbxml_ref.py (shortest uintvar/sintvar, one fraction septet); unit-checked against the "
    "captured messages of test_lrrp.py / test_mbxml.py",
    "'inherited constant table' is covered for the table implied by the document id only; the CDT_LEN=1 form is not generated",
    "Reserved (0x00-0x03) and ARRP (0x16-0x27) document ids have no token tables in the library and are outside the domain",
    "termination bound: 20 s of CPU time per parse in-process (signal.setitimer, ITIMER_VIRTUAL - independent of machine load); after a first time-out in a worker process the bound "
    "for later cases of that worker is 1 s, after four time-outs 0.25 s, so that a run against a hanging tree and the "
    "shrinking of a hang stay feasible (all >= 200 x the normal cost)",
    "lookup API: attribute values are integers (never None); tokens whose definition requires an attribute value always get "
    "one; get_token by name is only required to return *a* token of that name (which one is the library's choice)",
    "re-serialising a parsed damaged buffer may raise AssertionError / ValueError / OverflowError (documented range "
    "rejections, e.g. a 6-septet integer above 2^32-1)",
]

U_MAX, S_MAX = 2**32 - 1, 2**31 - 1
TABLE_NAMES = ["LRRP_CONSTANT_TABLE", "COMMON_ELEMENT_TOKENS", "QUERY_REQUEST_MESSAGES_ELEMENT_TOKENS", "ANSWER_AND_REPORT_MESSAGES_ELEMENT_TOKENS", "ATTRIBUTE_TOKENS"]

def libs():
    from okdmr.dmrlib.motorola.lrrp import LRRP
    from okdmr.dmrlib.motorola.mbxml import MBXML, MBXMLDocumentIdentifier, MBXMLToken

    return MBXML, LRRP, MBXMLDocumentIdentifier, MBXMLToken


# ---------------------------------------------------------------------------------------------- token-table guard

_PRISTINE = None
# side channel oracle -> record() for class labels of the case judged last (never read by an oracle)
_LAST = {}


def _dump_token(t):
    _, _, _, MBXMLToken = libs()
    return [
        t.name, t.token_type.name, t.token_id, t.last_attribute,
        [(_dump_token(a) if isinstance(a, MBXMLToken) else a) for a in t.attributes],
        t.length, t.path, jsonable(t.value), t.constant_position,
    ]


def _dump_tables():
    _, LRRP, _, _ = libs()
    return {n: {int(k): _dump_token(v) for k, v in getattr(LRRP, n).items()} for n in TABLE_NAMES}


def _restore_tables():
    _, LRRP, _, _ = libs()
    for n in TABLE_NAMES:
        setattr(LRRP, n, copy.deepcopy(_PRISTINE[0][n]))


def _table_diff(now, then):
    out = []
    for n in TABLE_NAMES:
        for k in sorted(set(now[n]) | set(then[n])):
            if now[n].get(k) != then[n].get(k):
                out.append({"table": n, "token": hex(k), "now": now[n].get(k), "was": then[n].get(k)})
    return out


@contextlib.contextmanager
def tables_guard():
    """restore the pristine tables before the case if an earlier case leaked; after the case: Fail if the case changed them"""
    global _PRISTINE
    _, LRRP, _, _ = libs()
    if _PRISTINE is None:
        _PRISTINE = ({n: copy.deepcopy(getattr(LRRP, n)) for n in TABLE_NAMES}, _dump_tables())
    elif _dump_tables() != _PRISTINE[1]:
        _restore_tables()
    changed = None
    try:
        yield
    finally:
        now = _dump_tables()
        if now != _PRISTINE[1]:
            changed = _table_diff(now, _PRISTINE[1])
            _restore_tables()
        if changed:
            # the leak is the root cause of whatever else went wrong in this case: report it (overrides an in-flight Fail)
            raise Fail("class_level_token_tables_unchanged", changed[:3], "LRRP token/attribute tables identical before and after the calls")


# ---------------------------------------------------------------------------------------------- termination bound


class _Timeout(BaseException):
    pass


_TIMEOUT_SEEN = 0  # number of time-outs seen in this process


def _bound() -> float:
    """CPU seconds allowed for one parse: 20 for the first time-out of a process, 1 for the next three, then 0.25 (the
    bound is CPU time, so machine load does not matter; 0.25 s is still > 200 x the normal cost) - keeps a run against a
    tree that really hangs, and the shrinking of such a failure, feasible"""
    full = float(os.environ.get("VP_PARSE_TIMEOUT_S", "20"))
    return full if _TIMEOUT_SEEN == 0 else min(full, 1.0) if _TIMEOUT_SEEN <= 3 else min(full, 0.25)


def bounded(fn, *a, allowed=(), clause="no_unexpected_exception"):
    """call(fn) under the termination bound"""
    global _TIMEOUT_SEEN
    secs = _bound()

    def handler(signum, frame):
        raise _Timeout()

    # CPU time of this process, not wall clock: a parse that does not terminate spins (the parser does no I/O), while
    # machine load or a suspended process can never turn a terminating parse into a "time-out"
    old = signal.signal(signal.SIGVTALRM, handler)
    signal.setitimer(signal.ITIMER_VIRTUAL, secs)
    try:
        return call(fn, *a, allowed=allowed, clause=clause)
    except _Timeout:
        _TIMEOUT_SEEN += 1
        raise Fail("parse_terminates", f"no result after {secs} s of CPU time", "returns or raises (normal cost < 1 ms)")
    finally:
        signal.setitimer(signal.ITIMER_VIRTUAL, 0)
        signal.signal(signal.SIGVTALRM, old if old is not None else signal.SIG_DFL)


# ---------------------------------------------------------------------------------------------- C14 attribution


def _doc_integers(doc: dict):
    """(unsigned integers, signed integers) the library writes through write_uintvar / write_sintvar for this document"""
    group = R.GROUPS[R.DOC_GROUP[doc["id"]]]
    us, ss = [doc["id"]], []
    # body length = total - id octet - length field
    total = len(R.document_bytes(doc))
    for n in (1, 2, 3):
        if total - 1 - n >= 0 and len(R.uintvar(total - 1 - n)) == n:
            us.append(total - 1 - n)
            break
    if doc.get("table") is not None:
        us.append(len(doc["table"]) // 2)
    for tid, v in doc["tokens"]:
        kind = group[tid][1]
        us.extend(R.integers_of_value(kind, v))
        ss.extend(R.signed_integers_of_value(kind, v))
    return us, ss


def c14_blame(docs):
    """first integer of the case that the library's integer writers encode differently from the reference, else None"""
    M = libs()[0]
    for d in docs:
        us, ss = _doc_integers(d)
        for n in us:
            if 0 <= n <= U_MAX:
                try:
                    ok = bytes(M.write_uintvar(n)) == R.uintvar(n)
                except Exception:
                    ok = False
                if not ok:
                    return {"kind": "uintvar", "value": n}
        for n in ss:
            try:
                ok = bytes(M.write_sintvar(n)) == R.sintvar(n)
            except Exception:
                ok = False
            if not ok:
                return {"kind": "sintvar", "value": n}
    return None


def empty_opaque_blame(docs):
    """True when the case holds a zero-length inline opaque AND the library writes such a token without its length octet
    (reference: token id + 00)"""
    M, LRRP, _, _ = libs()
    has = False
    for d in docs:
        group = R.GROUPS[R.DOC_GROUP[d["id"]]]
        for tid, v in d["tokens"]:
            kind = group[tid][1]
            if (kind == "opaque" and v == "") or (kind == "attr_opaque" and v[1] == ""):
                has = True
    if not has:
        return False
    try:
        tok = copy.copy(_PRISTINE[0]["COMMON_ELEMENT_TOKENS"][0x22])
        tok.token_id, tok.value = 0x22, b""
        return bytes(M.write_part(tok)) != b"\x22\x00"
    except Exception:
        return True


def attribute_to_c14(docs_of_case):
    """run inner; on Fail look for a root cause that is already known by its own bucket: a C14 integer-codec defect, or the
    zero-length-opaque writer defect (each checked against the library's actual behaviour, so the relabelling disappears
    with the defect)"""

    def wrap(inner, case):
        try:
            inner(case)
        except Fail as f:
            if f.clause in ("parse_terminates", "class_level_token_tables_unchanged"):
                raise
            docs = docs_of_case(case)
            blame = c14_blame(docs)
            if blame:
                raise Fail("roundtrip_blocked_by_C14_codec_defect", {"integer": blame, "first_failure": str(f)[:300]},
                           "library writes every integer of the case like the canonical reference (C14)", klass="C14:" + blame["kind"])
            if empty_opaque_blame(docs):
                raise Fail("zero_length_opaque_keeps_its_length_octet", {"first_failure": str(f)[:300]},
                           "a zero-length inline opaque is written as <token id> 00 (and parses back)", klass="empty_opaque")
            raise

    return wrap


# ---------------------------------------------------------------------------------------------- value conversion


def py_value(kind: str, v):
    """JSON case value -> python value as the library represents it (None when the kind carries no value)"""
    if kind in ("none", "attr_none"):
        return None
    if kind in ("opaque", "opaque1", "infotime"):
        return bytes.fromhex(v)
    if kind == "attr_opaque":
        return bytes.fromhex(v[1])
    if kind in ("uintvar", "uint8"):
        return v
    if kind == "ufloat":
        return R.float_value(v[0], v[1], 1)
    if kind == "sfloat":
        return R.float_value(v[1], v[2], 1, bool(v[0]))
    if kind == "point2d":
        return (bytes.fromhex(v[0]), bytes.fromhex(v[1]))
    if kind == "point3d":
        return (bytes.fromhex(v[0]), bytes.fromhex(v[1]), R.float_value(v[2][1], v[2][2], 1, bool(v[2][0])))
    if kind == "circle2d":
        return (bytes.fromhex(v[0]), bytes.fromhex(v[1]), R.float_value(v[2][0], v[2][1], 1))
    raise ValueError(kind)


def _same_value(got, exp) -> bool:
    if exp is None:
        return got is None or got == b""
    if isinstance(exp, tuple):
        return isinstance(got, (tuple, list)) and len(got) == len(exp) and all(_same_value(g, e) for g, e in zip(got, exp))
    if isinstance(exp, float):
        return isinstance(got, (int, float)) and not isinstance(got, bool) and got == exp and (exp != 0 or str(float(got)) == str(exp))
    if isinstance(exp, bytes):
        return isinstance(got, (bytes, bytearray)) and bytes(got) == exp
    return type(got) is type(exp) and got == exp


def _explicit_attrs(tok):
    MBXMLToken = libs()[3]
    return [[a.name, a.value] for a in tok.attributes if isinstance(a, MBXMLToken)]


def _show(tok):
    return [tok.token_id, jsonable(tok.value), _explicit_attrs(tok)]


# ---------------------------------------------------------------------------------------------- oracle: documents


def _documents_inner(case):
    M = libs()[0]
    docs = case["docs"]
    parts = [R.document_bytes(d) for d in docs]
    buf = b"".join(parts)
    mode = case.get("mode")
    if mode == "failed_debug_parse_first":
        bounded(M.from_bytes, bytes.fromhex(MALFORMED[case.get("k", 0) % len(MALFORMED)]), True, allowed=(Exception,))
    _, parsed = bounded(M.from_bytes, buf, mode in ("debug_parse", "failed_debug_parse_first"), clause="canonical_buffer_parses")
    if mode == "flag_on_while_serialising":
        M.DEBUG = True
    if len(parsed) != len(docs):
        raise Fail("number_of_documents", len(parsed), len(docs))
    for k, (d, p) in enumerate(zip(docs, parsed)):
        _check_parsed_doc(k, d, p)
    for k, (d, p, x) in enumerate(zip(docs, parsed, parts)):
        _check_reserialised(k, d, p, x)
    return parsed, parts


def _check_parsed_doc(k, d, p):
    """the parsed document p has the id, token ids, values, attribute values and inline table of the generated document d"""
    group = R.GROUPS[R.DOC_GROUP[d["id"]]]
    if p.id.value[0] != d["id"]:
        raise Fail("document_id", p.id.value[0], d["id"])
    if len(p.parts) != len(d["tokens"]):
        raise Fail("number_of_tokens", {"doc": k, "tokens": [t.token_id for t in p.parts]}, [t[0] for t in d["tokens"]])
    for j, (tok, (tid, v)) in enumerate(zip(p.parts, d["tokens"])):
        kind = group[tid][1]
        if tok.token_id != tid:
            raise Fail("token_id", {"doc": k, "token": j, "id": tok.token_id}, tid)
        if not _same_value(tok.value, py_value(kind, v)):
            raise Fail("token_value", {"doc": k, "token": j, "value": jsonable(tok.value)}, jsonable(py_value(kind, v)), klass=kind)
        if kind in ("attr_opaque", "attr_none"):
            want_attr = v[0] if kind == "attr_opaque" else v
            if _explicit_attrs(tok) != [["result-code", want_attr]]:
                raise Fail("attribute_value", {"doc": k, "token": j, "attributes": _explicit_attrs(tok)}, [["result-code", want_attr]], klass=kind)
    if d.get("table") is not None and bytes(p.constants_table) != bytes.fromhex(d["table"]):
        raise Fail("inline_constant_table", bytes(p.constants_table).hex(), d["table"])


def _check_reserialised(k, d, p, x: bytes):
    M = libs()[0]
    _, out = call(M.as_bytes, p)
    if bytes(out) != x:
        raise Fail("reserialised_bytes_identical", {"doc": k, "bytes": bytes(out).hex()}, x.hex(), klass=_first_diff_kind(d, bytes(out), x))


def _first_diff_kind(doc, out: bytes, x: bytes) -> str:
    """kind of the token in which the first differing octet lies (bucket label only)"""
    pos = next((i for i in range(min(len(out), len(x))) if out[i] != x[i]), min(len(out), len(x)))
    group = R.GROUPS[R.DOC_GROUP[doc["id"]]]
    off = len(R.uintvar(doc["id"]))
    body = x[off:]
    n, used = R.read_uintvar(body, 0)
    off += used
    if pos < off:
        return "document_length"
    if doc.get("table") is not None:
        t = bytes.fromhex(doc["table"])
        off += len(R.uintvar(len(t))) + len(t)
        if pos < off:
            return "constant_table"
    for tid, v in doc["tokens"]:
        kind = group[tid][1]
        off += 1 + len(R.value_bytes(kind, v))
        if pos < off:
            return kind
    return "end"


_documents_wrapped = attribute_to_c14(lambda case: case["docs"])


def oracle_documents(case):
    """case = {docs: [{id, table: hex|None, tokens: [[token id, value], ...]}, ...]}"""
    with tables_guard():
        _documents_wrapped(_documents_inner, case)


# The module's public mode switch: MBXML.DEBUG, set by from_bytes(data, debug=True) for the duration of a parse and left on
# when such a parse raises.  Diagnostics must not change results: the same document clauses with
#   debug_parse                  from_bytes(buffer, debug=True)
#   failed_debug_parse_first     from_bytes(<malformed>, debug=True) raised just before, then from_bytes(buffer, debug=True)
#   flag_on_while_serialising    MBXML.DEBUG = True while as_bytes runs
# (stdout is silenced by the harness; the flag is restored in a finally block so that cases stay independent).
DOC_MODES = ["debug_parse", "failed_debug_parse_first", "flag_on_while_serialising"]
MALFORMED = ["0705", "07022204", "0d0370", "0d046c8080", "ff", "0d0a6900000000000000008380", "07"]


def oracle_documents_modes(case):
    """case = {mode, k, docs: [...]}"""
    M = libs()[0]
    try:
        M.DEBUG = False
        try:
            oracle_documents(case)
        except Fail as f:
            raise Fail(f.clause + "__with_mode_flag", f.observed, f.expected, klass=case["mode"] + (":" + f.klass if f.klass else ""))
    finally:
        M.DEBUG = False


# ---------------------------------------------------------------------------------------------- oracle: lookup


def _attrs_arg(attrs):
    return {k: v for k, v in attrs}


def _lookup_build(case):
    """run the get_token calls; returns (doc, resolved) with resolved = [[token id, kind, json value, attr value|None]]"""
    M, LRRP, DocId, MBXMLToken = libs()
    did = case["doc_id"]
    grammar = R.GROUPS[R.DOC_GROUP[did]]
    doctype = DocId.resolve(did)
    _, doc = call(LRRP, doctype)
    if case.get("table") is not None:
        doc.constants_table = bytes.fromhex(case["table"])
        doc.is_constant_table_default = False
    resolved = []
    for n, c in enumerate(case["calls"]):
        kind = c["kind"]
        value = py_value(kind, c["value"])
        if c.get("empty_bytes"):
            value = b""  # OPAQUE_I tokens without data (0x37 / 0x38): the repository's convention is value=b""
        status, tok = call(doc.get_token, c["key"], value, _attrs_arg(c["attrs"]), c["is_request"], allowed=(ModuleNotFoundError,))
        if c.get("invalid"):
            if status != "raised":
                raise Fail("unknown_lookup_raises_ModuleNotFoundError", _show(tok), "ModuleNotFoundError", klass=str(c["invalid"]))
            continue
        if status == "raised":
            raise Fail("valid_lookup_is_found", f"call {n}: {tok}", "a token", klass=kind)
        if isinstance(c["key"], int) and tok.token_id != c["key"]:
            raise Fail("lookup_by_id_returns_that_token", tok.token_id, c["key"])
        if isinstance(c["key"], str) and tok.name != c["key"]:
            raise Fail("lookup_by_name_returns_token_of_that_name", tok.name, c["key"])
        if tok.token_id not in grammar or grammar[tok.token_id][1] != kind:
            # by-name lookup resolved to a same-named token of another value kind: the generated value does not fit it
            return None, None
        if not _same_value(tok.value, value) and not (value is None and tok.value is None):
            raise Fail("lookup_token_carries_the_value", jsonable(tok.value), jsonable(value))
        doc.parts.append(tok)
        attr_val = c["value"][0] if kind == "attr_opaque" else c["value"] if kind == "attr_none" else None
        resolved.append([tok.token_id, kind, c["value"], attr_val])
    return doc, resolved


def _lookup_as_docs(case):
    """the equivalent 'documents' structure of a lookup case (for C14 attribution); tokens by requested kind"""
    toks = []
    for c in case["calls"]:
        if c.get("invalid"):
            continue
        tid = c["key"] if isinstance(c["key"], int) else c.get("tid")
        if tid is None:
            continue
        toks.append([tid, c["value"]])
    return [{"id": case["doc_id"], "table": case.get("table"), "tokens": toks}]


def _lookup_inner(case):
    M = libs()[0]
    doc, resolved = _lookup_build(case)
    _LAST["unresolved"] = doc is None
    if doc is None:
        return
    _, out = call(M.as_bytes, doc)
    _, parsed = bounded(M.from_bytes, bytes(out), clause="serialised_document_parses_back")
    if len(parsed) != 1:
        raise Fail("number_of_documents", len(parsed), 1)
    p = parsed[0]
    if p.id.value[0] != case["doc_id"]:
        raise Fail("document_id", p.id.value[0], case["doc_id"])
    want = [_show(t) for t in doc.parts]
    got = [_show(t) for t in p.parts]
    if [g[0] for g in got] != [w[0] for w in want]:
        raise Fail("parsed_token_ids_equal_assembled", [g[0] for g in got], [w[0] for w in want])
    for j, (t_got, t_want) in enumerate(zip(p.parts, doc.parts)):
        if not _same_value(t_got.value, t_want.value) and not (t_want.value in (None, b"") and t_got.value in (None, b"")):
            raise Fail("parsed_token_value_equals_assembled", {"token": j, "value": jsonable(t_got.value)}, jsonable(t_want.value), klass=resolved[j][1])
        if _explicit_attrs(t_got) != _explicit_attrs(t_want):
            raise Fail("parsed_attribute_values_equal_assembled", {"token": j, "attributes": _explicit_attrs(t_got)}, _explicit_attrs(t_want), klass=resolved[j][1])
    if case.get("table") is not None and bytes(p.constants_table) != bytes.fromhex(case["table"]):
        raise Fail("inline_constant_table", bytes(p.constants_table).hex(), case["table"])


_lookup_wrapped = attribute_to_c14(_lookup_as_docs)


def oracle_lookup(case):
    """case = {doc_id, table: hex|None, calls: [{key: id|name, tid, kind, value, attrs: [[id|name, int]], is_request, invalid?}]}"""
    with tables_guard():
        _lookup_wrapped(_lookup_inner, case)


# ---------------------------------------------------------------------------------------------- oracle: mutated / fuzz

RESERIALISE_REJECTIONS = (AssertionError, ValueError, OverflowError)


def oracle_bytes(case):
    """case = {data: hex}: parse terminates; if it parses, re-serialising raises nothing but documented range rejections"""
    M = libs()[0]
    data = bytes.fromhex(case["data"])
    with tables_guard():
        status, parsed = bounded(M.from_bytes, data, allowed=(Exception,))
        if status == "raised":
            _LAST["outcome"] = "rejected:" + type(parsed).__name__
            return
        _LAST["outcome"] = "parsed"
        for p in parsed:
            st_, out = call(M.as_bytes, p, allowed=RESERIALISE_REJECTIONS, clause="reserialising_parsed_document_raises_only_range_rejections")
            if st_ == "raised":
                _LAST["outcome"] = "parsed:reserialise_rejected:" + type(out).__name__


# ---------------------------------------------------------------------------------------------- strategies


def _strategies():
    from hypothesis import strategies as st
    from props.c14 import st_septet_value

    lengths = st.one_of(st.integers(0, 12), st.sampled_from([0, 1, 4, 126, 127, 128, 129, 200]), st.integers(0, 200))
    opaque = lengths.flatmap(lambda n: st.binary(min_size=n, max_size=n)).map(bytes.hex)
    b4 = st.binary(min_size=4, max_size=4).map(bytes.hex)
    uint = st_septet_value(U_MAX)
    frac = st.one_of(st.sampled_from([0, 1, 0x40, 0x7F]), st.integers(0, 127))
    ufl = st.tuples(uint, frac).map(list)
    sfl = st.tuples(st.booleans(), st_septet_value(S_MAX), frac).map(lambda t: [int(t[0] and (t[1] > 0 or t[2] > 0)), t[1], t[2]])
    values = {
        "none": st.none(),
        "opaque": opaque,
        "opaque1": st.binary(min_size=1, max_size=1).map(bytes.hex),
        "attr_opaque": st.tuples(uint, opaque).map(list),
        "attr_none": uint,
        "uintvar": uint,
        "uint8": st.integers(0, 255),
        "ufloat": ufl,
        "sfloat": sfl,
        "infotime": st.binary(min_size=5, max_size=5).map(bytes.hex),
        "point2d": st.tuples(b4, b4).map(list),
        "point3d": st.tuples(b4, b4, sfl).map(list),
        "circle2d": st.tuples(b4, b4, ufl).map(list),
    }
    lv_entry = st.binary(max_size=20).map(lambda b: bytes([len(b)]) + b)
    table = st.one_of(
        st.just(""),
        st.just(R.STANDARD_LRRP_TABLE.hex()),
        st.lists(lv_entry, min_size=1, max_size=12).map(lambda es: b"".join(es)).filter(lambda t: len(t) != 1).map(bytes.hex),
        st.sampled_from([126, 127, 128, 129]).flatmap(lambda n: st.binary(min_size=n - 1, max_size=n - 1).map(lambda b: (bytes([n - 1]) + b).hex())),
    )
    doc_ids = sorted(R.NCDT_IDS) + sorted(set(R.DOC_GROUP) - R.NCDT_IDS)  # shrinks towards ids without inline table

    @st.composite
    def doc(draw):
        did = draw(st.sampled_from(doc_ids))
        group = R.GROUPS[R.DOC_GROUP[did]]
        tids = sorted(group)
        n = draw(st.one_of(st.integers(0, 4), st.integers(0, 12)))
        toks = []
        for _ in range(n):
            tid = draw(st.sampled_from(tids))
            toks.append([tid, draw(values[group[tid][1]])])
        return {"id": did, "table": None if did in R.NCDT_IDS else draw(table), "tokens": toks}

    docs = st.sampled_from([1, 1, 1, 2, 2, 3]).flatmap(lambda n: st.lists(doc(), min_size=n, max_size=n)).map(lambda ds: {"docs": ds})

    # ---- lookup calls
    @st.composite
    def lookup_call(draw, group_name, is_request):
        grammar = R.GROUPS[group_name]
        tid = draw(st.sampled_from(sorted(grammar)))
        nm, kind = grammar[tid]
        value = draw(values[kind])
        by_name = draw(st.booleans()) and _name_first(group_name).get(nm) == tid
        attrs = []
        if kind in ("attr_opaque", "attr_none"):
            a = value[0] if kind == "attr_opaque" else value
            attrs = [[draw(st.sampled_from(["result-code", 0x22])), a]]
        elif tid == 0x38:
            attrs = draw(st.sampled_from([[], [[0x23, 0]]]))
            if attrs and draw(st.booleans()):
                by_name = True  # the repository's own convention: get_token("result", b"", {0x23: 0})
        elif tid in RET_INFO_ATTRS and group_name == "request":
            attrs = draw(st.sampled_from(RET_INFO_ATTRS[tid]))
        c = {"key": nm if by_name else tid, "tid": tid, "kind": kind, "value": value, "attrs": attrs, "is_request": is_request}
        if tid in (0x37, 0x38):
            c["empty_bytes"] = True
        return c

    invalid_call = st.sampled_from(
        [
            {"key": "nonexistant", "tid": None, "kind": "none", "value": None, "attrs": [], "invalid": "unknown_name"},
            {"key": 0x7E, "tid": None, "kind": "none", "value": None, "attrs": [], "invalid": "unknown_id"},
            {"key": 0x22, "tid": None, "kind": "opaque", "value": "00", "attrs": [["no-such-attribute", 1]], "invalid": "unknown_attribute"},
            {"key": 0x22, "tid": None, "kind": "opaque", "value": "00", "attrs": [[0x22, 1]], "invalid": "attribute_of_other_token"},
        ]
    )

    @st.composite
    def lookup(draw):
        did = draw(st.sampled_from(doc_ids))
        group_name = R.DOC_GROUP[did]
        is_request = group_name != "report"
        n = draw(st.one_of(st.integers(0, 3), st.integers(0, 8)))
        calls = []
        for _ in range(n):
            if draw(st.integers(0, 19)) == 0:
                calls.append(dict(draw(invalid_call), is_request=is_request))
            else:
                calls.append(draw(lookup_call(group_name, is_request)))
        return {"doc_id": did, "table": None if did in R.NCDT_IDS else draw(table), "calls": calls}

    # ---- damaged buffers
    @st.composite
    def mutated(draw):
        base = bytearray(R.buffer_bytes(draw(docs)["docs"]))
        n_mut = draw(st.integers(1, 3))
        for _ in range(n_mut):
            op = draw(st.sampled_from(["truncate", "substitute", "insert", "delete", "length", "append"]))
            if op == "truncate" and base:
                del base[draw(st.integers(0, len(base) - 1)) :]
            elif op == "substitute" and base:
                base[draw(st.integers(0, len(base) - 1))] = draw(st.one_of(st.sampled_from([0, 1, 0x7F, 0x80, 0xFF, 0x22, 0x39]), st.integers(0, 255)))
            elif op == "insert":
                pos = draw(st.integers(0, len(base)))
                base[pos:pos] = draw(st.binary(min_size=1, max_size=4))
            elif op == "delete" and base:
                pos = draw(st.integers(0, len(base) - 1))
                del base[pos : pos + draw(st.integers(1, 3))]
            elif op == "length" and len(base) >= 2:
                base[1] = draw(st.sampled_from([0, 1, 2, 0x7F, 0x80, 0xFF, max(0, base[1] - 1), min(255, base[1] + 1)]))
            elif op == "append":
                base += draw(st.binary(min_size=1, max_size=6))
        return {"data": bytes(base).hex()}

    @st.composite
    def noncanonical(draw):
        """well-framed documents whose integers are written in non-canonical (padded) or out-of-range forms: they parse;
        re-serialising gives the canonical form or a documented range rejection"""
        d = draw(doc())
        group = R.GROUPS[R.DOC_GROUP[d["id"]]]
        body = b""
        if d["table"] is not None:
            t = bytes.fromhex(d["table"])
            body += R.uintvar(len(t)) + t
        for tid, v in d["tokens"]:
            kind = group[tid][1]
            vb = R.value_bytes(kind, v)
            how = draw(st.sampled_from(["keep", "pad", "over", "wide_fraction"]))
            if kind == "uintvar" and how == "pad":
                vb = b"\x80" * draw(st.integers(1, 3)) + vb
            elif kind == "uintvar" and how == "over":
                vb = R.uintvar(2**32 + v)
            elif kind == "opaque" and how == "pad":
                vb = b"\x80" + vb
            elif kind == "ufloat" and how == "wide_fraction":
                vb = R.uintvar(v[0]) + bytes([0x80 | v[1], draw(st.sampled_from([0, 0, 1, 0x7F]))])
            elif kind == "sfloat" and how == "pad":
                vb = bytes([0x80 | (0x40 if v[0] else 0)]) + R.uintvar_fixed(v[1], max(1, R.n_uint_septets(v[1]))) + bytes([v[2]])
            body += bytes([tid]) + vb
        return {"data": (R.uintvar(d["id"]) + R.uintvar(len(body)) + body).hex()}

    arbitrary = st.tuples(st.sampled_from(doc_ids + [0, 1, 0x16, 0x27, 0x28, 0x80]), st.binary(max_size=40)).map(lambda t: {"data": (bytes([t[0]]) + t[1]).hex()})
    return {"docs": docs, "doc": doc(), "values": values, "lookup": lookup(), "mutated": st.one_of(mutated(), mutated(), noncanonical(), arbitrary)}


# ---------------------------------------------------------------------------------------------- drivers


# ---------------------------------------------------------------------------------------------- deterministic boundary passes


def _name_first(group_name):
    """name -> first token id carrying it, in the library's lookup order (common, then group)"""
    order = list(R.COMMON.items()) + (list(R.REQUEST.items()) if group_name == "request" else list(R.REPORT.items()))
    first = {}
    for tid, (nm, kind) in order:
        first.setdefault(nm, tid)
    return first


RET_INFO_ATTRS = {0x50: [[], [[0x50, 0x49]], [["ret-info-accuracy", 0x49]]], 0x51: [[], [[0x51, 0x49], [0x54, 0x49]]], 0x52: [[], [[0x54, 0x49]], [["ret-info-time", 0x49]]], 0x53: [[]]}

LEN_EDGES = [0, 1, 127, 128, 129, 255, 256, 16383, 16384]
REPEATS = [2, 3, 4, 5, 6, 7, 8, 9, 10, 11, 12, 16, 17, 31, 32, 33, 64, 100, 128, 255, 256, 257, 300]
UINT_EDGES = [0, 1, 63, 64, 127, 128, 129, 255, 256, 8191, 8192, 16383, 16384, 16385, 2**21 - 1, 2**21, 2**28 - 1, 2**28, 2**31 - 1, 2**31, 2**32 - 1]
FILLER = [0x22, "2468ace0"]


def _hexpat(n: int, salt: int = 0) -> str:
    return bytes((salt + 11 * i) & 0xFF for i in range(n)).hex()


_P2D = [["00000000", "00000000"], ["7fffffff", "ffffffff"], ["118ecd8d", "118ad47b"], ["80000000", "10801080"], ["00000080", "80000000"]]
_UFL = [[0, 0], [0, 1], [0, 127], [63, 127], [64, 0], [127, 64], [128, 0], [129, 1], [8191, 127], [8192, 0], [16383, 64], [16384, 127], [2**21, 1], [2**28 - 1, 0], [2**32 - 1, 127]]
_SFL = [[0, 0, 0], [1, 0, 1], [1, 0, 127], [0, 63, 127], [1, 63, 0], [0, 64, 0], [1, 64, 1], [0, 127, 64], [1, 128, 0], [0, 8191, 127], [1, 8192, 0], [0, 8192, 1], [1, 16384, 64], [0, 2**20, 0],
        [1, 2**20 - 1, 127], [0, 2**27, 1], [1, 2**27 - 1, 0], [1, 2**31 - 1, 127], [0, 2**31 - 1, 0]]
BOUNDARY_VALUES = {
    "none": [None],
    "opaque": [_hexpat(n, n) for n in (0, 1, 4, 127, 128, 129, 255, 256)] + ["00", "80", "ff", "1080", "22", "0500"],
    "opaque1": ["00", "01", "22", "7f", "80", "ff", "05"],
    "attr_opaque": [[a, _hexpat(n, a & 0xFF)] for a, n in zip(UINT_EDGES, [0, 1, 3, 127, 128, 129, 255, 256, 0, 1, 2, 5, 127, 128, 0, 1, 2, 3, 128, 0, 4])],
    "attr_none": list(UINT_EDGES),
    "uintvar": list(UINT_EDGES),
    "uint8": [0, 1, 0x10, 0x22, 0x7F, 0x80, 0xFE, 0xFF],
    "ufloat": _UFL,
    "sfloat": _SFL,
    "infotime": ["0000000000", "1f4dbc7780", "ffffffffff", "8000000080", "0700000000", "2200222222"],
    "point2d": _P2D,
    "point3d": [p + [f] for p, f in zip(_P2D * 4, _SFL)],
    "circle2d": [p + [f] for p, f in zip(_P2D * 3, _UFL)],
}
_STD = R.STANDARD_LRRP_TABLE
BOUNDARY_TABLES = (
    ["", _STD.hex(), "0141", "00" * 2]
    + [(_STD[:k] + bytes([_STD[k] ^ 1]) + _STD[k + 1 :]).hex() for k in (0, 1, 40, len(_STD) - 1)]  # one octet different
    + [_STD[:k].hex() for k in (len(_STD) - 1, len(_STD) - 4, 5, 4, 12, 2)]  # proper prefixes (entry boundary / inside an entry)
    + [(_STD + b"\x00").hex(), (_STD + b"\x01A").hex(), (_STD + _STD).hex()]  # extensions
)
DOC_IDS = sorted(R.NCDT_IDS) + sorted(set(R.DOC_GROUP) - R.NCDT_IDS)


def _dedupe(cases):
    import json

    seen, out = set(), []
    for c, cls in cases:
        k = json.dumps(c, sort_keys=True)
        if k not in seen:
            seen.add(k)
            out.append((c, cls))
    return out


def _opaque_for_body(target: int):
    """tokens of the request group whose canonical body has exactly `target` octets: one inline opaque + 0..2 no-value tokens"""
    for k in (0, 1, 2):
        for lf in (1, 2, 3):
            n = target - 1 - lf - k
            if n >= 0 and len(R.uintvar(n)) == lf:
                return [[0x22, _hexpat(n, target)]] + [[0x33, None]] * k
    raise ValueError(target)


def boundary_document_cases():
    cases = []
    singles = []  # single documents of pass A, reused for the multi-document pass
    # A. every document id x every token it admits: as the only / first / last token, twice and three times in a row
    for di, did in enumerate(DOC_IDS):
        group = R.GROUPS[R.DOC_GROUP[did]]
        for ti, tid in enumerate(sorted(group)):
            kind = group[tid][1]
            vals = BOUNDARY_VALUES[kind]
            for pi, pos in enumerate(["only", "first", "last", "twice", "thrice"]):
                v = [vals[(di * 5 + pi + ti + j) % len(vals)] for j in range(3)]
                toks = {"only": [[tid, v[0]]], "first": [[tid, v[0]], FILLER], "last": [FILLER, [tid, v[0]]], "twice": [[tid, v[0]], [tid, v[1]]],
                        "thrice": [[tid, v[0]], [tid, v[1]], [tid, v[2]]]}[pos]
                d = {"id": did, "table": None if did in R.NCDT_IDS else BOUNDARY_TABLES[(di + ti + pi) % 4], "tokens": toks}
                singles.append(d)
                cases.append(({"docs": [d]}, f"position_{pos}"))
    # B. every boundary value of every kind (one id per group incl. one with inline table), alone and between two other tokens
    for did in (0x05, 0x07, 0x0B, 0x04, 0x06):
        group = R.GROUPS[R.DOC_GROUP[did]]
        for tid in sorted(group):
            kind = group[tid][1]
            for vi, v in enumerate(BOUNDARY_VALUES[kind]):
                table = None if did in R.NCDT_IDS else BOUNDARY_TABLES[vi % 2]
                cases.append(({"docs": [{"id": did, "table": table, "tokens": [[tid, v]]}]}, "value_alone"))
                cases.append(({"docs": [{"id": did, "table": table, "tokens": [FILLER, [tid, v], [0x23, "2f"]]}]}, "value_in_the_middle"))
    # C. lengths of every length-prefixed item: inline opaque, attribute + opaque, inline table
    for n in LEN_EDGES:
        for did in (0x05, 0x07, 0x0B, 0x04):
            table = None if did in R.NCDT_IDS else ""
            cases.append(({"docs": [{"id": did, "table": table, "tokens": [[0x22, _hexpat(n, 1)]]}]}, "opaque_length_edge"))
            cases.append(({"docs": [{"id": did, "table": table, "tokens": [[0x22, _hexpat(n, 2)], [0x23, "80"], [0x22, _hexpat(n, 3)]]}]}, "opaque_length_edge"))
        for did in (0x07, 0x06, 0x11):
            table = None if did in R.NCDT_IDS else _STD.hex()
            cases.append(({"docs": [{"id": did, "table": table, "tokens": [[0x39, [n, _hexpat(n, 4)]]]}]}, "attr_opaque_length_edge"))
            cases.append(({"docs": [{"id": did, "table": table, "tokens": [[0x37, n], [0x39, [128, _hexpat(n, 5)]], [0x38, None]]}]}, "attr_opaque_length_edge"))
        if n != 1:
            for did in (0x04, 0x06, 0x0A):
                cases.append(({"docs": [{"id": did, "table": _hexpat(n, 6), "tokens": []}]}, "table_length_edge"))
                cases.append(({"docs": [{"id": did, "table": _hexpat(n, 7), "tokens": [FILLER, [0x23, "00"]]}]}, "table_length_edge"))
    # D. document body lengths around the 1/2- and 2/3-septet borders of the length field
    for target in list(range(124, 133)) + list(range(16380, 16389)):
        toks = _opaque_for_body(target)
        cases.append(({"docs": [{"id": 0x05, "table": None, "tokens": toks}]}, "body_length_edge"))
        cases.append(({"docs": [{"id": 0x09, "table": None, "tokens": toks}, {"id": 0x0F, "table": None, "tokens": [FILLER]}]}, "body_length_edge_then_document"))
        cases.append(({"docs": [{"id": 0x0B, "table": None, "tokens": [FILLER]}, {"id": 0x14, "table": None, "tokens": toks}, {"id": 0x05, "table": None, "tokens": []}]}, "body_length_edge_between_documents"))
        # the same body length reached through an inline table
        for tl in range(max(0, target - 8), target):
            d = {"id": 0x04, "table": _hexpat(tl, 9), "tokens": [[0x33, None]]}
            if tl != 1 and len(R.document_bytes(d)) - 1 - len(R.uintvar(target)) == target:
                cases.append(({"docs": [d]}, "body_length_edge_with_table"))
                break
    # E. inline tables equal to / one octet different from / prefix of / longer than the standard table, for every id with inline table
    for di, did in enumerate(sorted(set(R.DOC_GROUP) - R.NCDT_IDS)):
        group = R.GROUPS[R.DOC_GROUP[did]]
        tids = sorted(group)
        for k, table in enumerate(BOUNDARY_TABLES):
            tid = tids[(di + k) % len(tids)]
            v = BOUNDARY_VALUES[group[tid][1]][k % len(BOUNDARY_VALUES[group[tid][1]])]
            cases.append(({"docs": [{"id": did, "table": table, "tokens": [FILLER, [tid, v]]}]}, "table_variant"))
            cases.append(({"docs": [{"id": did, "table": table, "tokens": []}, {"id": did, "table": BOUNDARY_TABLES[(k + 1) % len(BOUNDARY_TABLES)], "tokens": [[tid, v]]}]}, "table_variant_two_documents"))
    # G. long homogeneous runs: the same token N times in a row (one token per value kind)
    for did in (0x05, 0x07):
        group = R.GROUPS[R.DOC_GROUP[did]]
        seen_kinds = set()
        for tid in sorted(group):
            kind = group[tid][1]
            if kind in seen_kinds:
                continue
            seen_kinds.add(kind)
            vals = BOUNDARY_VALUES[kind]
            for n in REPEATS:
                cases.append(({"docs": [{"id": did, "table": None, "tokens": [[tid, vals[(n + j) % len(vals)] if j % 7 == 0 else vals[n % len(vals)]] for j in range(n)]}]}, "same_token_n_times"))
    for n in REPEATS:
        cases.append(({"docs": [{"id": 0x0F, "table": None, "tokens": [FILLER]}] * 1 + [{"id": 0x05, "table": None, "tokens": [[0x33, None]] * n}] + [{"id": 0x0B, "table": None, "tokens": []}]}, "same_token_n_times"))
    # F. two and three documents per buffer, built from the pass-A documents (every id and token occurs in a non-first position)
    for i in range(0, len(singles) - 2, 2):
        cases.append(({"docs": [singles[i], singles[(i * 7 + 3) % len(singles)]]}, "two_documents"))
        if i % 6 == 0:
            cases.append(({"docs": [singles[(i * 5 + 1) % len(singles)], singles[i + 1], singles[(i * 11 + 2) % len(singles)]]}, "three_documents"))
    return _dedupe(cases)


def _call_for(group_name: str, tid: int, value, variant: int):
    """one valid lookup call for the token (by id; by name when that name resolves to this token), attributes as required"""
    nm, kind = R.GROUPS[group_name][tid]
    by_name = variant % 2 == 1 and _name_first(group_name).get(nm) == tid
    attrs = []
    if kind in ("attr_opaque", "attr_none"):
        attrs = [[["result-code", 0x22][(variant // 2) % 2], value[0] if kind == "attr_opaque" else value]]
    elif tid == 0x38:
        attrs = [[], [[0x23, 0]]][(variant // 2) % 2]
        if attrs and variant % 2 == 1:
            by_name = True
    elif tid in RET_INFO_ATTRS and group_name == "request":
        attrs = RET_INFO_ATTRS[tid][variant % len(RET_INFO_ATTRS[tid])]
    c = {"key": nm if by_name else tid, "tid": tid, "kind": kind, "value": value, "attrs": attrs, "is_request": group_name != "report"}
    if tid in (0x37, 0x38):
        c["empty_bytes"] = True
    return c


def boundary_lookup_cases():
    cases = []
    for di, did in enumerate(DOC_IDS):
        gname = R.DOC_GROUP[did]
        group = R.GROUPS[gname]
        for ti, tid in enumerate(sorted(group)):
            vals = BOUNDARY_VALUES[group[tid][1]]
            v = [vals[(di * 3 + ti + j) % len(vals)] for j in range(3)]
            table = None if did in R.NCDT_IDS else BOUNDARY_TABLES[(di + ti) % 4]
            for variant in range(4):
                cases.append(({"doc_id": did, "table": table, "calls": [_call_for(gname, tid, v[variant % 3], variant)]}, "single_call"))
            cases.append(({"doc_id": did, "table": table, "calls": [_call_for(gname, tid, v[j], j + di) for j in range(3)]}, "same_token_three_times"))
            cases.append(({"doc_id": did, "table": table, "calls": [_call_for(gname, 0x22, "2468ace0", di), _call_for(gname, tid, v[1], di + ti), _call_for(gname, 0x23, "2f", ti)]}, "between_other_tokens"))
    # every boundary value through the lookup API (one id per group)
    for did in (0x05, 0x07, 0x0B, 0x06):
        gname = R.DOC_GROUP[did]
        group = R.GROUPS[gname]
        for tid in sorted(group):
            for vi, v in enumerate(BOUNDARY_VALUES[group[tid][1]]):
                cases.append(({"doc_id": did, "table": None if did in R.NCDT_IDS else "", "calls": [_call_for(gname, tid, v, vi)]}, "value_edge"))
    # long homogeneous runs: the same lookup N times in a row (one token per value kind)
    for did in (0x05, 0x07):
        gname = R.DOC_GROUP[did]
        group = R.GROUPS[gname]
        seen_kinds = set()
        for tid in sorted(group):
            kind = group[tid][1]
            if kind in seen_kinds:
                continue
            seen_kinds.add(kind)
            vals = BOUNDARY_VALUES[kind]
            for n in REPEATS:
                cases.append(({"doc_id": did, "table": None, "calls": [_call_for(gname, tid, vals[n % len(vals)], n)] * n}, "same_call_n_times"))
    for n in LEN_EDGES:
        for did in (0x05, 0x07, 0x0A):
            gname = R.DOC_GROUP[did]
            cases.append(({"doc_id": did, "table": None if did in R.NCDT_IDS else _STD.hex(), "calls": [_call_for(gname, 0x22, _hexpat(n, 8), n), _call_for(gname, 0x23, "10", n)]}, "opaque_length_edge"))
        cases.append(({"doc_id": 0x0D, "table": None, "calls": [_call_for("report", 0x39, [n, _hexpat(n, 9)], n), _call_for("report", 0x37, n, n + 1)]}, "attr_opaque_length_edge"))
    return _dedupe(cases)


def _run_boundary(ctx: Ctx, sub: SubCheck, oracle, cases, nontrivial):
    def work(ch, t: Tally):
        for c, cls in ch:
            ctx.run_case(sub.name, oracle, c, t)
            t.case(sub.name, nontrivial=nontrivial(c), cls="boundary:" + cls)  # distinct by construction (de-duplicated list)
            if len(str(c)) < 400:
                t.sample(sub.name, c)

    ctx.shards(work, [cases[i::32] for i in range(32)])
    ctx.tally.extra.setdefault("deterministic_boundary_cases", {})[sub.name] = len(cases)


def _doc_classes(case):
    ds = case["docs"]
    cl = [f"docs_{len(ds)}"]
    ntok = sum(len(d["tokens"]) for d in ds)
    cl.append("tokens_0" if ntok == 0 else "tokens_1" if ntok == 1 else "tokens_2-5" if ntok <= 5 else "tokens_6+")
    if any(d.get("table") is not None for d in ds):
        cl.append("inline_table")
    if any(len(R.document_bytes(d)) >= 130 for d in ds):
        cl.append("body_ge_128")
    kinds = set()
    for d in ds:
        g = R.GROUPS[R.DOC_GROUP[d["id"]]]
        for tid, v in d["tokens"]:
            kinds.add(g[tid][1])
            if g[tid][1] in ("opaque", "attr_opaque"):
                h = v if g[tid][1] == "opaque" else v[1]
                if len(h) // 2 >= 128:
                    cl.append("opaque_ge_128")
                if len(h) == 0:
                    cl.append("opaque_empty")
    cl.extend("kind_" + k for k in sorted(kinds))
    return sorted(set(cl))


def _doc_nontrivial(case):
    ds = case["docs"]
    return len(ds) >= 2 or sum(len(d["tokens"]) for d in ds) >= 2 or any(d.get("table") is not None for d in ds)


def drv_documents(ctx: Ctx, sub: SubCheck):
    cases = boundary_document_cases()
    _run_boundary(ctx, sub, oracle_documents, cases, _doc_nontrivial)
    pairs = {(d["id"], t[0]) for c, _ in cases for d in c["docs"] for t in d["tokens"]}
    ctx.tally.extra["boundary_document_id_x_token_pairs"] = {"covered": len(pairs), "admitted": sum(len(R.GROUPS[g]) for g in R.DOC_GROUP.values())}
    S = _strategies()
    warm_hypothesis_constants()

    def rec(c, t: Tally):
        t.case(sub.name, key=c, nontrivial=_doc_nontrivial(c))
        for k in _doc_classes(c):
            t.cls(sub.name, k)

    def hyp(shard, t: Tally):
        ctx.hypothesis(sub.name, S["docs"], oracle_documents, ctx.pick(1100, 6000), tally=t, shard=shard, record=rec)

    ctx.shards(hyp, list(range(ctx.pick(16, 80))))


def drv_documents_modes(ctx: Ctx, sub: SubCheck):
    base = boundary_document_cases()
    cases = [(dict(c, mode=DOC_MODES[i % 3], k=i), cls + ":" + DOC_MODES[i % 3]) for i, (c, cls) in enumerate(base)]
    # documents that carry floats: all three modes (diagnostics of the number readers)
    for i, (c, cls) in enumerate(base):
        kinds = {R.GROUPS[R.DOC_GROUP[d["id"]]][t[0]][1] for d in c["docs"] for t in d["tokens"]}
        if kinds & {"ufloat", "sfloat", "point3d", "circle2d"}:
            for m in DOC_MODES:
                if m != DOC_MODES[i % 3]:
                    cases.append((dict(c, mode=m, k=i), cls + ":" + m))
    _run_boundary(ctx, sub, oracle_documents_modes, cases, _doc_nontrivial)
    S = _strategies()
    from hypothesis import strategies as st

    strat = st.tuples(S["docs"], st.sampled_from(DOC_MODES), st.integers(0, 20)).map(lambda t: dict(t[0], mode=t[1], k=t[2]))

    def rec(c, t: Tally):
        t.case(sub.name, key=c, nontrivial=_doc_nontrivial(c), cls="random:" + c["mode"])

    def hyp(shard, t: Tally):
        ctx.hypothesis(sub.name, strat, oracle_documents_modes, ctx.pick(250, 1500), tally=t, shard=shard, record=rec)

    warm_hypothesis_constants()
    ctx.shards(hyp, list(range(ctx.pick(16, 80))))


def drv_lookup(ctx: Ctx, sub: SubCheck):
    _run_boundary(ctx, sub, oracle_lookup, boundary_lookup_cases(), lambda c: len(c["calls"]) >= 2 or c.get("table") is not None)
    S = _strategies()
    warm_hypothesis_constants()

    def rec(c, t: Tally):
        unresolved = _LAST.get("unresolved", False)
        valid = [x for x in c["calls"] if not x.get("invalid")]
        t.case(sub.name, key=c, nontrivial=(not unresolved) and (len(valid) >= 2 or c.get("table") is not None))
        t.cls(sub.name, "unresolved_by_name" if unresolved else f"calls_{min(len(valid), 4)}{'+' if len(valid) >= 4 else ''}")
        if c.get("table") is not None:
            t.cls(sub.name, "inline_table")
        if any(x.get("invalid") for x in c["calls"]):
            t.cls(sub.name, "has_invalid_lookup")
        if any(isinstance(x["key"], str) and not x.get("invalid") for x in c["calls"]):
            t.cls(sub.name, "by_name")
        if any(x["attrs"] and not x.get("invalid") for x in c["calls"]):
            t.cls(sub.name, "with_attributes")
        for k in sorted({x["kind"] for x in valid}):
            t.cls(sub.name, "kind_" + k)

    def hyp(shard, t: Tally):
        ctx.hypothesis(sub.name, S["lookup"], oracle_lookup, ctx.pick(500, 900), tally=t, shard=shard, record=rec)

    ctx.shards(hyp, list(range(ctx.pick(16, 80))))


def _rec_bytes(sub_name):
    def rec(c, t: Tally):
        outcome = _LAST.get("outcome", "?")
        t.case(sub_name, key=c, nontrivial=(outcome.startswith("parsed") or outcome in ("rejected:IndexError", "rejected:KeyError", "rejected:ValueError")) and len(c["data"]) > 4)
        t.cls(sub_name, outcome)

    return rec


def drv_mutated(ctx: Ctx, sub: SubCheck):
    S = _strategies()
    warm_hypothesis_constants()

    def hyp(shard, t: Tally):
        ctx.hypothesis(sub.name, S["mutated"], oracle_bytes, ctx.pick(800, 3500), tally=t, shard=shard, record=_rec_bytes(sub.name))

    ctx.shards(hyp, list(range(ctx.pick(16, 80))))


# ---------------------------------------------------------------------------------------------- families / batches (round 7)
#
# The LRRP element ids are not unique: the request family and the answer / report family give different meanings - and
# different wire types - to the same id (0x56 request-altitude-acc UFLOATVAR / direction-hor UINT8, 0x34 periodic-trigger /
# info-time, 0x51 ret-info / circle-2d, 0x66 require-altitude / point-2d, 0x69 require-direction-hor / point-3d).  A
# process that serves both directions of the protocol parses and writes both.  State keyed on the element id (and value)
# without the family / token type - a memo of serialised numbers, a cached token configuration - only shows when THE SAME ID
# WITH AN EQUAL VALUE (5 == 5.0) went through the other family first.  Likewise for near twins inside one family (same
# tokens under another document id, with the table inline instead of implied, one value changed) and for documents kept
# after parsing and serialised later.
#   prelude_for   the case's documents re-typed into the other family (same ids, numerically equal values), under sibling
#                 document ids, through the lookup API of the other family, damaged (rightly refused), with debug=True
#   batches       (sub-check) steps {docs} (the clauses of 'documents' on one buffer; the parsed documents are KEPT) /
#                 {lookup} (the clauses of 'lookup') / {x, a} (stimulus); finally every kept document is judged again
#                 (token values, bytes).  Judged in a process of its own (vp/isolate.py).

SHARED_IDS = sorted(set(R.REQUEST) & set(R.REPORT))
_NUMERIC = {"uintvar", "uint8", "ufloat", "sfloat", "attr_none"}


def _number_of(kind, v):
    """integer part of a numeric token value (None for the other kinds)"""
    if kind in ("uintvar", "uint8", "attr_none"):
        return v
    if kind == "ufloat":
        return v[0]
    if kind == "sfloat":
        return v[1]
    if kind == "attr_opaque":
        return v[0]
    if kind == "point3d":
        return v[2][1]
    if kind == "circle2d":
        return v[2][0]
    return None


def convert_value(kind_from, v, kind_to, k=0):
    """the value of a token re-typed to kind_to: numerically equal where both kinds are numeric and the number fits, else a
    boundary value of kind_to"""
    if kind_from == kind_to:
        return v
    n = _number_of(kind_from, v)
    if n is not None:
        if kind_to == "uint8":
            return n % 256
        if kind_to in ("uintvar", "attr_none"):
            return n
        if kind_to == "ufloat":
            return [n, 0]
        if kind_to == "sfloat":
            return [0, n & S_MAX, 0]
    vals = BOUNDARY_VALUES[kind_to]
    return vals[k % len(vals)]


def other_family_twin(d, k=0):
    """the document re-typed into the other family: every token whose id the other family admits, with the converted value"""
    g_from = R.DOC_GROUP[d["id"]]
    g_to = {"request": "report", "report": "request"}.get(g_from, ["request", "report"][k % 2])
    ids = sorted(i for i, g in R.DOC_GROUP.items() if g == g_to)
    did = ids[k % len(ids)]
    gf, gt = R.GROUPS[g_from], R.GROUPS[g_to]
    toks = [[tid, convert_value(gf[tid][1], v, gt[tid][1], k + j)] for j, (tid, v) in enumerate(d["tokens"]) if tid in gt]
    return {"id": did, "table": None if did in R.NCDT_IDS else (d.get("table") if d.get("table") is not None else ["", _STD.hex()][k % 2]), "tokens": toks}


def same_family_twins(d, k=0):
    """near twins inside the family: another document id (table implied / inline), one value changed, one token dropped / doubled"""
    g = R.DOC_GROUP[d["id"]]
    group = R.GROUPS[g]
    ids = sorted(i for i, gg in R.DOC_GROUP.items() if gg == g and i != d["id"])
    out = []
    if ids:
        did = ids[k % len(ids)]
        out.append({"id": did, "table": None if did in R.NCDT_IDS else (d.get("table") if d.get("table") is not None else ["", _STD.hex()][k % 2]), "tokens": d["tokens"]})
    toks = d["tokens"]
    if toks:
        j = k % len(toks)
        tid, v = toks[j]
        kind = group[tid][1]
        vals = [x for x in BOUNDARY_VALUES[kind] if x != v]
        n = _number_of(kind, v)
        if kind in _NUMERIC and n is not None:
            near = [convert_value("uintvar", m, kind) for m in (n + 1, n - 1, n ^ 0x40, n * 128, n // 128) if 0 <= m <= (255 if kind == "uint8" else S_MAX)]
            if kind in ("ufloat", "sfloat"):
                near += [v[:-1] + [(v[-1] + 64) % 128]]
                if kind == "sfloat" and (v[1] or v[2]):
                    near.append([1 - v[0], v[1], v[2]])
            vals = [x for x in near if x != v] + vals
        if vals:
            out.append(dict(d, tokens=toks[:j] + [[tid, vals[(k // 2) % len(vals)]]] + toks[j + 1:]))
        out.append(dict(d, tokens=toks[:j] + toks[j + 1:]))
        out.append(dict(d, tokens=toks[:j] + [toks[j], toks[j]] + toks[j + 1:]))
    return out


def _op_roundtrip(a):
    """{hex, debug?}: parse a buffer, serialise / render / print every document"""
    M = libs()[0]
    try:
        for d in M.from_bytes(bytes.fromhex(a["hex"]), bool(a.get("debug", False))):
            M.as_bytes(d)
            d.as_xml()
            repr(d)
    finally:
        M.DEBUG = False


def _op_lookup(a):
    """a lookup case (see oracle_lookup): assemble through get_token and serialise"""
    M = libs()[0]
    doc, _ = _lookup_build(a)
    if doc is not None:
        M.as_bytes(doc)
        doc.as_xml()


PRELUDE_OPS = {"roundtrip": _op_roundtrip, "lookup": _op_lookup}


def _as_lookup(d, flip_request=False):
    """the lookup case that assembles document d token by token (by id)"""
    gname = R.DOC_GROUP[d["id"]]
    calls = []
    for n, (tid, v) in enumerate(d["tokens"]):
        c = _call_for(gname, tid, v, n)
        if flip_request:
            c = dict(c, is_request=not c["is_request"])
        calls.append(c)
    return {"doc_id": d["id"], "table": d.get("table"), "calls": calls}


def sibling_calls_for_docs(docs, rng):
    calls = []
    for d in docs[:3]:
        k = rng.randrange(1000)
        tw = other_family_twin(d, k)
        calls.append({"x": "roundtrip", "a": {"hex": R.document_bytes(tw).hex()}})
        calls.append({"x": "roundtrip", "a": {"hex": (R.document_bytes(tw) + R.document_bytes(d)).hex(), "debug": bool(k % 2)}})
        calls.append({"x": "lookup", "a": _as_lookup(tw)})
        for t in same_family_twins(d, k)[:2]:
            calls.append({"x": "roundtrip", "a": {"hex": R.document_bytes(t).hex()}})
        # the lookup API of the wrong family on the same ids / values (mostly refused), and damaged images of the document
        calls.append({"x": "lookup", "a": _as_lookup(d, flip_request=True)})
        x = R.document_bytes(d)
        other = sorted(i for i, g in R.DOC_GROUP.items() if g != R.DOC_GROUP[d["id"]])
        calls.append({"x": "roundtrip", "a": {"hex": (bytes([other[k % len(other)]]) + x[1:]).hex()}})
        calls.append({"x": "roundtrip", "a": {"hex": x[: max(2, len(x) - 1 - k % 3)].hex(), "debug": True}})
    rng.shuffle(calls)
    return calls[:10]


def prelude_for(sub, case, rng):
    if sub in ("documents", "mode_flags"):
        return sibling_calls_for_docs(case["docs"], rng)
    if sub == "lookup":
        return sibling_calls_for_docs(_lookup_as_docs(case), rng)
    if sub in ("mutated", "atheris"):
        data = bytes.fromhex(case["data"])
        if not data:
            return []
        other = sorted(R.DOC_GROUP)
        return [{"x": "roundtrip", "a": {"hex": (bytes([other[rng.randrange(len(other))]]) + data[1:]).hex()}}, {"x": "roundtrip", "a": {"hex": data[:-1].hex(), "debug": True}},
                {"x": "roundtrip", "a": {"hex": (data + data).hex()}}]
    return []


def _batches_inner(case):
    M = libs()[0]
    kept = []  # (step, index in buffer, generated document, parsed document, its bytes)
    for n, st_ in enumerate(case["steps"]):
        if "x" in st_:
            try:
                PRELUDE_OPS[st_["x"]](st_["a"])
            except _Timeout:
                raise
            except Exception:
                pass  # stimulus only
            finally:
                M.DEBUG = False
        elif "lookup" in st_:
            try:
                _lookup_inner(st_["lookup"])
            except Fail as f:
                raise Fail(f.clause + "__in_batch", {"step": n, "observed": f.observed}, f.expected, klass="lookup" + (":" + f.klass if f.klass else ""))
        else:
            try:
                parsed, parts = _documents_inner(st_)
            except Fail as f:
                raise Fail(f.clause + "__in_batch", {"step": n, "observed": f.observed}, f.expected, klass="documents" + (":" + f.klass if f.klass else ""))
            kept += [(n, k, d, p_, x) for k, (d, p_, x) in enumerate(zip(st_["docs"], parsed, parts))]
    order = [kept[i % len(kept)] for i in case.get("again", [])] + kept if kept else []
    for n, k, d, p_, x in order:
        try:
            _check_parsed_doc(k, d, p_)
            _check_reserialised(k, d, p_, x)
        except Fail as f:
            raise Fail("kept_document_" + f.clause, {"step": n, "observed": f.observed}, f.expected, klass=f.klass)


def _batch_docs(case):
    return [d for st_ in case["steps"] if "docs" in st_ for d in st_["docs"]] + [d for st_ in case["steps"] if "lookup" in st_ for d in _lookup_as_docs(st_["lookup"])]


_batches_wrapped = attribute_to_c14(_batch_docs)


def _oracle_batches(case):
    """case = {steps: [{docs: [...]} | {lookup: {...}} | {x, a}, ...], again: [indices into the kept documents]}"""
    with tables_guard():
        _batches_wrapped(_batches_inner, case)


def _warm_batches():
    libs()
    with tables_guard():
        pass


from vp.isolate import isolated  # noqa: E402

oracle_batches = isolated(_oracle_batches, warm=_warm_batches)


def _req(tokens, k=0):
    ids = [0x05, 0x09, 0x0F, 0x14, 0x04, 0x08, 0x0E]
    did = ids[k % len(ids)]
    return {"id": did, "table": None if did in R.NCDT_IDS else ["", _STD.hex()][k % 2], "tokens": tokens}


def _rep(tokens, k=0):
    ids = [0x07, 0x0D, 0x11, 0x13, 0x15, 0x06, 0x0C, 0x10, 0x12]
    did = ids[k % len(ids)]
    return {"id": did, "table": None if did in R.NCDT_IDS else ["", _STD.hex()][k % 2], "tokens": tokens}


def _arrangements(x, y, k):
    """the ways two documents meet in one process: two buffers (both orders), one buffer (both orders), X Y X"""
    k %= 9
    if k == 7:  # a rightly refused parse of the other document (truncated, debug=True) in between
        yb = R.document_bytes(y)
        return [{"docs": [x]}, {"x": "roundtrip", "a": {"hex": yb[: max(2, len(yb) - 1)].hex(), "debug": True}}, {"docs": [y]}, {"docs": [x]}]
    if k == 8:  # the lookup API of the wrong family on the other document's ids / values (mostly refused) in between
        return [{"docs": [y]}, {"x": "lookup", "a": _as_lookup(x, flip_request=True)}, {"docs": [x]}, {"x": "lookup", "a": _as_lookup(y, flip_request=True)}, {"docs": [y]}]
    return [
        [{"docs": [x]}, {"docs": [y]}], [{"docs": [y]}, {"docs": [x]}], [{"docs": [x, y]}], [{"docs": [y, x]}], [{"docs": [x]}, {"docs": [y]}, {"docs": [x]}],
        [{"docs": [x]}, {"lookup": _as_lookup(y)}, {"docs": [x]}], [{"lookup": _as_lookup(x)}, {"docs": [y]}, {"lookup": _as_lookup(x)}],
    ][k]


def batches_deterministic_cases():
    out = []
    i = 0
    # 0x56 in both families with equal numeric value: every uint8 (complete), every arrangement in turn
    for n in range(256):
        for r in range(2):
            i += 1
            x = _req([FILLER, [0x56, [n, 0]]] if i % 3 else [[0x56, [n, 0]]], i)
            y = _rep([[0x56, n], [0x23, "2f"]] if i % 2 else [[0x56, n]], i // 2)
            out.append(({"steps": _arrangements(x, y, i) if r == 0 else _arrangements(y, x, i + 3), "again": [0]}, "id_0x56_equal_number_in_both_families"))
    # same integer part, fraction not zero; neighbours; values above 255 (not equal: must be independent as well)
    for n in (0, 1, 63, 64, 127, 128, 200, 255):
        for f in (1, 64, 127):
            i += 1
            x, y = _req([[0x56, [n, f]]], i), _rep([[0x56, n]], i)
            out.append(({"steps": _arrangements(x, y, i), "again": [1, 0]}, "id_0x56_same_integer_part"))
    # every id the two families share x boundary values of both kinds x arrangements
    for tid in SHARED_IDS:
        kq, kp = R.REQUEST[tid][1], R.REPORT[tid][1]
        for a, vq in enumerate(BOUNDARY_VALUES[kq][:8]):
            for b, vp in enumerate(BOUNDARY_VALUES[kp][:8]):
                i += 1
                x, y = _req([[tid, vq], FILLER][:: 1 if i % 2 else -1], i), _rep([FILLER, [tid, vp]][:: 1 if i % 3 else -1], i)
                out.append(({"steps": _arrangements(x, y, i), "again": [i % 2]}, "shared_id_in_both_families"))
    # numeric tokens of one family against each other: equal numbers under different ids / kinds in one document and in two
    nums_q = [t for t in sorted(R.REQUEST) if R.REQUEST[t][1] in _NUMERIC]
    nums_p = [t for t in sorted(R.REPORT) if R.REPORT[t][1] in _NUMERIC]
    for n in (0, 1, 5, 63, 64, 100, 127, 128, 255, 256, 8192, 16383, 2**21, 2**31 - 1):
        for fam, ids, mk in (("request", nums_q, _req), ("report", nums_p, _rep)):
            g = R.GROUPS[fam]
            toks = [[t, convert_value("uintvar", n, g[t][1])] for t in ids if g[t][1] != "uint8" or n <= 255]
            i += 1
            out.append(({"steps": [{"docs": [mk(_rot(toks, i), i)]}, {"docs": [mk(_rot(toks, i + 1), i + 1)]}], "again": [0]}, "equal_number_under_every_numeric_id"))
            tw = other_family_twin(mk(toks, i), i)
            out.append(({"steps": _arrangements(mk(toks, i), tw, i), "again": [0]}, "equal_number_under_every_numeric_id"))
    # the boundary documents of pass A with their other-family twin and a same-family twin
    singles = [c["docs"][0] for c, cls in boundary_document_cases() if cls.startswith("position_")]
    for j, d in enumerate(singles[:: max(1, len(singles) // 300)]):
        i += 1
        tw = other_family_twin(d, i)
        out.append(({"steps": _arrangements(d, tw, i), "again": [0, 1]}, "boundary_document_and_other_family_twin"))
        sf = same_family_twins(d, i)
        if sf:
            out.append(({"steps": _arrangements(d, sf[i % len(sf)], i + 1), "again": [1]}, "boundary_document_and_same_family_twin"))
    return _dedupe(out)


def _rot(lst, k):
    k %= max(1, len(lst))
    return lst[k:] + lst[:k]


def _batches_strategy():
    from hypothesis import strategies as st

    S = _strategies()
    values = S["values"]

    @st.composite
    def shared(draw):
        """request and report documents over the shared ids with numerically aligned values"""
        n = draw(st.one_of(st.integers(0, 255), st.sampled_from([0, 1, 5, 64, 127, 128, 255])))
        f = draw(st.sampled_from([0, 0, 0, 1, 64]))
        tq, tp = [[0x56, [n, f]]], [[0x56, n]]
        for tid in draw(st.lists(st.sampled_from([t for t in SHARED_IDS if t != 0x56] + [0x22, 0x23]), max_size=3)):
            if tid in R.COMMON:
                v = draw(values[R.COMMON[tid][1]])
                tq.insert(draw(st.integers(0, len(tq))), [tid, v])
                tp.insert(draw(st.integers(0, len(tp))), [tid, v])
            else:
                tq.insert(draw(st.integers(0, len(tq))), [tid, draw(values[R.REQUEST[tid][1]])])
                tp.insert(draw(st.integers(0, len(tp))), [tid, draw(values[R.REPORT[tid][1]])])
        k = draw(st.integers(0, 62))
        x, y = _req(tq, k), _rep(tp, k // 7)
        if draw(st.booleans()):
            x, y = y, x
        return {"steps": _arrangements(x, y, draw(st.integers(0, 8))), "again": draw(st.lists(st.integers(0, 3), max_size=3))}

    @st.composite
    def twins(draw):
        d = draw(S["doc"])
        k = draw(st.integers(0, 999))
        cands = [other_family_twin(d, k)] + same_family_twins(d, k)
        docs = [d] + [cands[j % len(cands)] for j in draw(st.lists(st.integers(0, 5), min_size=1, max_size=2))]
        steps = []
        how = draw(st.sampled_from(["separate", "separate", "one_buffer", "xyx", "mixed"]))
        if how == "one_buffer":
            steps = [{"docs": list(draw(st.permutations(docs)))}]
        elif how == "xyx":
            steps = [{"docs": [docs[0]]}] + [{"docs": [t]} for t in docs[1:]] + [{"docs": [docs[0]]}]
        else:
            for t in draw(st.permutations(docs)):
                steps.append({"lookup": _as_lookup(t)} if how == "mixed" and draw(st.booleans()) and all(R.GROUPS[R.DOC_GROUP[t["id"]]][tid][1] not in ("point3d",) or True for tid, _ in t["tokens"]) else {"docs": [t]})
        if draw(st.integers(0, 4)) == 0:
            x = R.document_bytes(docs[-1])
            steps.insert(draw(st.integers(0, len(steps))), {"x": "roundtrip", "a": {"hex": x[: max(2, len(x) - 1)].hex(), "debug": True}})
        return {"steps": steps, "again": draw(st.lists(st.integers(0, 5), max_size=3))}

    return st.one_of(shared(), twins(), twins())


def _batch_classes(c):
    out = [f"steps_{min(len(c['steps']), 4)}"]
    fams = set()
    seen = {}
    hit = False
    for st_ in c["steps"]:
        ds = st_.get("docs") or (_lookup_as_docs(st_["lookup"]) if "lookup" in st_ else [])
        if "lookup" in st_:
            out.append("with_lookup_step")
        if "x" in st_:
            out.append("with_stimulus_step")
        if len(ds) >= 2:
            out.append("several_documents_in_one_buffer")
        for d in ds:
            fam = R.DOC_GROUP[d["id"]]
            fams.add(fam)
            g = R.GROUPS[fam]
            for tid, v in d["tokens"]:
                n = _number_of(g[tid][1], v) if g[tid][1] in _NUMERIC else None
                if n is not None and not (g[tid][1] in ("ufloat", "sfloat") and v[-1] != 0):
                    for (fam2, kind2) in seen.get((tid, n), ()):
                        if fam2 != fam and kind2 != g[tid][1]:
                            hit = True
                    seen.setdefault((tid, n), set()).add((fam, g[tid][1]))
    if len(fams) >= 2:
        out.append("both_families")
    if hit:
        out.append("same_id_equal_number_in_both_families")
    return sorted(set(out))


def _drv_batches(ctx: Ctx, sub: SubCheck):
    cases = batches_deterministic_cases()

    def work(ch, t: Tally):
        for c, cls in ch:
            ctx.run_case(sub.name, oracle_batches, c, t)
            t.case(sub.name, nontrivial=True, cls="deterministic:" + cls)
            for k in _batch_classes(c):
                t.cls(sub.name, k)
        if ch:
            t.sample(sub.name, ch[0][0])

    ctx.shards(work, [cases[i::32] for i in range(32)])
    ctx.tally.extra.setdefault("deterministic_boundary_cases", {})[sub.name] = len(cases)
    strat = _batches_strategy()

    def rec(c, t: Tally):
        t.case(sub.name, key=c, nontrivial=True)
        for k in _batch_classes(c):
            t.cls(sub.name, "random:" + k)

    warm_hypothesis_constants()
    ctx.shards(lambda i, t: ctx.hypothesis(sub.name, strat, oracle_batches, ctx.pick(100, 1000), tally=t, shard=i, record=rec), list(range(ctx.pick(16, 48))))


NO_PRELUDE = False  # read by vp.core (Ctx.prelude_enabled) at every case


def drv_batches(ctx: Ctx, sub: SubCheck):
    """The cases of this sub-check are judged by a judge server (vp/isolate.py) that the framework's preludes - which run in the
    calling process - cannot reach: judging a case "again after a prelude" would only repeat the first judgement.  The cases
    carry their own stimulus steps instead, so preludes are switched off while this sub-check runs."""
    global NO_PRELUDE
    NO_PRELUDE = True
    try:
        _drv_batches(ctx, sub)
    finally:
        NO_PRELUDE = False


def drv_atheris(ctx: Ctx, sub: SubCheck):
    """coverage-guided campaign in subprocesses (thorough tier); findings come back as inputs and are judged by oracle_bytes"""
    env = dict(os.environ)
    try:
        subprocess.run([sys.executable, "-c", "import atheris"], env=env, check=True, capture_output=True, timeout=120)
    except Exception:
        ctx.tally.notes.append("atheris not importable: coverage-guided campaign skipped (Hypothesis sub-checks only)")
        return
    runs = int(os.environ.get("VP_ATHERIS_RUNS", "400000"))
    max_time = int(os.environ.get("VP_ATHERIS_TIME", "240"))
    n_proc = 8
    S = _strategies()
    with tempfile.TemporaryDirectory(prefix="vp-c15-atheris-") as tmp:
        procs = []
        for k in range(n_proc):
            corpus = os.path.join(tmp, f"corpus{k}")
            os.makedirs(corpus)
            # seed corpus: captured messages + a few reference-built buffers (deterministic)
            rng = ctx.rng("atheris-corpus", k)
            seeds = [bytes.fromhex(h) for h in SEED_MESSAGES]
            for i, s in enumerate(seeds):
                with open(os.path.join(corpus, f"seed{i}"), "wb") as fh:
                    fh.write(s)
            with open(os.path.join(corpus, "seed_multi"), "wb") as fh:
                fh.write(seeds[rng.randrange(len(seeds))] + seeds[rng.randrange(len(seeds))])
            findings = os.path.join(tmp, f"findings{k}.txt")
            dict_path = os.path.join(tmp, "tokens.dict")
            with open(dict_path, "w") as fh:
                for tid in sorted(set(R.COMMON) | set(R.REQUEST) | set(R.REPORT) | set(R.DOC_GROUP)):
                    fh.write('"\\x%02x"\n' % tid)
            cmd = [sys.executable, os.path.join(VERIF_DIR, "vp", "c15_atheris.py"), f"-runs={runs}", f"-max_total_time={max_time}", "-timeout=0", f"-seed={ctx.seed * 100 + k + 1}",
                   "-max_len=300", f"-dict={dict_path}", f"-artifact_prefix={tmp}/art{k}-", corpus]
            e = dict(env, VP_ATHERIS_FINDINGS=findings)
            procs.append((subprocess.Popen(cmd, env=e, stdout=subprocess.DEVNULL, stderr=subprocess.PIPE, text=True), findings, corpus))
        total_execs, corp, cov = 0, 0, 0
        inputs = []
        for p, findings, corpus in procs:
            try:
                _, err = p.communicate(timeout=max_time + 300)
            except subprocess.TimeoutExpired:
                p.kill()
                _, err = p.communicate()
                ctx.tally.notes.append("atheris worker exceeded its wall budget and was stopped")
            import re as _re

            m = _re.findall(r"Done (\d+) runs", err or "")
            total_execs += int(m[-1]) if m else 0
            m = _re.findall(r"cov: (\d+) ft: (\d+) corp: (\d+)", err or "")
            if m:
                cov = max(cov, int(m[-1][0]))
                corp += int(m[-1][2])
            if os.path.exists(findings):
                with open(findings) as fh:
                    inputs.extend(line.split()[0] for line in fh if line.strip())
            # corpus entries are re-judged in-process (they are the inputs that reached new coverage)
            for fn in sorted(os.listdir(corpus)):
                with open(os.path.join(corpus, fn), "rb") as fh:
                    inputs.append(fh.read().hex())
            if p.returncode not in (0, None) and not os.path.exists(findings):
                ctx.tally.notes.append(f"atheris worker exit status {p.returncode}: {(err or '')[-300:]}")
        rec = _rec_bytes(sub.name)
        seen = set()
        for h in inputs:
            if h in seen:
                continue
            seen.add(h)
            case = {"data": h}
            ok = ctx.run_case(sub.name, oracle_bytes, case)
            if ok:
                rec(case, ctx.tally)
            else:
                ctx.tally.case(sub.name, cls="failing")
        ctx.tally.extra["atheris"] = {"execs": total_execs, "corpus_inputs_rejudged": len(seen), "corpus_size": corp, "cov_edges_max": cov, "processes": n_proc}
        # fuzzer executions are counted as evaluations of this sub-check (each ran the same oracle in the harness)
        ctx.tally.evaluations += total_execs
        ctx.tally.sub_evals[sub.name] += total_execs


SEED_MESSAGES = [
    "050822042468ACE05162",
    "040E05054150434f22042468ACE05362",
    "071A22042468ACE0341F4DBC778051118ECD8D118AD47B00636C0006",
    "070C22042468ACE0390503515355",
    "090922042468ACE034313C",
    "0D0F22042468ACE066118ECD8D118AD47B",
    "0F0622042468ACE0",
    "110722042468ACE038",
    "1315232F341F4AD07B2E66474326660A4D56E46B0B5620",
    "0d1a22047fffffff69486109950ad0ecd28338156c000856a270400a",
]

SUBCHECKS = [
    SubCheck("documents", oracle_documents, drv_documents, "canonical buffers of 1..3 documents parse to the generated ids/tokens/values and re-serialise to identical bytes"),
    SubCheck("mode_flags", oracle_documents_modes, drv_documents_modes, "the document clauses again inside from_bytes(debug=True), after a failed debug parse, and with MBXML.DEBUG on while serialising"),
    SubCheck("lookup", oracle_lookup, drv_lookup, "documents assembled via LRRP.get_token serialise to bytes that parse back to the same token ids, values and attribute values"),
    SubCheck("batches", oracle_batches, drv_batches, "several buffers / lookups in one process: the same element id with equal numeric value in both families (both orders, one buffer / two), near twins, kept documents serialised again at the end"),
    SubCheck("mutated", oracle_bytes, drv_mutated, "damaged/arbitrary buffers: parse terminates; if it parses, re-serialising raises only documented range rejections"),
    SubCheck("atheris", oracle_bytes, drv_atheris, "coverage-guided campaign (Atheris) on the 'mutated' oracle", tiers=("thorough",)),
]


# ---------------------------------------------------------------------------------------------- known-finding predicates


PREDICATES = {
    "c14_root_cause": lambda case, fail: fail.clause == "roundtrip_blocked_by_C14_codec_defect",
    "zero_length_opaque": lambda case, fail: fail.clause == "zero_length_opaque_keeps_its_length_octet",
}
