"""C07 — a generated data transmission is received back as the same payload, checks ok.

Pipeline under test (all library code): TransmissionGenerator.generate_full_data_transmission -> Burst.as_bytes ->
Burst.from_bytes -> Terminal.process_incoming_burst -> observer callbacks.  The harness computes the number of blocks / pad
octets itself (vp/refs/dmr_ref.py, written from the burst layouts) to build the DataHeader the generator API requires, and
an independent CRC-32 (GF(2) polynomial division, convention unit-checked against the three captured vectors of
test_crc32.py).
"""
from __future__ import annotations

import hashlib

from vp.core import Ctx, Fail, SubCheck, Tally, call
from vp.refs import dmr_ref

LEVEL = "exploration"
RULE = (
    "case = (rate in {1/2,3/4,1}, confirmed?, payload octets, number of preamble CSBKs 0..16, colour code 0..15, timeslot, "
    "header fields: LLIDs, group flag, SAP, F, S, N(S), FSN).  'lengths' sub-check: enumeration of payload lengths "
    "(quick: every length that needs 1..4 blocks plus cap(k)-1, cap(k), cap(k)+1 for k in {5,10,63,64,126,127} where "
    "cap(k) = k*per-4 is the largest payload of k blocks, capped at 1500 octets; thorough: every length 0..1500 that "
    "fits the 7-bit blocks-to-follow field) x 6 (rate, mode) slices with seeded payload bytes and rotating preamble "
    "counts.  'random' sub-check: Hypothesis draws of all fields, lengths weighted towards block boundaries, payload "
    "bytes random / all 0x00 / all 0xFF / hash-expanded.  'short_boundary_payloads' sub-check: deterministic enumeration "
    "with SAP UDP/IP header compression, payload lengths 0..12, octets {00,01,7F,80,81,FF} on two of the first six positions "
    "(positions (3,4): all 36 pairs x 2 fills; other position pairs: 3 sampled pairs), all 6 slices.  Distinct = (rate, mode, length, blocks, pad, preambles, colour "
    "code, payload digest); non-trivial = at least 2 data blocks, or confirmed, or pad > 0."
)
ASSUMPTIONS = [
    "the caller supplies a DataHeader whose blocks-to-follow and pad-octet count are consistent with the payload (the "
    "generator API asserts the pad count); the harness computes both from ETSI TS 102 361-1 table 8.1 arithmetic "
    "(vp/refs/dmr_ref.fragment), never from the library",
    "'confirmed' = DPF 'confirmed data' with the response-requested (A) bit set, 'unconfirmed' = DPF 'unconfirmed data' "
    "with A clear (the library keys the block layout on the A bit); mixed combinations are not generated",
    "payloads that need more than 127 blocks cannot be announced in the 7-bit blocks-to-follow field: not generated, "
    "counted under excluded_by_construction (rate 1/2 confirmed > 1266 octets)",
    "SAP values generated: short data, IP packet data, proprietary, ARP, TCP/IP and UDP/IP header compression (with the "
    "last one the receiver additionally decodes the payload as a compressed header for a diagnostic print - arbitrary "
    "payload bytes must not make that fail; DESIGN.md left this SAP to C08 while the crash was open, it is fixed now)",
    "CRC-32 reference: remainder of M(x)*x^32 mod 0x104C11DB7, zero initial value, no inversion, message = octet pairs "
    "swapped, MSB first, result stored least-significant octet first - derived from crc32.py's docstring/ETSI B.3.9 and "
    "confirmed on the 3 captured vectors of okdmr/tests/dmrlib/etsi/crc/test_crc32.py (computed with vp/refs/gf2.py, "
    "independently of the C05 check)",
    "'report a valid CRC-9' is read as the receiver's crc9_ok attribute of each confirmed block handed to the observer",
    "pad octets are only counted (announced pad = received octets - payload octets); their value enters the CRC-32 clause",
]

SAPS = ["ShortData", "IP_PacketData", "Proprietary", "ARP", "TCP_IP_compression", "UDP_IP_compression", "UDP_IP_compression"]
MAX_LEN = 1500


# ---------------------------------------------------------------------------------------------- payload description


def expand_payload(spec) -> bytes:
    """payload spec (plain JSON) -> bytes.  {"hex": ...} | {"fill": 0..255, "len": n} | {"prng": seed, "len": n}."""
    if "hex" in spec:
        return bytes.fromhex(spec["hex"])
    n = spec["len"]
    if "fill" in spec:
        return bytes([spec["fill"]]) * n
    out = b""
    i = 0
    while len(out) < n:
        out += hashlib.sha256(f"{spec['prng']}:{i}".encode()).digest()
        i += 1
    return out[:n]


def payload_kind(spec) -> str:
    return "explicit_bytes" if "hex" in spec else ("fill_%02x" % spec["fill"] if "fill" in spec else "hash_expanded")


# ---------------------------------------------------------------------------------------------- oracle


class _Recorder:
    """built lazily (needs the library's interface class)"""

    _cls = None

    @classmethod
    def make(cls):
        if cls._cls is None:
            from okdmr.dmrlib.transmission.transmission_observer_interface import TransmissionObserverInterface

            class Recorder(TransmissionObserverInterface):
                def __init__(self):
                    self.events = []

                def transmission_started(self, transmission_type):
                    self.events.append(("started", transmission_type))

                def data_transmission_ended(self, transmission_header, blocks):
                    self.events.append(("data_ended", transmission_header, list(blocks)))

                def voice_transmission_ended(self, voice_header, blocks):
                    self.events.append(("voice_ended", voice_header, list(blocks)))

            cls._cls = Recorder
        return cls._cls()


def _lib():
    from okdmr.dmrlib.etsi.layer2.burst import Burst
    from okdmr.dmrlib.etsi.layer2.elements.csbk_opcodes import CsbkOpcodes
    from okdmr.dmrlib.etsi.layer2.elements.data_packet_formats import DataPacketFormats
    from okdmr.dmrlib.etsi.layer2.elements.data_types import DataTypes
    from okdmr.dmrlib.etsi.layer2.elements.full_message_flag import FullMessageFlag
    from okdmr.dmrlib.etsi.layer2.elements.resynchronize_flag import ResynchronizeFlag
    from okdmr.dmrlib.etsi.layer2.elements.sap_identifier import SAPIdentifier
    from okdmr.dmrlib.etsi.layer2.pdu.csbk import CSBK
    from okdmr.dmrlib.etsi.layer2.pdu.data_header import DataHeader
    from okdmr.dmrlib.etsi.layer2.pdu.rate1_data import Rate1Data
    from okdmr.dmrlib.etsi.layer2.pdu.rate12_data import Rate12Data
    from okdmr.dmrlib.etsi.layer2.pdu.rate34_data import Rate34Data
    from okdmr.dmrlib.transmission.terminal import Terminal
    from okdmr.dmrlib.transmission.transmission_generator import TransmissionGenerator
    from okdmr.dmrlib.transmission.transmission_types import TransmissionTypes

    return locals()


def describe_events(events):
    out = []
    for e in events:
        if e[0] == "started":
            out.append(f"started({e[1].name})")
        else:
            out.append(f"{e[0]}({type(e[1]).__name__}, {len(e[2])} blocks)")
    return out


def oracle(case):
    L = _lib()
    rate, confirmed = case["rate"], bool(case["confirmed"])
    payload = expand_payload(case["payload"])
    n_pre = case["preambles"]
    n_ref, pad_ref = dmr_ref.fragment(len(payload), rate, confirmed)
    if n_ref > dmr_ref.MAX_BLOCKS_TO_FOLLOW:
        raise AssertionError("harness: case outside the header format (more than 127 blocks) must not be generated")
    rate_cls = {"1/2": L["Rate12Data"], "3/4": L["Rate34Data"], "1": L["Rate1Data"]}[rate]
    rate_dt = {"1/2": L["DataTypes"].Rate12Data, "3/4": L["DataTypes"].Rate34Data, "1": L["DataTypes"].Rate1Data}[rate]
    DPF = L["DataPacketFormats"]

    header = L["DataHeader"](
        dpf=DPF.DataPacketConfirmed if confirmed else DPF.DataPacketUnconfirmed,
        sap_identifier=L["SAPIdentifier"][case.get("sap", "IP_PacketData")],
        is_group=bool(case.get("group", False)),
        is_response_requested=confirmed,
        pad_octet_count=pad_ref,
        llid_destination=case.get("dst", 1),
        llid_source=case.get("src", 2),
        full_message_flag=L["FullMessageFlag"](case.get("full", 1)),
        blocks_to_follow=n_ref,
        resynchronize_flag=L["ResynchronizeFlag"](case.get("resync", 0)),
        send_sequence_number=case.get("ns", 0) if confirmed else 0,
        fragment_sequence_number=case.get("fsn", 8 if confirmed else 0),
    )

    # 1. generate
    _, bursts = call(
        L["TransmissionGenerator"].generate_full_data_transmission,
        packet_type=rate_cls,
        userdata=payload,
        data_header=header,
        csbk_count=n_pre,
        colour_code=case.get("cc", 1),
    )
    if len(bursts) != n_pre + 1 + n_ref:
        raise Fail("burst_count_equals_preambles_plus_header_plus_reference_blocks", len(bursts), n_pre + 1 + n_ref)

    # 2. serialise, parse
    raw = [call(b.as_bytes)[1] for b in bursts]
    for i, r in enumerate(raw):
        if not isinstance(r, bytes) or len(r) != 33:
            raise Fail("burst_serialises_to_33_octets", {"burst": i, "len": len(r)}, 33)
    parsed = [call(L["Burst"].from_bytes, r)[1] for r in raw]

    # 3. preamble count-down: every preamble announces the number of bursts that still follow it
    for i in range(n_pre):
        d = parsed[i].data
        if not isinstance(d, L["CSBK"]) or d.csbko != L["CsbkOpcodes"].PreambleCSBK:
            raise Fail("first_n_bursts_are_preamble_csbks", {"burst": i, "data": type(d).__name__}, "preamble CSBK")
        follow_last = len(parsed) - n_pre
        exp = follow_last + (n_pre - 1 - i)
        if d.blocks_to_follow != exp:
            raise Fail("preamble_countdown_ends_at_bursts_after_last_preamble", {"preamble": i, "blocks_to_follow": d.blocks_to_follow}, {"preamble": i, "blocks_to_follow": exp})
    hd = parsed[n_pre].data
    if not isinstance(hd, L["DataHeader"]):
        raise Fail("header_burst_follows_preambles", type(hd).__name__, "DataHeader")
    for i in range(n_pre + 1, len(parsed)):
        if parsed[i].data_type != rate_dt:
            raise Fail("data_bursts_carry_the_requested_rate", {"burst": i, "data_type": parsed[i].data_type.name}, rate_dt.name)

    # 4. receive
    rec = _Recorder.make()
    _, term = call(L["Terminal"], 2305, [rec])
    ts = case.get("ts", 1)
    for b in parsed:
        call(term.process_incoming_burst, b, ts)

    ev = rec.events
    TT = L["TransmissionTypes"]
    if len(ev) != 2 or ev[0][0] != "started" or ev[0][1] != TT.DataTransmission or ev[1][0] != "data_ended":
        raise Fail("exactly_one_started_and_one_data_ended", describe_events(ev), ["started(DataTransmission)", "data_ended(DataHeader, n blocks)"])
    _, h_rx, blocks = ev[1]
    if not isinstance(h_rx, L["DataHeader"]):
        raise Fail("data_ended_hands_over_the_data_header", type(h_rx).__name__, "DataHeader")
    rate_blocks = [b for b in blocks if isinstance(b, (L["Rate12Data"], L["Rate34Data"], L["Rate1Data"]))]
    if any(type(b) is not rate_cls for b in rate_blocks):
        raise Fail("data_blocks_have_the_requested_rate", sorted({type(b).__name__ for b in rate_blocks}), rate_cls.__name__)
    data = b"".join(b.data for b in rate_blocks)
    pad_announced = h_rx.pad_octet_count
    if data[: len(payload)] != payload or len(data) != len(payload) + pad_announced:
        raise Fail(
            "blocks_concatenate_to_payload_plus_announced_pad",
            {"octets": len(data), "payload_prefix_ok": data[: len(payload)] == payload, "announced_pad": pad_announced, "blocks": len(rate_blocks)},
            {"octets": len(payload) + pad_announced, "payload_prefix_ok": True, "reference_pad": pad_ref, "blocks": n_ref},
        )
    if not rate_blocks:
        raise Fail("at_least_one_data_block", 0, n_ref)
    last = rate_blocks[-1]
    crc_rx = (last.crc32 if isinstance(last.crc32, int) else int.from_bytes(last.crc32, "big")).to_bytes(4, "big")
    crc_ref = dmr_ref.crc32_wire(data)
    if crc_rx != crc_ref:
        raise Fail("trailing_crc32_matches_received_data", crc_rx.hex(), crc_ref.hex())
    if confirmed:
        bad = [i for i, b in enumerate(rate_blocks) if not b.crc9_ok]
        if bad:
            raise Fail("confirmed_blocks_report_valid_crc9", {"blocks_with_invalid_crc9": bad[:10], "n_invalid": len(bad), "n_blocks": len(rate_blocks)}, "all crc9_ok")


# ---------------------------------------------------------------------------------------------- tallying


def _bucket(n):
    return "1" if n == 1 else "2" if n == 2 else "3-10" if n <= 10 else "11-50" if n <= 50 else "51-126" if n <= 126 else "127"


def record(sub):
    def rec(case, t: Tally):
        payload = expand_payload(case["payload"])
        rate, conf = case["rate"], bool(case["confirmed"])
        n, pad = dmr_ref.fragment(len(payload), rate, conf)
        per = dmr_ref.octets_per_block(rate, conf)
        key = {"rate": rate, "confirmed": conf, "len": len(payload), "blocks": n, "pad": pad, "preambles": case["preambles"], "cc": case.get("cc", 1),
               "payload_digest": hashlib.blake2b(payload, digest_size=6).hexdigest()}
        t.case(sub, key=key, nontrivial=(n >= 2 or conf or pad > 0))
        t.cls(sub, f"rate_{rate}_{'confirmed' if conf else 'unconfirmed'}")
        t.cls(sub, f"blocks_{_bucket(n)}")
        t.cls(sub, "pad_0_exact_fit" if pad == 0 else "pad_max_one_over_boundary" if (pad == per - 1 and n > 1) else "pad_other")
        t.cls(sub, "preambles_" + ("0" if case["preambles"] == 0 else "1" if case["preambles"] == 1 else "16" if case["preambles"] == 16 else "2-15"))
        t.cls(sub, "payload_" + payload_kind(case["payload"]))
        if len(payload) == 0:
            t.cls(sub, "payload_empty")
        if len(payload) >= 1000:
            t.cls(sub, "payload_1000_or_more")

    return rec


# ---------------------------------------------------------------------------------------------- drivers

SLICES = [(r, c) for r in dmr_ref.RATES for c in (False, True)]
PRE_ROT = [0, 1, 3, 16, 2, 7]


def _lengths(ctx: Ctx, rate, conf):
    per = dmr_ref.octets_per_block(rate, conf)
    cap = lambda k: k * per - 4
    top = min(MAX_LEN, dmr_ref.max_payload(rate, conf))
    if ctx.quick:
        ls = set(range(0, cap(4) + 2))
        for k in (5, 10, 63, 64, 126, 127):
            ls.update((cap(k) - 1, cap(k), cap(k) + 1))
        ls.add(MAX_LEN)
    else:
        ls = set(range(0, MAX_LEN + 1))
    excluded = sorted(l for l in ls if top < l <= MAX_LEN)
    return sorted(l for l in ls if 0 <= l <= top), excluded


def drv_lengths(ctx: Ctx, sub: SubCheck):
    rng = ctx.rng("lengths")
    items = []
    n_excl = 0
    for si, (rate, conf) in enumerate(SLICES):
        ls, excluded = _lengths(ctx, rate, conf)
        n_excl += len(excluded)
        for j, l in enumerate(ls):
            fillsel = (j + si) % 5
            payload = {"prng": rng.getrandbits(32), "len": l} if fillsel < 3 else {"fill": 0x00 if fillsel == 3 else 0xFF, "len": l}
            items.append({
                "rate": rate, "confirmed": conf, "payload": payload, "preambles": PRE_ROT[(j + si) % len(PRE_ROT)], "cc": (j * 7 + si) % 16,
                "ts": 1 + (j % 2), "dst": 1 + rng.getrandbits(23), "src": 1 + rng.getrandbits(23), "group": bool(j % 3 == 0),
                "sap": SAPS[j % len(SAPS)], "full": j % 2, "resync": (j // 2) % 2, "ns": j % 8, "fsn": (8 + j % 8) if conf else 0,
            })
    # balance the shards: long payloads are ~100x more expensive than short ones
    items.sort(key=lambda c: -c["payload"]["len"])
    chunks = [items[i::64] for i in range(64)]
    rec = record(sub.name)

    def work(chunk, t: Tally):
        for case in chunk:
            if ctx.run_case(sub.name, oracle, case, t):
                rec(case, t)
            else:
                t.case(sub.name, cls="failing")

    ctx.shards(work, chunks)
    ctx.tally.excluded["length_needs_more_than_127_blocks_(7-bit_BTF)"] += n_excl
    if not ctx.quick:
        ctx.tally.notes.append("lengths: every payload length 0..1500 that fits the header format, for each of the 6 (rate, mode) slices (payload bytes and the other fields sampled)")


def _strategy():
    from hypothesis import strategies as st

    def lengths(rc):
        rate, conf = rc
        per = dmr_ref.octets_per_block(rate, conf)
        top = min(MAX_LEN, dmr_ref.max_payload(rate, conf))
        kmax = (top + 4) // per
        boundary = st.builds(lambda k, d: max(0, min(top, k * per - 4 + d)), st.one_of(st.integers(1, 6), st.integers(1, kmax)), st.sampled_from([-1, 0, 1]))
        return st.one_of(boundary, boundary, st.integers(0, min(200, top)), st.integers(0, top), st.sampled_from([0, 1, top]))

    def payload(n):
        return st.one_of(
            st.binary(min_size=n, max_size=n).map(lambda b: {"hex": b.hex()}) if n <= 96 else st.integers(0, 2**32 - 1).map(lambda s: {"prng": s, "len": n}),
            st.integers(0, 2**32 - 1).map(lambda s: {"prng": s, "len": n}),
            st.sampled_from([0x00, 0xFF, 0x80]).map(lambda f: {"fill": f, "len": n}),
        )

    def build(rc):
        rate, conf = rc
        return lengths(rc).flatmap(
            lambda n: st.fixed_dictionaries({
                "rate": st.just(rate), "confirmed": st.just(conf), "payload": payload(n),
                "preambles": st.one_of(st.integers(0, 16), st.sampled_from([0, 1, 16])),
                "cc": st.integers(0, 15), "ts": st.sampled_from([1, 2]),
                "dst": st.one_of(st.integers(1, 0xFFFFFF), st.sampled_from([1, 0xFFFFFF])), "src": st.one_of(st.integers(1, 0xFFFFFF), st.sampled_from([1, 0xFFFFFF])),
                "group": st.booleans(), "sap": st.sampled_from(SAPS), "full": st.integers(0, 1), "resync": st.integers(0, 1) if conf else st.just(0),
                "ns": st.integers(0, 7) if conf else st.just(0), "fsn": st.integers(0, 15),
            })
        )

    return build


def drv_random(ctx: Ctx, sub: SubCheck):
    build = _strategy()
    rec = record(sub.name)

    def hyp(shard, t: Tally):
        rc = SLICES[shard % len(SLICES)]
        ctx.hypothesis(sub.name, build(rc), oracle, ctx.pick(40, 200), tally=t, shard=shard, record=rec)

    ctx.shards(hyp, list(range(ctx.pick(30, 48))))


BOUNDARY_OCTETS = [0x00, 0x01, 0x7F, 0x80, 0x81, 0xFF]


def drv_short_boundary(ctx: Ctx, sub: SubCheck):
    """Directed: SAP UDP/IP header compression (the receiver decodes the payload as a compressed header), payload lengths
    0..12, first six octets from the boundary set on two positions at a time: positions (3,4) (SPID / DPID octets) over all
    36 value pairs x fills {00, FF}; every other position pair over 3 sampled value pairs.  Identical in both tiers."""
    rng = ctx.rng("short_boundary")
    value_pairs = [(a, b) for a in BOUNDARY_OCTETS for b in BOUNDARY_OCTETS]
    items = []
    k = 0
    for si, (rate, conf) in enumerate(SLICES):
        for n in range(0, 13):
            avail = min(n, 6)
            combos = []
            for p in range(avail):
                for q in range(p + 1, avail):
                    if (p, q) == (3, 4):
                        combos += [((p, q), v, f) for v in value_pairs for f in (0x00, 0xFF)]
                    else:
                        combos += [((p, q), v, (0x00, 0xFF, 0x80)[(p + q + j) % 3]) for j, v in enumerate(rng.sample(value_pairs, 3))]
            if avail < 2:
                combos = [((0, 0), (v, v), 0x00) for v in BOUNDARY_OCTETS[: 6 if n else 1]]
            for (p, q), (a, b), f in combos:
                k += 1
                payload = bytearray([f]) * n
                if n:
                    payload[p], payload[q] = a, b
                items.append({
                    "rate": rate, "confirmed": conf, "payload": {"hex": bytes(payload).hex()}, "preambles": k % 2, "cc": k % 16, "ts": 1 + (k // 2) % 2,
                    "dst": 1 + (k * 7919) % 0xFFFFFF, "src": 1 + (k * 104729) % 0xFFFFFF, "group": bool(k % 3 == 0), "sap": "UDP_IP_compression",
                    "full": k % 2, "resync": 0, "ns": k % 8 if conf else 0, "fsn": (8 + k % 8) if conf else 0,
                })
    chunks = [items[i::64] for i in range(64)]
    rec = record(sub.name)

    def work(chunk, t: Tally):
        for case in chunk:
            if ctx.run_case(sub.name, oracle, case, t):
                rec(case, t)
            else:
                t.case(sub.name, cls="failing")

    ctx.shards(work, chunks)
    ctx.tally.notes.append("short_boundary_payloads: directed enumeration, SAP UDP/IP compression, lengths 0..12, boundary octets {00,01,7F,80,81,FF} on two of the first six positions")


SUBCHECKS = [
    SubCheck("lengths", oracle, drv_lengths, "enumerated payload lengths (block boundaries; thorough: every length 0..1500) x 3 rates x 2 modes through generator -> bytes -> receiver"),
    SubCheck("short_boundary_payloads", oracle, drv_short_boundary, "directed: SAP UDP/IP compression, payload lengths 0..12, first six octets from {00,01,7F,80,81,FF} on two positions at a time ((3,4) complete) x 3 rates x 2 modes"),
    SubCheck("random", oracle, drv_random, "Hypothesis: all case fields drawn, lengths weighted to block boundaries"),
]
PREDICATES = {}
