"""C07 — a generated data transmission is received back as the same payload, checks ok.

Pipeline under test (all library code): TransmissionGenerator.generate_full_data_transmission -> Burst.as_bytes ->
Burst.from_bytes -> Terminal.process_incoming_burst -> observer callbacks.  The harness computes the number of blocks / pad
octets itself (vp/refs/dmr_ref.py, written from the burst layouts) to build the DataHeader the generator API requires, and
an independent CRC-32 (GF(2) polynomial division, convention unit-checked against the three captured vectors of
test_crc32.py).
"""
from __future__ import annotations

import hashlib

from vp.core import Ctx, Fail, SubCheck, Tally, call
from vp.refs import dmr_ref

LEVEL = "exploration"
RULE = (
    "case = (rate in {1/2,3/4,1}, confirmed?, payload octets, number of preamble CSBKs 0..16, colour code 0..15, timeslot, "
    "header fields: LLIDs, group flag, SAP, DPF, F, S, N(S), FSN).  'lengths': enumeration over the 6 (rate, mode) slices of "
    "every payload length that needs 1..8 blocks plus cap(k)-1, cap(k), cap(k)+1 for k in {1..12, 31..33, 62..65, 125..127} "
    "(cap(k) = k*per-4 = largest payload of k blocks; boundary lengths above 1500 octets are kept for rates 3/4 and 1) and "
    "length 1500, each with 0, 1, 2 and 16 preambles (quick: 2 only up to 40 blocks); thorough: additionally every length "
    "0..1500, and two payload variants for 0 and 1 preambles; payload bytes rotate hash-expanded / all 00 / all FF, other fields rotate.  "
    "'crc_extremes': payloads solved by GF(2) linearity (dmr_ref.force_crc32 / force_crc9_field) so that the packet CRC-32 is "
    "exactly 00000000, FFFFFFFF, 00000001 or 80000000 (11 lengths per slice incl. 5, 6, exact fits, pad > 0, 30 blocks) or "
    "that the CRC-9 field of one intermediate confirmed block is 000 or 1FF (2, 3, 6 blocks, every intermediate block in "
    "turn).  'header_fields': on a fixed 50-octet payload every header field over its complete range, one at a time (7 "
    "defined SAPs, FSN 0..15, N(S) 0..7, F, S, group, DPF independent of the A bit, colour code 0..15, timeslot, LLID "
    "extremes, preambles 0..16) plus the cross product DPF x F x S x group x {0,1} preambles, all 6 slices.  "
    "'structured_payloads': a short record repeated (period = each block size in use, i.e. identical adjacent non-constant "
    "blocks, and periods 1, 2, 3, 7) at 2, 3, 6 blocks, and the marker octets of the enclosing layers (the 10 SYNC words, the "
    "call's own data header, a preamble CSBK) placed at the start, at and across a block boundary, at offset 13 and at the "
    "end of a 4-block payload, all 6 slices.  'short_boundary_payloads': SAP UDP/IP header compression, payload lengths 0..12, octets {00,01,7F,80,81,FF} on two of "
    "the first six positions (positions (3,4): all 36 pairs x 2 fills; other position pairs: 3 sampled pairs), all 6 slices.  "
    "'random': Hypothesis draws of all fields, lengths 0..1500 weighted towards block boundaries, payload bytes random / all "
    "0x00 / all 0xFF / all 0x80 / hash-expanded.  'consecutive': sequences of 2-3 steps judged in order in one process - a "
    "transmission and a near-twin of it (equal after zero padding: trailing 00 octets within / beyond the pad, stripped; equal "
    "prefix: one octet shorter / longer, half, doubled; equal length: first / last octet differs, last octet zero, complemented; "
    "equal payload with another rate / mode / colour code / preamble count / header fields) in both orders and as base-twin-base, "
    "the same transmission two and three times, and a transmission after (and between) stimulus steps whose outcome is not "
    "judged: a call refused for a wrong pad octet count or a wrong user-data type, generate_data_bursts called directly (with "
    "and without the mode argument), generate_csbk_preambles / generate_data_header_burst / CRC32.calculate on the same datagram, "
    "the generated Burst objects fed to a terminal or altered by the caller; directed over 6 slices x 9 lengths (two all-zero "
    "datagrams) x all relations plus Hypothesis (lengths up to 300); every sequence is preceded by one fixed unrelated "
    "fragmentation; in half of the sequences all transmissions are received by one terminal (each must yield its own started / "
    "data ended pair), otherwise by a fresh terminal each.  Cases of all sub-checks that held are judged again (framework prelude) after near-twins of the case went "
    "through the generator (prelude_for).  Distinct = (rate, mode, length, blocks, pad, preambles, colour code, "
    "payload digest); non-trivial = at least 2 data blocks, or confirmed, or pad > 0."
)
ASSUMPTIONS = [
    "the caller supplies a DataHeader whose blocks-to-follow and pad-octet count are consistent with the payload (the "
    "generator API asserts the pad count); the harness computes both from ETSI TS 102 361-1 table 8.1 arithmetic "
    "(vp/refs/dmr_ref.fragment), never from the library",
    "'confirmed' mode = response-requested (A) bit set, 'unconfirmed' = A clear: the library (generator and receiver) keys the "
    "block layout on the A bit.  The DPF normally matches (confirmed data / unconfirmed data); the header_fields sub-check also "
    "runs the two mixed DPF/A combinations, which the generator API accepts",
    "payload lengths above 1500 octets (outside the property's quantifier) are generated only at the block-count boundaries "
    "k = 63..65, 125..127 of rates 3/4 and 1, where the binding limit is the 7-bit blocks-to-follow field; they are labelled "
    "length_above_1500 in the class histogram",
    "crc_extremes assumes the generator's data block serial number 0 for every block when it solves for a CRC-9 field value "
    "(observed behaviour; if that changes the construction merely stops hitting the extreme values, the oracle is unaffected)",
    "payloads that need more than 127 blocks cannot be announced in the 7-bit blocks-to-follow field: not generated, "
    "counted under excluded_by_construction (cap(127)+1 of every slice; rate 1/2 confirmed > 1266 octets)",
    "SAP values generated: short data, IP packet data, proprietary, ARP, TCP/IP and UDP/IP header compression (with the "
    "last one the receiver additionally decodes the payload as a compressed header for a diagnostic print - arbitrary "
    "payload bytes must not make that fail; DESIGN.md left this SAP to C08 while the crash was open, it is fixed now)",
    "CRC-32 reference: remainder of M(x)*x^32 mod 0x104C11DB7, zero initial value, no inversion, message = octet pairs "
    "swapped, MSB first, result stored least-significant octet first - derived from crc32.py's docstring/ETSI B.3.9 and "
    "confirmed on the 3 captured vectors of okdmr/tests/dmrlib/etsi/crc/test_crc32.py (computed with vp/refs/gf2.py, "
    "independently of the C05 check)",
    "'report a valid CRC-9' is read as the receiver's crc9_ok attribute of each confirmed block handed to the observer",
    "library surface the harness relies on (public API used by the repository's tests / named as the property's observation "
    "points; no tracker internals such as blocks_expected are read): TransmissionGenerator.generate_full_data_transmission, "
    "DataHeader(...), Burst.as_bytes / from_bytes / data / data_type, CSBK.csbko / blocks_to_follow, Terminal(dmrid, observers), "
    "Terminal.process_incoming_burst, the observer callbacks, DataHeader.pad_octet_count, rate block data / crc32 / crc9_ok",
    "consecutive: the statement quantifies over single transmissions; a process that generates one transmission after another "
    "(or calls generate_data_bursts first to learn the pad octet count, as generate_full_data_transmission's assert expects the "
    "caller to) is the normal use, so each transmission of a sequence must satisfy the statement on its own.  The Burst objects a "
    "generator call returns belong to the caller ('scribble' / 'feed_objects' stimuli alter them)",
    "pad octets are only counted (announced pad = received octets - payload octets); their value enters the CRC-32 clause",
]

SAPS = ["ShortData", "IP_PacketData", "Proprietary", "ARP", "TCP_IP_compression", "UDP_IP_compression", "UDP_IP_compression"]
MAX_LEN = 1500


# ---------------------------------------------------------------------------------------------- payload description


def expand_payload(spec) -> bytes:
    """payload spec (plain JSON) -> bytes.  {"hex": ...} | {"fill": 0..255, "len": n} | {"prng": seed, "len": n}."""
    if "hex" in spec:
        return bytes.fromhex(spec["hex"])
    n = spec["len"]
    if "fill" in spec:
        return bytes([spec["fill"]]) * n
    out = b""
    i = 0
    while len(out) < n:
        out += hashlib.sha256(f"{spec['prng']}:{i}".encode()).digest()
        i += 1
    return out[:n]


def payload_kind(spec) -> str:
    return "explicit_bytes" if "hex" in spec else ("fill_%02x" % spec["fill"] if "fill" in spec else "hash_expanded")


# ---------------------------------------------------------------------------------------------- oracle


class _Recorder:
    """built lazily (needs the library's interface class)"""

    _cls = None

    @classmethod
    def make(cls):
        if cls._cls is None:
            from okdmr.dmrlib.transmission.transmission_observer_interface import TransmissionObserverInterface

            class Recorder(TransmissionObserverInterface):
                def __init__(self):
                    self.events = []

                def transmission_started(self, transmission_type):
                    self.events.append(("started", transmission_type))

                def data_transmission_ended(self, transmission_header, blocks):
                    self.events.append(("data_ended", transmission_header, list(blocks)))

                def voice_transmission_ended(self, voice_header, blocks):
                    self.events.append(("voice_ended", voice_header, list(blocks)))

            cls._cls = Recorder
        return cls._cls()


def _lib():
    from okdmr.dmrlib.etsi.layer2.burst import Burst
    from okdmr.dmrlib.etsi.layer2.elements.csbk_opcodes import CsbkOpcodes
    from okdmr.dmrlib.etsi.layer2.elements.data_packet_formats import DataPacketFormats
    from okdmr.dmrlib.etsi.layer2.elements.data_types import DataTypes
    from okdmr.dmrlib.etsi.layer2.elements.full_message_flag import FullMessageFlag
    from okdmr.dmrlib.etsi.layer2.elements.resynchronize_flag import ResynchronizeFlag
    from okdmr.dmrlib.etsi.layer2.elements.sap_identifier import SAPIdentifier
    from okdmr.dmrlib.etsi.layer2.pdu.csbk import CSBK
    from okdmr.dmrlib.etsi.layer2.pdu.data_header import DataHeader
    from okdmr.dmrlib.etsi.layer2.pdu.rate1_data import Rate1Data
    from okdmr.dmrlib.etsi.layer2.pdu.rate12_data import Rate12Data
    from okdmr.dmrlib.etsi.layer2.pdu.rate34_data import Rate34Data
    from okdmr.dmrlib.transmission.terminal import Terminal
    from okdmr.dmrlib.transmission.transmission_generator import TransmissionGenerator
    from okdmr.dmrlib.transmission.transmission_types import TransmissionTypes

    return locals()


def describe_events(events):
    out = []
    for e in events:
        if e[0] == "started":
            out.append(f"started({e[1].name})")
        else:
            out.append(f"{e[0]}({type(e[1]).__name__}, {len(e[2])} blocks)")
    return out


def oracle(case, rx=None):
    """rx = (recorder, terminal) to receive on a terminal that lives longer than this case (sub-check 'consecutive'); the
    verdict then concerns the notifications delivered while this transmission was fed"""
    L = _lib()
    rate, confirmed = case["rate"], bool(case["confirmed"])
    payload = expand_payload(case["payload"])
    n_pre = case["preambles"]
    n_ref, pad_ref = dmr_ref.fragment(len(payload), rate, confirmed)
    if n_ref > dmr_ref.MAX_BLOCKS_TO_FOLLOW:
        raise AssertionError("harness: case outside the header format (more than 127 blocks) must not be generated")
    rate_cls = {"1/2": L["Rate12Data"], "3/4": L["Rate34Data"], "1": L["Rate1Data"]}[rate]
    rate_dt = {"1/2": L["DataTypes"].Rate12Data, "3/4": L["DataTypes"].Rate34Data, "1": L["DataTypes"].Rate1Data}[rate]
    DPF = L["DataPacketFormats"]

    header = L["DataHeader"](
        dpf=DPF.DataPacketConfirmed if {"confirmed": True, "unconfirmed": False}.get(case.get("dpf"), confirmed) else DPF.DataPacketUnconfirmed,
        sap_identifier=L["SAPIdentifier"][case.get("sap", "IP_PacketData")],
        is_group=bool(case.get("group", False)),
        is_response_requested=confirmed,
        pad_octet_count=pad_ref,
        llid_destination=case.get("dst", 1),
        llid_source=case.get("src", 2),
        full_message_flag=L["FullMessageFlag"](case.get("full", 1)),
        blocks_to_follow=n_ref,
        resynchronize_flag=L["ResynchronizeFlag"](case.get("resync", 0)),
        send_sequence_number=case.get("ns", 0) if confirmed else 0,
        fragment_sequence_number=case.get("fsn", 8 if confirmed else 0),
    )

    # 1. generate
    _, bursts = call(
        L["TransmissionGenerator"].generate_full_data_transmission,
        packet_type=rate_cls,
        userdata=payload,
        data_header=header,
        csbk_count=n_pre,
        colour_code=case.get("cc", 1),
    )
    if len(bursts) != n_pre + 1 + n_ref:
        raise Fail("burst_count_equals_preambles_plus_header_plus_reference_blocks", len(bursts), n_pre + 1 + n_ref)

    # 2. serialise, parse
    raw = [call(b.as_bytes)[1] for b in bursts]
    for i, r in enumerate(raw):
        if not isinstance(r, bytes) or len(r) != 33:
            raise Fail("burst_serialises_to_33_octets", {"burst": i, "len": len(r)}, 33)
    parsed = [call(L["Burst"].from_bytes, r)[1] for r in raw]

    # 3. preamble count-down: every preamble announces the number of bursts that still follow it
    for i in range(n_pre):
        d = parsed[i].data
        if not isinstance(d, L["CSBK"]) or d.csbko != L["CsbkOpcodes"].PreambleCSBK:
            raise Fail("first_n_bursts_are_preamble_csbks", {"burst": i, "data": type(d).__name__}, "preamble CSBK")
        follow_last = len(parsed) - n_pre
        exp = follow_last + (n_pre - 1 - i)
        if d.blocks_to_follow != exp:
            raise Fail("preamble_countdown_ends_at_bursts_after_last_preamble", {"preamble": i, "blocks_to_follow": d.blocks_to_follow}, {"preamble": i, "blocks_to_follow": exp})
    hd = parsed[n_pre].data
    if not isinstance(hd, L["DataHeader"]):
        raise Fail("header_burst_follows_preambles", type(hd).__name__, "DataHeader")
    for i in range(n_pre + 1, len(parsed)):
        if parsed[i].data_type != rate_dt:
            raise Fail("data_bursts_carry_the_requested_rate", {"burst": i, "data_type": parsed[i].data_type.name}, rate_dt.name)

    # 4. receive
    if rx is None:
        rec = _Recorder.make()
        _, term = call(L["Terminal"], 2305, [rec])
    else:
        rec, term = rx
    n_before = len(rec.events)
    ts = case.get("ts", 1)
    for b in parsed:
        call(term.process_incoming_burst, b, ts)

    ev = rec.events[n_before:]
    TT = L["TransmissionTypes"]
    if len(ev) != 2 or ev[0][0] != "started" or ev[0][1] != TT.DataTransmission or ev[1][0] != "data_ended":
        raise Fail("exactly_one_started_and_one_data_ended", describe_events(ev), ["started(DataTransmission)", "data_ended(DataHeader, n blocks)"])
    _, h_rx, blocks = ev[1]
    if not isinstance(h_rx, L["DataHeader"]):
        raise Fail("data_ended_hands_over_the_data_header", type(h_rx).__name__, "DataHeader")
    rate_blocks = [b for b in blocks if isinstance(b, (L["Rate12Data"], L["Rate34Data"], L["Rate1Data"]))]
    if any(type(b) is not rate_cls for b in rate_blocks):
        raise Fail("data_blocks_have_the_requested_rate", sorted({type(b).__name__ for b in rate_blocks}), rate_cls.__name__)
    data = b"".join(b.data for b in rate_blocks)
    pad_announced = h_rx.pad_octet_count
    if data[: len(payload)] != payload or len(data) != len(payload) + pad_announced:
        raise Fail(
            "blocks_concatenate_to_payload_plus_announced_pad",
            {"octets": len(data), "payload_prefix_ok": data[: len(payload)] == payload, "announced_pad": pad_announced, "blocks": len(rate_blocks)},
            {"octets": len(payload) + pad_announced, "payload_prefix_ok": True, "reference_pad": pad_ref, "blocks": n_ref},
        )
    if not rate_blocks:
        raise Fail("at_least_one_data_block", 0, n_ref)
    last = rate_blocks[-1]
    crc_rx = (last.crc32 if isinstance(last.crc32, int) else int.from_bytes(last.crc32, "big")).to_bytes(4, "big")
    crc_ref = dmr_ref.crc32_wire(data)
    if crc_rx != crc_ref:
        raise Fail("trailing_crc32_matches_received_data", crc_rx.hex(), crc_ref.hex())
    if confirmed:
        bad = [i for i, b in enumerate(rate_blocks) if not b.crc9_ok]
        if bad:
            raise Fail("confirmed_blocks_report_valid_crc9", {"blocks_with_invalid_crc9": bad[:10], "n_invalid": len(bad), "n_blocks": len(rate_blocks)}, "all crc9_ok")


# ---------------------------------------------------------------------------------------------- tallying


def _bucket(n):
    return "1" if n == 1 else "2" if n == 2 else "3-10" if n <= 10 else "11-50" if n <= 50 else "51-126" if n <= 126 else "127"


def record(sub):
    def rec(case, t: Tally):
        payload = expand_payload(case["payload"])
        rate, conf = case["rate"], bool(case["confirmed"])
        n, pad = dmr_ref.fragment(len(payload), rate, conf)
        per = dmr_ref.octets_per_block(rate, conf)
        key = {"rate": rate, "confirmed": conf, "len": len(payload), "blocks": n, "pad": pad, "preambles": case["preambles"], "cc": case.get("cc", 1),
               "payload_digest": hashlib.blake2b(payload, digest_size=6).hexdigest()}
        t.case(sub, key=key, nontrivial=(n >= 2 or conf or pad > 0))
        t.cls(sub, f"rate_{rate}_{'confirmed' if conf else 'unconfirmed'}")
        t.cls(sub, f"blocks_{_bucket(n)}")
        t.cls(sub, "pad_0_exact_fit" if pad == 0 else "pad_max_one_over_boundary" if (pad == per - 1 and n > 1) else "pad_other")
        t.cls(sub, "preambles_" + ("0" if case["preambles"] == 0 else "1" if case["preambles"] == 1 else "16" if case["preambles"] == 16 else "2-15"))
        t.cls(sub, "payload_" + payload_kind(case["payload"]))
        if len(payload) == 0:
            t.cls(sub, "payload_empty")
        if len(payload) >= 1000:
            t.cls(sub, "payload_1000_or_more")

    return rec


# ---------------------------------------------------------------------------------------------- drivers

SLICES = [(r, c) for r in dmr_ref.RATES for c in (False, True)]


BOUNDARY_KS = list(range(1, 13)) + [31, 32, 33, 62, 63, 64, 65, 125, 126, 127]


def _lengths(ctx: Ctx, rate, conf):
    """(lengths to run, number of requested lengths that need more than 127 blocks).  Quick: every length that needs up to 8
    blocks plus cap(k)-1, cap(k), cap(k)+1 for k in BOUNDARY_KS; thorough: additionally every length 0..1500.  Boundary
    lengths above 1500 octets (rates 3/4 and 1, k >= 63) are kept: there the binding limit is the 7-bit blocks-to-follow field."""
    per = dmr_ref.octets_per_block(rate, conf)
    cap = lambda k: k * per - 4
    top = dmr_ref.max_payload(rate, conf)
    ls = set(range(0, cap(8) + 2))
    for k in BOUNDARY_KS:
        ls.update((cap(k) - 1, cap(k), cap(k) + 1))
    ls.add(MAX_LEN)
    if not ctx.quick:
        ls.update(range(0, MAX_LEN + 1))
    return sorted(l for l in ls if 0 <= l <= top), len([l for l in ls if l > top])


def _run_cases(ctx: Ctx, sub: SubCheck, items, n_chunks=96):
    """items: list of (case, [extra class labels]); cost-balanced sharding (long payloads are ~100x more expensive)."""
    def cost(it):
        c = it[0]
        p = c["payload"]
        return -((len(p["hex"]) // 2 if "hex" in p else p["len"]) + 12 * c["preambles"])

    items = sorted(items, key=cost)
    chunks = [items[i::n_chunks] for i in range(n_chunks)]
    rec = record(sub.name)

    def work(chunk, t: Tally):
        for case, labels in chunk:
            if ctx.run_case(sub.name, oracle, case, t):
                rec(case, t)
                for lb in labels:
                    t.cls(sub.name, lb)
            else:
                t.case(sub.name, cls="failing")

    ctx.shards(work, [c for c in chunks if c])


def drv_lengths(ctx: Ctx, sub: SubCheck):
    rng = ctx.rng("lengths")
    pre_counts = [0, 1, 2, 16]
    items = []
    n_excl = 0
    for si, (rate, conf) in enumerate(SLICES):
        ls, excl = _lengths(ctx, rate, conf)
        n_excl += excl
        for j, l in enumerate(ls):
            for pi, n_pre in enumerate(pre_counts):
                if ctx.quick and n_pre == 2 and dmr_ref.fragment(l, rate, conf)[0] > 40:
                    continue  # quick budget: the expensive long transmissions run with 0, 1 and 16 preambles only
                # thorough: with 0 and 1 preambles (the header is then the only / main source of the block count) two payload variants
                for variant in range(2 if (not ctx.quick and n_pre < 2) else 1):
                    q = j + si + pi + 2 * variant
                    fillsel = q % 4
                    payload = {"prng": rng.getrandbits(32), "len": l} if fillsel < 2 else {"fill": 0x00 if fillsel == 2 else 0xFF, "len": l}
                    items.append(({
                        "rate": rate, "confirmed": conf, "payload": payload, "preambles": n_pre, "cc": (q * 7) % 16,
                        "ts": 1 + (q % 2), "dst": 1 + rng.getrandbits(23), "src": 1 + rng.getrandbits(23), "group": bool(q % 3 == 0),
                        "sap": SAPS[q % len(SAPS)], "full": q % 2, "resync": (q // 2) % 2, "ns": q % 8, "fsn": (8 + q % 8) if conf else 0,
                    }, ["length_above_1500_(block_count_boundary)"] if l > MAX_LEN else []))
    _run_cases(ctx, sub, items)
    ctx.tally.excluded["length_needs_more_than_127_blocks_(7-bit_BTF)"] += n_excl
    ctx.tally.extra["lengths_preamble_counts"] = pre_counts
    if not ctx.quick:
        ctx.tally.notes.append("lengths: every payload length 0..1500 that fits the header format plus the block-count boundary lengths, for each of the 6 (rate, mode) slices x preamble counts {0,1,2,16} (payload bytes and the other fields rotate)")


# ---------------------------------------------------------------------------------------------- directed: check-value extremes

CRC32_TARGETS = [0x00000000, 0xFFFFFFFF, 0x00000001, 0x80000000]
CRC9_TARGETS = [0x000, 0x1FF]


def drv_crc_extremes(ctx: Ctx, sub: SubCheck):
    """Payloads constructed (GF(2) linearity, vp/refs/dmr_ref.force_*) so that the packet CRC-32 is exactly 0, all-ones, 1 or
    0x80000000, or so that the CRC-9 field of one intermediate confirmed block is 0x000 / 0x1FF.  Identical in both tiers."""
    items = []
    k = 0
    for si, (rate, conf) in enumerate(SLICES):
        per = dmr_ref.octets_per_block(rate, conf)
        cap = lambda n: n * per - 4
        for length in sorted({5, 6, cap(1), cap(1) + 1, cap(2) - 3, cap(2), cap(3) - 1, cap(5) - 2, cap(5), cap(30), cap(30) - 5}):
            if length < 5:
                continue
            n, pad = dmr_ref.fragment(length, rate, conf)
            base = expand_payload({"prng": 1000 + si, "len": length}) + bytes(pad)
            for target in CRC32_TARGETS:
                k += 1
                padded = dmr_ref.force_crc32(base, list(range(length - min(length, 6), length)), target)
                if dmr_ref.crc32_value(padded) != target or padded[length:] != bytes(pad):
                    raise AssertionError("harness: CRC-32 forcing failed")
                items.append(({
                    "rate": rate, "confirmed": conf, "payload": {"hex": padded[:length].hex()}, "preambles": k % 2, "cc": k % 16, "ts": 1 + k % 2, "dst": 1 + k, "src": 0xFFFFFF - k,
                    "group": bool(k % 2), "sap": SAPS[k % len(SAPS)], "full": 1, "resync": 0, "ns": k % 8 if conf else 0, "fsn": 8 if conf else 0,
                }, ["packet_crc32_%08x" % target]))
        if conf:
            for n_blocks in (2, 3, 6):
                length = cap(n_blocks) - (n_blocks % 2)  # exact fit and pad 1
                for which in range(n_blocks - 1):  # every intermediate block in turn
                    for target in CRC9_TARGETS:
                        k += 1
                        pl = bytearray(expand_payload({"prng": 2000 + si + n_blocks, "len": length}))
                        lo = which * per
                        pl[lo : lo + per] = dmr_ref.force_crc9_field(rate, 0, bytes(pl[lo : lo + per]), [0, 1], target)  # generator numbers every block DBSN 0
                        if dmr_ref.crc9_field(rate, 0, bytes(pl[lo : lo + per])) != target:
                            raise AssertionError("harness: CRC-9 forcing failed")
                        items.append(({
                            "rate": rate, "confirmed": True, "payload": {"hex": bytes(pl).hex()}, "preambles": k % 2, "cc": k % 16, "ts": 1 + k % 2, "dst": 1 + k, "src": 0xFFFFFF - k,
                            "group": bool(k % 2), "sap": SAPS[k % len(SAPS)], "full": 1, "resync": 0, "ns": k % 8, "fsn": 8,
                        }, ["intermediate_block_crc9_field_%03x" % target]))
    _run_cases(ctx, sub, items)
    ctx.tally.notes.append("crc_extremes: the CRC-9 targets assume the generator's serial number 0 for every block (observed behaviour, not part of the property)")


# ---------------------------------------------------------------------------------------------- directed: header fields

ALL_SAPS = ["UDT", "TCP_IP_compression", "UDP_IP_compression", "IP_PacketData", "ARP", "Proprietary", "ShortData"]


def drv_header_fields(ctx: Ctx, sub: SubCheck):
    """One header field at a time over its complete range (others at a default), on a fixed 50-octet payload, for all six
    slices: SAP (7 defined values), FSN 0..15, N(S) 0..7, F, S, group, DPF independent of the A bit, colour code 0..15,
    timeslot, LLID extremes, preamble count 0..16.  Plus the full cross product A-mode x DPF x F x S x group."""
    payload = {"prng": 424242, "len": 50}
    items = []
    for rate, conf in SLICES:
        base = {"rate": rate, "confirmed": conf, "payload": payload, "preambles": 1, "cc": 1, "ts": 1, "dst": 2305001, "src": 2305002, "group": False, "sap": "IP_PacketData",
                "full": 1, "resync": 0, "ns": 0, "fsn": 8 if conf else 0, "dpf": "confirmed" if conf else "unconfirmed"}
        sweeps = [("sap", ALL_SAPS), ("fsn", range(16)), ("ns", range(8)), ("full", (0, 1)), ("resync", (0, 1)), ("group", (False, True)), ("dpf", ("confirmed", "unconfirmed")),
                  ("cc", range(16)), ("ts", (1, 2)), ("dst", (1, 0xFFFFFF)), ("src", (1, 0xFFFFFF)), ("preambles", range(17))]
        for field, values in sweeps:
            for v in values:
                items.append(({**base, field: v}, [f"field_{field}"]))
        for dpf in ("confirmed", "unconfirmed"):
            for full in (0, 1):
                for resync in (0, 1):
                    for group in (False, True):
                        for n_pre in (0, 1):
                            items.append(({**base, "dpf": dpf, "full": full, "resync": resync, "group": group, "preambles": n_pre, "ns": 5}, ["flag_cross_product"]))
    _run_cases(ctx, sub, items)


def _strategy(max_len=MAX_LEN):
    from hypothesis import strategies as st

    def lengths(rc):
        rate, conf = rc
        per = dmr_ref.octets_per_block(rate, conf)
        top = min(max_len, dmr_ref.max_payload(rate, conf))
        kmax = (top + 4) // per
        boundary = st.builds(lambda k, d: max(0, min(top, k * per - 4 + d)), st.one_of(st.integers(1, 6), st.integers(1, kmax)), st.sampled_from([-1, 0, 1]))
        return st.one_of(boundary, boundary, st.integers(0, min(200, top)), st.integers(0, top), st.sampled_from([0, 1, top]))

    def payload(n):
        return st.one_of(
            st.binary(min_size=n, max_size=n).map(lambda b: {"hex": b.hex()}) if n <= 96 else st.integers(0, 2**32 - 1).map(lambda s: {"prng": s, "len": n}),
            st.integers(0, 2**32 - 1).map(lambda s: {"prng": s, "len": n}),
            st.sampled_from([0x00, 0xFF, 0x80]).map(lambda f: {"fill": f, "len": n}),
        )

    def build(rc):
        rate, conf = rc
        return lengths(rc).flatmap(
            lambda n: st.fixed_dictionaries({
                "rate": st.just(rate), "confirmed": st.just(conf), "payload": payload(n),
                "preambles": st.one_of(st.integers(0, 16), st.sampled_from([0, 1, 16])),
                "cc": st.integers(0, 15), "ts": st.sampled_from([1, 2]),
                "dst": st.one_of(st.integers(1, 0xFFFFFF), st.sampled_from([1, 0xFFFFFF])), "src": st.one_of(st.integers(1, 0xFFFFFF), st.sampled_from([1, 0xFFFFFF])),
                "group": st.booleans(), "sap": st.sampled_from(SAPS), "full": st.integers(0, 1), "resync": st.integers(0, 1) if conf else st.just(0),
                "ns": st.integers(0, 7) if conf else st.just(0), "fsn": st.integers(0, 15),
            })
        )

    return build


def drv_random(ctx: Ctx, sub: SubCheck):
    build = _strategy()
    rec = record(sub.name)

    def hyp(shard, t: Tally):
        rc = SLICES[shard % len(SLICES)]
        ctx.hypothesis(sub.name, build(rc), oracle, ctx.pick(40, 900), tally=t, shard=shard, record=rec)

    ctx.shards(hyp, list(range(ctx.pick(30, 48))))


BOUNDARY_OCTETS = [0x00, 0x01, 0x7F, 0x80, 0x81, 0xFF]


def drv_short_boundary(ctx: Ctx, sub: SubCheck):
    """Directed: SAP UDP/IP header compression (the receiver decodes the payload as a compressed header), payload lengths
    0..12, first six octets from the boundary set on two positions at a time: positions (3,4) (SPID / DPID octets) over all
    36 value pairs x fills {00, FF}; every other position pair over 3 sampled value pairs.  Identical in both tiers."""
    rng = ctx.rng("short_boundary")
    value_pairs = [(a, b) for a in BOUNDARY_OCTETS for b in BOUNDARY_OCTETS]
    items = []
    k = 0
    for si, (rate, conf) in enumerate(SLICES):
        for n in range(0, 13):
            avail = min(n, 6)
            combos = []
            for p in range(avail):
                for q in range(p + 1, avail):
                    if (p, q) == (3, 4):
                        combos += [((p, q), v, f) for v in value_pairs for f in (0x00, 0xFF)]
                    else:
                        combos += [((p, q), v, (0x00, 0xFF, 0x80)[(p + q + j) % 3]) for j, v in enumerate(rng.sample(value_pairs, 3))]
            if avail < 2:
                combos = [((0, 0), (v, v), 0x00) for v in BOUNDARY_OCTETS[: 6 if n else 1]]
            for (p, q), (a, b), f in combos:
                k += 1
                payload = bytearray([f]) * n
                if n:
                    payload[p], payload[q] = a, b
                items.append({
                    "rate": rate, "confirmed": conf, "payload": {"hex": bytes(payload).hex()}, "preambles": k % 2, "cc": k % 16, "ts": 1 + (k // 2) % 2,
                    "dst": 1 + (k * 7919) % 0xFFFFFF, "src": 1 + (k * 104729) % 0xFFFFFF, "group": bool(k % 3 == 0), "sap": "UDP_IP_compression",
                    "full": k % 2, "resync": 0, "ns": k % 8 if conf else 0, "fsn": (8 + k % 8) if conf else 0,
                })
    chunks = [items[i::64] for i in range(64)]
    rec = record(sub.name)

    def work(chunk, t: Tally):
        for case in chunk:
            if ctx.run_case(sub.name, oracle, case, t):
                rec(case, t)
            else:
                t.case(sub.name, cls="failing")

    ctx.shards(work, chunks)
    ctx.tally.notes.append("short_boundary_payloads: directed enumeration, SAP UDP/IP compression, lengths 0..12, boundary octets {00,01,7F,80,81,FF} on two of the first six positions")


# ---------------------------------------------------------------------------------------------- directed: structured payloads


def drv_structured(ctx: Ctx, sub: SubCheck):
    """Structured payload content: (a) a short record repeated - period = every block size in use (10, 12, 16, 18, 22, 24
    octets: identical adjacent blocks with non-constant content when the period equals the slice's block size) and periods
    1, 2, 3, 7 - at lengths of 2, 3 and 6 blocks (exact fit and one octet short); (b) the marker octets of the enclosing
    layers placed inside the payload - each of the 10 SYNC words of table 9.2, the 12 octets of a data header and of a
    preamble CSBK of the same call, a slot-type word - at the start, at a block boundary, at offset 13 and near the end of a
    4-block payload.  Identical in both tiers."""
    L = _lib()
    from okdmr.dmrlib.etsi.layer2.elements.sync_patterns import SyncPatterns

    markers = {f"sync_{m.name}": m.value.to_bytes(6, "big") for m in SyncPatterns if m.name != "EmbeddedSignalling"}
    items = []
    k = 0
    for si, (rate, conf) in enumerate(SLICES):
        per = dmr_ref.octets_per_block(rate, conf)
        cap = lambda n: n * per - 4
        base = {"rate": rate, "confirmed": conf, "cc": 1 + si, "ts": 1 + si % 2, "dst": 2305001, "src": 2305002, "group": False, "sap": "IP_PacketData", "full": 1, "resync": 0,
                "ns": 0, "fsn": 8 if conf else 0}
        for period in (1, 2, 3, 7, 10, 12, 16, 18, 22, 24):
            record = expand_payload({"prng": 7000 + period, "len": period})
            for n_blocks in (2, 3, 6):
                for length in (cap(n_blocks), cap(n_blocks) - 1):
                    k += 1
                    payload = (record * (length // period + 1))[:length]
                    items.append(({**base, "payload": {"hex": payload.hex()}, "preambles": k % 3}, ["record_period_equals_block_size" if period == per else f"record_period_{period}"]))
        # markers of the enclosing layers
        hdr = L["DataHeader"](dpf=L["DataPacketFormats"].DataPacketConfirmed if conf else L["DataPacketFormats"].DataPacketUnconfirmed, sap_identifier=L["SAPIdentifier"].IP_PacketData,
                              is_response_requested=conf, pad_octet_count=0, llid_destination=2305001, llid_source=2305002, full_message_flag=L["FullMessageFlag"](1), blocks_to_follow=4,
                              resynchronize_flag=L["ResynchronizeFlag"](0), fragment_sequence_number=8 if conf else 0)
        pre = L["CSBK"](csbko=L["CsbkOpcodes"].PreambleCSBK, source_address=2305002, target_address=2305001, blocks_to_follow=5, target_address_is_individual=True)
        local = dict(markers)
        local["own_data_header"] = bytes(hdr.as_bits().tobytes())
        local["preamble_csbk"] = bytes(pre.as_bits().tobytes())
        length = cap(4)
        fill = expand_payload({"prng": 8000 + si, "len": length})
        for mname, mk in local.items():
            for pname, off in (("start", 0), ("block_boundary", per), ("straddling_block_boundary", per - 3), ("offset_13", 13), ("near_end", length - len(mk) - 1), ("end", length - len(mk))):
                k += 1
                payload = bytearray(fill)
                payload[off : off + len(mk)] = mk
                items.append(({**base, "payload": {"hex": bytes(payload[:length]).hex()}, "preambles": k % 2}, [f"marker_{mname}", f"marker_at_{pname}"]))
    _run_cases(ctx, sub, items)


# ---------------------------------------------------------------------------------------------- consecutive transmissions (near-twins)
#
# One process fragments many datagrams one after the other.  Whatever the generator (or the receive side) remembers between
# calls - a "same as last time" memo, a class-level buffer, objects handed out twice - only shows when the *next* input is
# related to the previous one: equal after zero padding, equal prefix, equal length, equal content with another rate / mode /
# colour code.  A case of this sub-check is a short sequence of steps; every transmission step is judged by the complete
# single-transmission oracle above, in order, in one process.  Stimulus steps ("stim") are calls whose result is not judged:
# rightly refused calls, the sibling entry points on the same datagram, a caller that uses / alters the objects it was given.

STIMULI = ["wrong_poc", "wrong_type", "direct", "direct_default_mode", "preambles", "header_burst", "feed_objects", "scribble", "crc"]


def _stimulus(step):
    """a call into the generator's entry points whose outcome is ignored (stimulus only)"""
    L = _lib()
    kind = step["stim"]
    rate, confirmed = step["rate"], bool(step["confirmed"])
    payload = expand_payload(step["payload"])
    rate_cls = {"1/2": L["Rate12Data"], "3/4": L["Rate34Data"], "1": L["Rate1Data"]}[rate]
    n_ref, pad_ref = dmr_ref.fragment(len(payload), rate, confirmed)
    DPF = L["DataPacketFormats"]
    G = L["TransmissionGenerator"]

    def header(poc, btf):
        return L["DataHeader"](
            dpf=DPF.DataPacketConfirmed if confirmed else DPF.DataPacketUnconfirmed, sap_identifier=L["SAPIdentifier"][step.get("sap", "IP_PacketData")], is_group=bool(step.get("group", False)),
            is_response_requested=confirmed, pad_octet_count=poc, llid_destination=step.get("dst", 1), llid_source=step.get("src", 2), full_message_flag=L["FullMessageFlag"](step.get("full", 1)),
            blocks_to_follow=btf, resynchronize_flag=L["ResynchronizeFlag"](0), send_sequence_number=0, fragment_sequence_number=8 if confirmed else 0)

    try:
        if kind == "wrong_poc":  # refused: the header announces another pad octet count than the fragmentation yields
            G.generate_full_data_transmission(packet_type=rate_cls, userdata=payload, data_header=header((pad_ref + 1 + step.get("d", 0)) % 32, min(n_ref, 127)), csbk_count=step.get("preambles", 0),
                                              colour_code=step.get("cc", 1))
        elif kind == "wrong_type":  # refused: user data that is neither bytes nor a BytesInterface
            G.generate_full_data_transmission(packet_type=rate_cls, userdata=payload.hex(), data_header=header(pad_ref, min(n_ref, 127)), csbk_count=0, colour_code=step.get("cc", 1))
        elif kind in ("direct", "direct_default_mode", "feed_objects", "scribble"):
            # the sibling entry point a caller uses to learn the pad octet count before it builds the header
            if kind == "direct_default_mode":
                bursts, _ = G.generate_data_bursts(packet_type=rate_cls, userdata=payload, colour_code=step.get("cc", 1))
            else:
                bursts, _ = G.generate_data_bursts(packet_type=rate_cls, userdata=payload, colour_code=step.get("cc", 1), is_confirmed=confirmed)
            if kind == "feed_objects":  # the caller hands the generated objects to a terminal, which numbers / labels them in place
                term = L["Terminal"](2306, [])
                for b in bursts:
                    term.process_incoming_burst(b, step.get("ts", 1))
            elif kind == "scribble":  # the caller re-uses the objects it was given
                for i, b in enumerate(bursts):
                    b.data.data = bytes([0xA5 ^ i & 0xFF]) * len(b.data.data)
                    b.slot_type = L["SlotType"](colour_code=(step.get("cc", 1) + 7) % 16, data_type=b.slot_type.data_type)
                    b.sequence_no, b.timeslot = 200 + i % 50, 2
                bursts.reverse()
                del bursts[1:]
        elif kind == "preambles":
            G.generate_csbk_preambles(source_address=step.get("src", 2), target_address=step.get("dst", 1), num_of_preambles=step.get("preambles", 0) + 1, num_of_following_data_blocks=n_ref + 3,
                                      colour_code=step.get("cc", 1))
        elif kind == "header_burst":
            G.generate_data_header_burst(header(pad_ref, min(n_ref, 127))).as_bytes()
        elif kind == "crc":
            from okdmr.dmrlib.etsi.crc.crc32 import CRC32

            CRC32.calculate(data=payload + bytes(pad_ref))
            CRC32.calculate(data=payload)
        else:
            raise AssertionError(f"harness: unknown stimulus {kind}")
    except AssertionError as e:
        if str(e).startswith("harness:"):
            raise
    except Exception:
        pass


NEUTRAL = {"stim": "direct", "rate": "1/2", "confirmed": False, "payload": {"hex": "a55a3cc30ff0e1"}, "cc": 9}


def oracle_seq(case):
    # every sequence starts from the same recent past: one unrelated fragmentation (makes the verdict on a sequence independent
    # of the sequence judged before it in this process, as far as "last call" state is concerned)
    _stimulus(NEUTRAL)
    rx = None
    if case.get("shared_terminal"):  # one receiving terminal for all transmissions of the sequence
        rec = _Recorder.make()
        rx = (rec, call(_lib()["Terminal"], 2305, [rec])[1])
    for i, step in enumerate(case["seq"]):
        if "stim" in step:
            _stimulus(step)
            continue
        try:
            oracle(step, rx)
        except Fail as f:
            raise Fail(f.clause, {"step": i, "of": len(case["seq"]), "observed": f.observed}, f.expected, klass=f.klass)


def _explicit(case, payload: bytes, **changes):
    return {**case, "payload": {"hex": payload.hex()}, **changes}


def twin_sequences(base):
    """[(relation label, [steps])] for a base case with an explicit payload: the base and a near-twin in both orders (and
    base, twin, base), the base repeated, and the base after each stimulus on itself / on a twin."""
    rate, conf = base["rate"], bool(base["confirmed"])
    P = expand_payload(base["payload"])
    base = _explicit(base, P)
    n, pad = dmr_ref.fragment(len(P), rate, conf)
    top = dmr_ref.max_payload(rate, conf)
    twins = []
    # equal after zero padding / one block more of zeros / trailing zeros stripped
    for k in sorted({1, max(pad, 1), pad + 1, pad + dmr_ref.octets_per_block(rate, conf)}):
        if len(P) + k <= top:
            twins.append((f"trailing_zero_octets_{'within_pad' if k <= pad else 'beyond_pad'}", _explicit(base, P + bytes(k))))
    stripped = P.rstrip(b"\x00")
    if stripped != P:
        twins.append(("trailing_zero_octets_stripped", _explicit(base, stripped)))
    # equal prefix
    if P:
        twins.append(("prefix_one_octet_shorter", _explicit(base, P[:-1])))
        twins.append(("prefix_half", _explicit(base, P[: len(P) // 2])))
    if len(P) + 1 <= top:
        twins.append(("prefix_one_octet_longer", _explicit(base, P + b"\x01")))
    if 0 < 2 * len(P) <= top:
        twins.append(("prefix_doubled", _explicit(base, P + P)))
    # equal length, other content
    if P:
        twins.append(("same_length_last_octet_differs", _explicit(base, P[:-1] + bytes([P[-1] ^ 0x01]))))
        twins.append(("same_length_first_octet_differs", _explicit(base, bytes([P[0] ^ 0x80]) + P[1:])))
        twins.append(("same_length_last_octet_zero", _explicit(base, P[:-1] + b"\x00")))
        twins.append(("same_length_complemented", _explicit(base, bytes(b ^ 0xFF for b in P))))
    # equal content, other configuration
    for r in dmr_ref.RATES:
        if r != rate and dmr_ref.fragment(len(P), r, conf)[0] <= dmr_ref.MAX_BLOCKS_TO_FOLLOW:
            twins.append(("same_payload_other_rate", {**base, "rate": r}))
    if dmr_ref.fragment(len(P), rate, not conf)[0] <= dmr_ref.MAX_BLOCKS_TO_FOLLOW:
        twins.append(("same_payload_other_mode", {**base, "confirmed": not conf, "ns": 0, "fsn": 0 if conf else 8, "dpf": None}))
    twins.append(("same_payload_other_colour_code", {**base, "cc": (base.get("cc", 1) + 1) % 16}))
    twins.append(("same_payload_other_preamble_count", {**base, "preambles": 0 if base["preambles"] else 2}))
    twins.append(("same_payload_other_header_fields", {**base, "dst": base.get("src", 2), "src": base.get("dst", 1), "group": not base.get("group", False), "sap": "ShortData" if base.get("sap") != "ShortData" else "ARP",
                                                       "ts": 3 - base.get("ts", 1), "full": 1 - base.get("full", 1)}))
    out = []
    for label, t in twins:
        t = {k: v for k, v in t.items() if v is not None}
        out += [(label + "/base_then_twin", [base, t]), (label + "/twin_then_base", [t, base])]
        if label.startswith("trailing_zero") or label.startswith("same_payload_other_mode") or label == "same_length_last_octet_zero":
            out.append((label + "/base_twin_base", [base, t, base]))
    out += [("identical/twice", [base, base]), ("identical/three_times", [base, base, base])]
    zero_twin = twins[0][1] if twins and twins[0][0].startswith("trailing_zero") else base
    for kind in STIMULI:
        st = {**base, "stim": kind}
        out.append((f"stimulus_{kind}/then_base", [st, base]))
        if kind in ("wrong_poc", "direct", "scribble", "feed_objects"):
            out.append((f"stimulus_{kind}/base_stimulus_base", [base, st, base]))
            out.append((f"stimulus_{kind}/on_zero_twin_then_base", [{**zero_twin, "stim": kind}, base]))
            out.append((f"stimulus_{kind}/on_base_then_zero_twin", [st, {k: v for k, v in zero_twin.items() if k != "stim"}]))
    return out


def _seq_record(sub):
    def rec(case, t: Tally, label=None):
        steps = [s for s in case["seq"] if "stim" not in s]
        digest = hashlib.blake2b(repr([(s.get("stim"), s["rate"], s["confirmed"], expand_payload(s["payload"]).hex(), s.get("preambles"), s.get("cc"), s.get("ts"), s.get("dst"), s.get("sap"))
                                       for s in case["seq"]]).encode(), digest_size=8).hexdigest()
        t.case(sub, key={"seq": digest, "shared": bool(case.get("shared_terminal"))}, nontrivial=len(case["seq"]) >= 2 and bool(steps))
        t.cls(sub, f"steps_{len(case['seq'])}")
        t.cls(sub, f"judged_transmissions_{len(steps)}")
        t.cls(sub, "received_on_one_terminal" if case.get("shared_terminal") else "received_on_separate_terminals")
        if any("stim" in s for s in case["seq"]):
            t.cls(sub, "with_stimulus_step")
        for s in steps[:1]:
            t.cls(sub, f"rate_{s['rate']}_{'confirmed' if s['confirmed'] else 'unconfirmed'}")
        if label:
            t.cls(sub, "relation_" + label)

    return rec


def drv_consecutive(ctx: Ctx, sub: SubCheck):
    """(a) directed: for every slice, base payloads of 9 lengths (empty, 1 octet, within the first block with pad > 0, exact
    fit of 1 / 2 blocks, one over / one under a boundary, 50 octets, 6 blocks) whose last octet is not zero (two of them: all-zero
    payloads), every relation of twin_sequences.  (b) Hypothesis: base case from the 'random' strategy (lengths up to 300),
    relation and order drawn."""
    rng = ctx.rng("consecutive")
    items = []
    k = 0
    for si, (rate, conf) in enumerate(SLICES):
        per = dmr_ref.octets_per_block(rate, conf)
        cap = lambda n: n * per - 4
        for li, length in enumerate([0, 1, max(2, cap(1) - 3), cap(1), cap(1) + 1, cap(2) - 1, cap(2), 50, cap(6) - 2]):
            k += 1
            P = bytearray(expand_payload({"prng": rng.getrandbits(32), "len": length}))
            if li in (3, 7):
                P = bytearray(length)  # all-zero datagram: equal to its own padding
            elif P and P[-1] == 0:
                P[-1] = 0x5A
            base = {"rate": rate, "confirmed": conf, "payload": {"hex": bytes(P).hex()}, "preambles": k % 3, "cc": k % 16, "ts": 1 + k % 2, "dst": 1 + rng.getrandbits(23), "src": 1 + rng.getrandbits(23),
                    "group": bool(k % 2), "sap": SAPS[k % len(SAPS)], "full": k % 2, "resync": 0, "ns": k % 8 if conf else 0, "fsn": (8 + k % 8) if conf else 0}
            for label, seq in twin_sequences(base):
                items.append(({"seq": seq, "shared_terminal": True} if len(items) % 2 else {"seq": seq}, label))
    items.sort(key=lambda it: -sum(len(s["payload"].get("hex", "")) for s in it[0]["seq"]))
    chunks = [items[i::64] for i in range(64)]
    rec = _seq_record(sub.name)

    def work(chunk, t: Tally):
        for case, label in chunk:
            if ctx.run_case(sub.name, oracle_seq, case, t):
                rec(case, t, label.split("/")[0])
                t.cls(sub.name, "order_" + label.split("/")[1])
            else:
                t.case(sub.name, cls="failing")

    ctx.shards(work, [c for c in chunks if c])

    from hypothesis import strategies as st

    build = _strategy(max_len=300)

    def seqs(rc):
        def pick(base):
            options = twin_sequences(base)
            return st.tuples(st.integers(0, len(options) - 1), st.booleans()).map(lambda p: {"seq": options[p[0]][1], "shared_terminal": True} if p[1] else {"seq": options[p[0]][1]})

        return build(rc).flatmap(pick)

    def hyp(shard, t: Tally):
        rc = SLICES[shard % len(SLICES)]
        ctx.hypothesis(sub.name, seqs(rc), oracle_seq, ctx.pick(20, 300), tally=t, shard=shard, record=lambda c, tt: rec(c, tt, None))

    ctx.shards(hyp, list(range(ctx.pick(18, 36))))
    ctx.tally.notes.append("consecutive: every transmission step of a sequence is judged by the complete single-transmission oracle; stimulus steps are not judged")


# ---------------------------------------------------------------------------------------------- preludes (stimulus only)


def _op_generate(a):
    """generate and receive a transmission, ignore the outcome"""
    try:
        if "stim" in a:
            _stimulus(a)
        else:
            oracle(a)
    except BaseException as e:
        if isinstance(e, (KeyboardInterrupt, SystemExit, MemoryError)):
            raise


PRELUDE_OPS = {"generate": _op_generate}
PRELUDE_GROUPS = ("crc", "burst", "pdu")


def prelude_for(sub, case, rng):
    """between the two judgements of a single transmission: near-twins of it (and stimuli on it) through the generator -
    three relations of twin_sequences drawn with ``rng``, plus the zero-extended twin and a refused call when they exist"""
    if not isinstance(case, dict) or "seq" in case or "payload" not in case:
        return []
    if len(expand_payload(case["payload"])) > 400:
        base = {**case, "payload": {"hex": expand_payload(case["payload"])[:97].hex()}}  # keep preludes cheap: a short prefix twin of a long datagram
        options = [("prefix_short", [base])] + twin_sequences(base)
    else:
        options = twin_sequences(case)
    steps = []
    fixed = [seq for label, seq in options if label in ("trailing_zero_octets_within_pad/twin_then_base", "trailing_zero_octets_beyond_pad/twin_then_base", "stimulus_wrong_poc/then_base")]
    for seq in fixed[:2] + [options[rng.randrange(len(options))][1] for _ in range(3)]:
        steps.append(seq[0])  # the twin / stimulus step that precedes the base
    return [{"x": "generate", "a": s} for s in steps]


SUBCHECKS = [
    SubCheck("lengths", oracle, drv_lengths, "enumerated payload lengths (all lengths of 1..8 blocks, boundary triples for 26 block counts up to 127; thorough: every length 0..1500) x 3 rates x 2 modes x preamble counts {0,1,2,16} through generator -> bytes -> receiver"),
    SubCheck("crc_extremes", oracle, drv_crc_extremes, "directed: payloads constructed so that the packet CRC-32 is 00000000 / FFFFFFFF / 00000001 / 80000000 or an intermediate confirmed block's CRC-9 field is 000 / 1FF"),
    SubCheck("header_fields", oracle, drv_header_fields, "directed: every header field over its complete range (SAP, FSN, N(S), F, S, group, DPF vs A, colour code, timeslot, LLID extremes, preambles 0..16) on a fixed 50-octet payload x 6 slices"),
    SubCheck("structured_payloads", oracle, drv_structured, "directed: short records repeated (period = every block size in use -> identical adjacent blocks; periods 1,2,3,7) and marker octets of the enclosing layers (10 SYNC words, own data header, preamble CSBK) inside the payload at start / block boundary / offset 13 / end, 6 slices"),
    SubCheck("short_boundary_payloads", oracle, drv_short_boundary, "directed: SAP UDP/IP compression, payload lengths 0..12, first six octets from {00,01,7F,80,81,FF} on two positions at a time ((3,4) complete) x 3 rates x 2 modes"),
    SubCheck("random", oracle, drv_random, "Hypothesis: all case fields drawn, lengths weighted to block boundaries"),
    SubCheck("consecutive", oracle_seq, drv_consecutive, "sequences of 2-3 steps in one process: a transmission and a near-twin (equal after zero padding, equal prefix, equal length, equal payload with other rate / mode / colour code / preambles / header fields) in both orders, the same transmission repeated, and a transmission after a stimulus (refused call with a wrong pad count / wrong type, generate_data_bursts called directly, generated objects fed to a terminal or altered by the caller); every transmission judged by the complete receive oracle; directed over 6 slices x 9 lengths x all relations, plus Hypothesis"),
]
PREDICATES = {}
