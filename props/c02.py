"""C02 — BPTC(196,96): round trip for every message and correction of every error pattern of weight <= 2.

Faults: complete enumeration of the 196 single and 19 110 double inversions (sharded); messages: zero word, unit
messages, seeded random messages; GF(2)-linearity of the encoder on Hypothesis-drawn pairs.  Reference encoder:
vp/refs/bptc_ref.py (13x15 product code + (k*181 mod 196) interleaver), independent of the library's table.
"""
from __future__ import annotations

import itertools

from bitarray import bitarray
from bitarray.util import int2ba

from vp.core import Ctx, Fail, SubCheck, Tally, call
from vp.refs import bptc_ref

LEVEL = "fault_enumeration"
RULE = (
    "messages: the zero word, unit messages and seeded random 96-bit messages (Hypothesis for the linearity / reference / "
    "round-trip clauses); faults: ALL 196 single-bit and ALL 19110 double-bit inversions of the 196 transmitted bits per "
    "chosen codeword (complete enumeration).  A case is (message, error pattern); distinct by construction inside the "
    "enumeration, by hash in the Hypothesis part.  Non-trivial: error patterns of weight 2; messages with >= 2 set bits.  "
    "Besides sampled codewords the enumeration runs on 41 structured codewords (all-ones; one info column / row all-ones "
    "or all-zeros in an otherwise complementary message): complete pattern set in thorough, all singles + all same-row and "
    "same-column pairs in quick."
)
ASSUMPTIONS = [
    "reference encoder vp/refs/bptc_ref.py written from ETSI TS 102 361-1 B.1.1 (Hamming(15,11,3) rows, Hamming(13,9,3) "
    "columns, interleave position k*181 mod 196)",
    "linearity of the code (checked on random pairs) is what justifies enumerating all faults on a few codewords only",
]


def BPTC():
    from okdmr.dmrlib.etsi.fec.bptc_196_96 import BPTC19696

    return BPTC19696


def msg_bits(case_msg) -> bitarray:
    """message given as 24-hex-digit string"""
    return int2ba(int(case_msg, 16), 96, endian="big")


def oracle_roundtrip(case):
    """case = {msg: hex24}.  encode == reference; decode(encode) == msg with and without repair; repair leaves the error-free
    codeword alone (interleaved and de-interleaved form); inputs not mutated."""
    B = BPTC()
    m = msg_bits(case["msg"])
    m0 = m.copy()
    st, enc = call(B.encode, m)
    if m != m0:
        raise Fail("encode_does_not_mutate_input", m.to01(), m0.to01())
    if len(enc) != 196:
        raise Fail("encoded_length", len(enc), 196)
    ref = bitarray(bptc_ref.bptc196_encode(m.tolist()))
    if bitarray(enc) != ref:
        raise Fail("encode_equals_reference", bitarray(enc).to01(), ref.to01())
    enc = bitarray(enc)
    for repair in (True, False):
        arg = enc.copy()
        st, dec = call(B.deinterleave_data_bits, arg, repair)
        if bitarray(dec) != m0:
            raise Fail(f"roundtrip_repair_{repair}", bitarray(dec).to01(), m0.to01())
        if arg != enc:
            raise Fail("decode_does_not_mutate_input", arg.to01(), enc.to01())
    arg = enc.copy()
    st, rep = call(B.repair_if_necessary, arg)
    if bitarray(rep) != enc:
        raise Fail("error_free_codeword_not_altered_by_repair", _diff(rep, enc), "no difference")
    if arg != enc:
        raise Fail("repair_does_not_mutate_interleaved_input", _diff(arg, enc), "no difference")
    st, de = call(B.deinterleave_all_bits, enc.copy())
    de = bitarray(de)
    st, rep2 = call(B.repair_if_necessary, de.copy(), True)
    if bitarray(rep2) != de:
        raise Fail("error_free_deinterleaved_codeword_not_altered_by_repair", _diff(rep2, de), "no difference")


def _diff(a, b):
    a, b = bitarray(a), bitarray(b)
    return {"differing_positions": [i for i in range(min(len(a), len(b))) if a[i] != b[i]], "len": len(a)}


def oracle_fault(case):
    """case = {msg: hex24, flips: [positions]} with 1..2 positions: decoder with repair returns the message."""
    B = BPTC()
    m = msg_bits(case["msg"])
    rx = bitarray(bptc_ref.bptc196_encode(m.tolist()))
    for p in case["flips"]:
        rx.invert(p)
    st, dec = call(B.deinterleave_data_bits, rx, True)
    if bitarray(dec) != m:
        raise Fail("errors_up_to_weight_2_corrected", {"wrong_info_bits": _diff(dec, m)["differing_positions"]}, "message returned exactly")
    # the same repair applied to the library's own de-interleaved layout must give the de-interleaved codeword
    cw = bitarray(bptc_ref.bptc196_encode(m.tolist()))
    for p in case["flips"]:
        if p == 0:
            cw.invert(0)  # R(3) is outside the code: repair keeps it as received
    d_rx = bitarray(call(B.deinterleave_all_bits, rx)[1])
    d_cw = bitarray(call(B.deinterleave_all_bits, cw)[1])
    st, rep = call(B.repair_if_necessary, d_rx, True)
    if bitarray(rep) != d_cw:
        raise Fail("deinterleaved_repair_corrects_weight_2", _diff(rep, d_cw), "no difference to the de-interleaved codeword")


def oracle_linearity(case):
    """case = {a: hex24, b: hex24}: encode(a^b) == encode(a)^encode(b)."""
    B = BPTC()
    a, b = msg_bits(case["a"]), msg_bits(case["b"])
    ea, eb, eab = (bitarray(call(B.encode, x)[1]) for x in (a, b, a ^ b))
    if eab != ea ^ eb:
        raise Fail("encoder_gf2_linear", _diff(eab, ea ^ eb), "no difference")


# ---------------------------------------------------------------------------------------------- drivers


def _messages(ctx: Ctx, n_random: int, n_unit: int):
    rng = ctx.rng("messages")
    msgs = ["%024x" % 0]
    units = list(range(96))
    rng.shuffle(units)
    msgs += ["%024x" % (1 << u) for u in units[:n_unit]]
    msgs += ["%024x" % rng.getrandbits(96) for _ in range(n_random)]
    return msgs


def drv_roundtrip(ctx: Ctx, sub: SubCheck):
    from hypothesis import strategies as st

    # all 96 unit messages + zero, always
    def work(chunk, t: Tally):
        for msg in chunk:
            ctx.run_case(sub.name, oracle_roundtrip, {"msg": msg}, t)
            t.case(sub.name, key={"msg": msg}, nontrivial=bin(int(msg, 16)).count("1") >= 2, cls="basis_or_zero")

    basis = ["%024x" % 0, "%024x" % (2**96 - 1)] + ["%024x" % (1 << u) for u in range(96)]
    ctx.shards(work, [basis[i::16] for i in range(16)])

    strat = st.integers(0, 2**96 - 1).map(lambda v: {"msg": "%024x" % v})

    def hyp(shard, t: Tally):
        ctx.hypothesis(sub.name, strat, oracle_roundtrip, ctx.pick(40, 1500), tally=t, shard=shard,
                       record=lambda c, tt: tt.case(sub.name, key=c, nontrivial=bin(int(c["msg"], 16)).count("1") >= 2, cls="random"))

    ctx.shards(hyp, list(range(16)))


def drv_linearity(ctx: Ctx, sub: SubCheck):
    from hypothesis import strategies as st

    strat = st.tuples(st.integers(0, 2**96 - 1), st.integers(0, 2**96 - 1)).map(lambda ab: {"a": "%024x" % ab[0], "b": "%024x" % ab[1]})

    def hyp(shard, t: Tally):
        ctx.hypothesis(sub.name, strat, oracle_linearity, ctx.pick(25, 1000), tally=t, shard=shard,
                       record=lambda c, tt: tt.case(sub.name, key=c, nontrivial=(c["a"] != c["b"] and int(c["a"], 16) and int(c["b"], 16)) and True))

    ctx.shards(hyp, list(range(16)))


def _structured_messages():
    """Messages that put extreme data into single rows / columns of the 13x15 matrix: all-ones, one info column all-ones
    (11 columns), one info row all-ones (9 rows), complements of those.  A repair that is not translation invariant (a
    table-driven corrector with a missing entry, a cache) shows on such codewords and not on zero/unit/most random ones
    (added after seeded change C02-2)."""
    cells = []  # (row, col) of the 96 info bits in message order
    for r in range(9):
        for c in range(11):
            if r == 0 and c < 3:
                continue
            cells.append((r, c))
    out = []
    full = (1 << 96) - 1
    out.append(("all_ones", full))
    for c in range(11):
        v = 0
        for i, (rr, cc) in enumerate(cells):
            if cc == c:
                v |= 1 << (95 - i)
        out.append((f"col{c}_ones", v))
        out.append((f"col{c}_zeros", full ^ v))
    for r in range(9):
        v = 0
        for i, (rr, cc) in enumerate(cells):
            if rr == r:
                v |= 1 << (95 - i)
        out.append((f"row{r}_ones", v))
        out.append((f"row{r}_zeros", full ^ v))
    return [(name, "%024x" % v) for name, v in out]


def _line_patterns():
    """all single errors + all pairs inside one matrix row + all pairs inside one matrix column (in transmit positions):
    the patterns whose correction needs the row and the column decoder to cooperate"""
    pos = {}
    for k in range(1, 196):
        r, c = divmod(k - 1, 15)
        pos[(r, c)] = bptc_ref.bptc196_position(k)
    pats = [[i] for i in range(196)]
    for r in range(13):
        for a, b in itertools.combinations(range(15), 2):
            pats.append(sorted([pos[(r, a)], pos[(r, b)]]))
    for c in range(15):
        for a, b in itertools.combinations(range(13), 2):
            pats.append(sorted([pos[(a, c)], pos[(b, c)]]))
    return pats


def drv_fault(ctx: Ctx, sub: SubCheck):
    msgs = _messages(ctx, n_random=ctx.pick(1, 8), n_unit=ctx.pick(0, 8))
    if ctx.quick:
        msgs = msgs[1:]  # quick: one random codeword (the zero word is covered by thorough)
    msgs = [("all_ones", "%024x" % ((1 << 96) - 1))] + [("sampled", m) for m in msgs]
    patterns = [[i] for i in range(196)] + [list(p) for p in itertools.combinations(range(196), 2)]
    line = _line_patterns()
    items = []
    for name, msg in msgs:
        for lo in range(0, len(patterns), 400):
            items.append((name, msg, "all", lo, min(len(patterns), lo + 400)))
    # structured codewords: complete pattern set in thorough, the row/column line patterns in quick
    for name, msg in _structured_messages()[1:]:
        pats = "all" if not ctx.quick else "line"
        n = len(patterns) if pats == "all" else len(line)
        for lo in range(0, n, 400):
            items.append((name, msg, pats, lo, min(n, lo + 400)))

    def work(it, t: Tally):
        name, msg, which, lo, hi = it
        src = patterns if which == "all" else line
        for p in src[lo:hi]:
            ctx.run_case(sub.name, oracle_fault, {"msg": msg, "flips": p}, t)
            t.case(sub.name, nontrivial=(len(p) == 2), cls=f"weight_{len(p)}:{'structured' if name != 'sampled' else 'sampled'}")
        t.sample(sub.name, {"msg": msg, "flips": src[lo + (hi - lo) // 2]})

    ctx.shards(work, items)
    ctx.tally.exhaustive[sub.name] = True
    ctx.tally.extra["fault_patterns_per_codeword"] = len(patterns)
    ctx.tally.extra["line_patterns_per_structured_codeword_quick"] = len(line)
    ctx.tally.extra["codewords_under_complete_fault_enumeration"] = [m for n, m in msgs] + ([m for n, m in _structured_messages()[1:]] if not ctx.quick else [])
    ctx.tally.extra["structured_codewords"] = [n for n, m in _structured_messages()]
    ctx.tally.notes.append("exhaustive over all weight<=2 error patterns for each listed codeword (structured codewords in quick: all singles + all same-row and same-column pairs); messages are chosen, not enumerated (linearity clause)")


SUBCHECKS = [
    SubCheck("roundtrip", oracle_roundtrip, drv_roundtrip, "encode == reference, decode∘encode == id (repair on/off), repair leaves codewords alone"),
    SubCheck("linearity", oracle_linearity, drv_linearity, "encode(a^b) == encode(a)^encode(b) on random pairs"),
    SubCheck("fault", oracle_fault, drv_fault, "all 19306 error patterns of weight <= 2 are corrected"),
]
PREDICATES = {}
