"""C02 — BPTC(196,96): round trip for every message and correction of every error pattern of weight <= 2.

Faults: complete enumeration of the 196 single and 19 110 double inversions (sharded); messages: zero word, unit
messages, seeded random messages; GF(2)-linearity of the encoder on Hypothesis-drawn pairs.  Reference encoder:
vp/refs/bptc_ref.py (13x15 product code + (k*181 mod 196) interleaver), independent of the library's table.
"""
from __future__ import annotations

import functools
import itertools

from bitarray import bitarray
from bitarray.util import int2ba

from vp.core import Ctx, Fail, SubCheck, Tally, call
from vp.refs import bptc_ref

LEVEL = "fault_enumeration"
RULE = (
    "messages: the zero word, unit messages and seeded random 96-bit messages (Hypothesis for the linearity / reference / "
    "round-trip clauses); faults: ALL 196 single-bit and ALL 19110 double-bit inversions of the 196 transmitted bits per "
    "chosen codeword (complete enumeration).  A case is (message, error pattern); distinct by construction inside the "
    "enumeration, by hash in the Hypothesis part.  Non-trivial: error patterns of weight 2; messages with >= 2 set bits.  "
    "Besides sampled codewords the enumeration runs on 41 structured codewords (all-ones; one info column / row all-ones "
    "or all-zeros in an otherwise complementary message): complete pattern set in thorough, all singles + all same-row and "
    "same-column pairs in quick."
)
ASSUMPTIONS = [
    "reference encoder vp/refs/bptc_ref.py written from ETSI TS 102 361-1 B.1.1 (Hamming(15,11,3) rows, Hamming(13,9,3) "
    "columns, interleave position k*181 mod 196)",
    "linearity of the code (checked on random pairs) is what justifies enumerating all faults on a few codewords only",
]


def BPTC():
    from okdmr.dmrlib.etsi.fec.bptc_196_96 import BPTC19696

    return BPTC19696


def msg_bits(case_msg) -> bitarray:
    """message given as 24-hex-digit string"""
    return int2ba(int(case_msg, 16), 96, endian="big")


def oracle_roundtrip(case):
    """case = {msg: hex24}.  encode == reference; decode(encode) == msg with and without repair; repair leaves the error-free
    codeword alone (interleaved and de-interleaved form); inputs not mutated."""
    B = BPTC()
    m = msg_bits(case["msg"])
    m0 = m.copy()
    st, enc = call(B.encode, m)
    if m != m0:
        raise Fail("encode_does_not_mutate_input", m.to01(), m0.to01())
    if len(enc) != 196:
        raise Fail("encoded_length", len(enc), 196)
    ref = bitarray(bptc_ref.bptc196_encode(m.tolist()))
    if bitarray(enc) != ref:
        raise Fail("encode_equals_reference", bitarray(enc).to01(), ref.to01())
    enc = bitarray(enc)
    for repair in (True, False):
        arg = enc.copy()
        st, dec = call(B.deinterleave_data_bits, arg, repair)
        if bitarray(dec) != m0:
            raise Fail(f"roundtrip_repair_{repair}", bitarray(dec).to01(), m0.to01())
        if arg != enc:
            raise Fail("decode_does_not_mutate_input", arg.to01(), enc.to01())
    arg = enc.copy()
    st, rep = call(B.repair_if_necessary, arg)
    if bitarray(rep) != enc:
        raise Fail("error_free_codeword_not_altered_by_repair", _diff(rep, enc), "no difference")
    if arg != enc:
        raise Fail("repair_does_not_mutate_interleaved_input", _diff(arg, enc), "no difference")
    st, de = call(B.deinterleave_all_bits, enc.copy())
    de = bitarray(de)
    st, rep2 = call(B.repair_if_necessary, de.copy(), True)
    if bitarray(rep2) != de:
        raise Fail("error_free_deinterleaved_codeword_not_altered_by_repair", _diff(rep2, de), "no difference")


def _diff(a, b):
    a, b = bitarray(a), bitarray(b)
    return {"differing_positions": [i for i in range(min(len(a), len(b))) if a[i] != b[i]], "len": len(a)}


def oracle_fault(case):
    """case = {msg: hex24, flips: [positions]} with 1..2 positions: decoder with repair returns the message."""
    B = BPTC()
    m = msg_bits(case["msg"])
    rx = bitarray(bptc_ref.bptc196_encode(m.tolist()))
    for p in case["flips"]:
        rx.invert(p)
    st, dec = call(B.deinterleave_data_bits, rx, True)
    if bitarray(dec) != m:
        raise Fail("errors_up_to_weight_2_corrected", {"wrong_info_bits": _diff(dec, m)["differing_positions"]}, "message returned exactly")
    # "unusual, then ordinary" (lesson A.6): the encoder call that FOLLOWS a repairing decode of a damaged word (possibly with
    # reserved bits received as 1) must still produce the code's codeword for its own message
    m2 = _follow_up_message(case["msg"])
    st, enc2 = call(B.encode, msg_bits(m2))
    if bitarray(enc2).to01() != _ref_codeword01(m2):
        raise Fail("encode_after_repairing_decode_equals_reference", _diff(enc2, bitarray(_ref_codeword01(m2))), "no difference to the reference codeword")
    # the same repair applied to the library's own de-interleaved layout must give the de-interleaved codeword
    cw = bitarray(bptc_ref.bptc196_encode(m.tolist()))
    for p in case["flips"]:
        if p == 0:
            cw.invert(0)  # R(3) is outside the code: repair keeps it as received
    d_rx = bitarray(call(B.deinterleave_all_bits, rx)[1])
    d_cw = bitarray(call(B.deinterleave_all_bits, cw)[1])
    st, rep = call(B.repair_if_necessary, d_rx, True)
    if bitarray(rep) != d_cw:
        raise Fail("deinterleaved_repair_corrects_weight_2", _diff(rep, d_cw), "no difference to the de-interleaved codeword")


@functools.lru_cache(maxsize=4096)
def _ref_codeword01(msg_hex):
    return bitarray(bptc_ref.bptc196_encode(msg_bits(msg_hex).tolist())).to01()


def _follow_up_message(msg_hex):
    """a second message derived from the case's own (rotated by 29 bits and complemented in every third bit)"""
    v = int(msg_hex, 16)
    v = ((v << 29) | (v >> 67)) & ((1 << 96) - 1)
    return "%024x" % (v ^ int("249" * 8, 16))


def oracle_containers(case):
    """case = {msg: hex24, flips: [..], rep}: message / received word handed over in another container (lesson A.1) - same
    results as the bit sequence demands; a container an entry point declines is outside the domain."""
    from vp import containers as C

    B = BPTC()
    rep = case["rep"]
    m = msg_bits(case["msg"])
    ref = bitarray(_ref_codeword01(case["msg"]))
    st, enc = C.try_call(B.encode, C.make(rep, m.tolist()))
    if st == "ok":
        if C.to_bits(enc) != ref.tolist():
            raise Fail("container_encode_equals_reference", _diff(bitarray(C.to_bits(enc)), ref), "no difference", rep)
    else:
        case["_declined_encode"] = True
    rx = ref.copy()
    for p in case["flips"]:
        rx.invert(p)
    for repair in (True, False) if not case["flips"] else (True,):
        st, dec = C.try_call(B.deinterleave_data_bits, C.make(rep, rx.tolist()), repair)
        if st == "ok":
            if C.to_bits(dec) != m.tolist():
                raise Fail("container_decode_returns_message", _diff(bitarray(C.to_bits(dec)), m), "message returned exactly", rep)
        else:
            case["_declined_decode"] = True
    st, out = C.try_call(B.repair_if_necessary, C.make(rep, rx.tolist()))
    if st == "ok" and not (set(case["flips"]) & {0}):
        if C.to_bits(out) != ref.tolist():
            raise Fail("container_repair_returns_codeword", _diff(bitarray(C.to_bits(out)), ref), "no difference", rep)


def oracle_interleaved(case):
    """case = {pool: [hex24..], ops: [...]}: a history of encoder / decoder / repair calls over a small pool of messages and
    error patterns (weight <= 2, biased to the reserved positions); every call must give the reference result for ITS
    arguments whatever was called before (lesson A.6: state shared between calls only shows in a history)."""
    B = BPTC()
    pool = case["pool"]
    for i, op in enumerate(case["ops"]):
        msg = pool[op["m"] % len(pool)]
        m = msg_bits(msg)
        ref = bitarray(_ref_codeword01(msg))
        rx = ref.copy()
        for p in op.get("flips", []):
            rx.invert(p)
        k = op["k"]
        if k == "encode":
            st, out = call(B.encode, m)
            if bitarray(out) != ref:
                raise Fail("history_encode_equals_reference", {"step": i, **_diff(out, ref)}, "no difference")
        elif k == "decode":
            st, out = call(B.deinterleave_data_bits, rx, True)
            if bitarray(out) != m:
                raise Fail("history_decode_returns_message", {"step": i, "wrong_info_bits": _diff(out, m)["differing_positions"]}, "message returned exactly")
        elif k == "decode_norepair":
            st, out = call(B.deinterleave_data_bits, ref.copy(), False)
            if bitarray(out) != m:
                raise Fail("history_decode_returns_message", {"step": i, "wrong_info_bits": _diff(out, m)["differing_positions"]}, "message returned exactly")
        elif k == "repair":
            st, out = call(B.repair_if_necessary, rx)
            exp = ref.copy()
            if 0 in op.get("flips", []):
                exp.invert(0)  # R(3) is outside the code
            if bitarray(out) != exp:
                raise Fail("history_repair_returns_codeword", {"step": i, **_diff(out, exp)}, "no difference")
        elif k == "repair_deinterleaved":
            d_rx = bitarray(call(B.deinterleave_all_bits, rx)[1])
            exp = ref.copy()
            if 0 in op.get("flips", []):
                exp.invert(0)
            d_exp = bitarray(call(B.deinterleave_all_bits, exp)[1])
            st, out = call(B.repair_if_necessary, d_rx, True)
            if bitarray(out) != d_exp:
                raise Fail("history_repair_returns_codeword", {"step": i, **_diff(out, d_exp)}, "no difference")


def oracle_linearity(case):
    """case = {a: hex24, b: hex24}: encode(a^b) == encode(a)^encode(b)."""
    B = BPTC()
    a, b = msg_bits(case["a"]), msg_bits(case["b"])
    ea, eb, eab = (bitarray(call(B.encode, x)[1]) for x in (a, b, a ^ b))
    if eab != ea ^ eb:
        raise Fail("encoder_gf2_linear", _diff(eab, ea ^ eb), "no difference")


# ---------------------------------------------------------------------------------------------- drivers


def _messages(ctx: Ctx, n_random: int, n_unit: int):
    rng = ctx.rng("messages")
    msgs = ["%024x" % 0]
    units = list(range(96))
    rng.shuffle(units)
    msgs += ["%024x" % (1 << u) for u in units[:n_unit]]
    msgs += ["%024x" % rng.getrandbits(96) for _ in range(n_random)]
    return msgs


def drv_roundtrip(ctx: Ctx, sub: SubCheck):
    from hypothesis import strategies as st

    # all 96 unit messages + zero, always
    def work(chunk, t: Tally):
        for msg in chunk:
            ctx.run_case(sub.name, oracle_roundtrip, {"msg": msg}, t)
            t.case(sub.name, key={"msg": msg}, nontrivial=bin(int(msg, 16)).count("1") >= 2, cls="basis_or_zero")

    basis = ["%024x" % 0, "%024x" % (2**96 - 1)] + ["%024x" % (1 << u) for u in range(96)]
    ctx.shards(work, [basis[i::16] for i in range(16)])

    strat = st.integers(0, 2**96 - 1).map(lambda v: {"msg": "%024x" % v})

    def hyp(shard, t: Tally):
        ctx.hypothesis(sub.name, strat, oracle_roundtrip, ctx.pick(40, 1500), tally=t, shard=shard,
                       record=lambda c, tt: tt.case(sub.name, key=c, nontrivial=bin(int(c["msg"], 16)).count("1") >= 2, cls="random"))

    ctx.shards(hyp, list(range(16)))


def drv_linearity(ctx: Ctx, sub: SubCheck):
    from hypothesis import strategies as st

    strat = st.tuples(st.integers(0, 2**96 - 1), st.integers(0, 2**96 - 1)).map(lambda ab: {"a": "%024x" % ab[0], "b": "%024x" % ab[1]})

    def hyp(shard, t: Tally):
        ctx.hypothesis(sub.name, strat, oracle_linearity, ctx.pick(25, 1000), tally=t, shard=shard,
                       record=lambda c, tt: tt.case(sub.name, key=c, nontrivial=(c["a"] != c["b"] and int(c["a"], 16) and int(c["b"], 16)) and True))

    ctx.shards(hyp, list(range(16)))


def _structured_messages():
    """Messages that put extreme data into single rows / columns of the 13x15 matrix: all-ones, one info column all-ones
    (11 columns), one info row all-ones (9 rows), complements of those.  A repair that is not translation invariant (a
    table-driven corrector with a missing entry, a cache) shows on such codewords and not on zero/unit/most random ones
    (added after seeded change C02-2)."""
    cells = []  # (row, col) of the 96 info bits in message order
    for r in range(9):
        for c in range(11):
            if r == 0 and c < 3:
                continue
            cells.append((r, c))
    out = []
    full = (1 << 96) - 1
    out.append(("all_ones", full))
    for c in range(11):
        v = 0
        for i, (rr, cc) in enumerate(cells):
            if cc == c:
                v |= 1 << (95 - i)
        out.append((f"col{c}_ones", v))
        out.append((f"col{c}_zeros", full ^ v))
    for r in range(9):
        v = 0
        for i, (rr, cc) in enumerate(cells):
            if rr == r:
                v |= 1 << (95 - i)
        out.append((f"row{r}_ones", v))
        out.append((f"row{r}_zeros", full ^ v))
    return [(name, "%024x" % v) for name, v in out]


def _line_patterns():
    """all single errors + all pairs inside one matrix row + all pairs inside one matrix column (in transmit positions):
    the patterns whose correction needs the row and the column decoder to cooperate"""
    pos = {}
    for k in range(1, 196):
        r, c = divmod(k - 1, 15)
        pos[(r, c)] = bptc_ref.bptc196_position(k)
    pats = [[i] for i in range(196)]
    for r in range(13):
        for a, b in itertools.combinations(range(15), 2):
            pats.append(sorted([pos[(r, a)], pos[(r, b)]]))
    for c in range(15):
        for a, b in itertools.combinations(range(13), 2):
            pats.append(sorted([pos[(a, c)], pos[(b, c)]]))
    return pats


def drv_fault(ctx: Ctx, sub: SubCheck):
    msgs = _messages(ctx, n_random=ctx.pick(1, 8), n_unit=ctx.pick(0, 8))
    if ctx.quick:
        msgs = msgs[1:]  # quick: one random codeword (the zero word is covered by thorough)
    msgs = [("all_ones", "%024x" % ((1 << 96) - 1))] + [("sampled", m) for m in msgs]
    patterns = [[i] for i in range(196)] + [list(p) for p in itertools.combinations(range(196), 2)]
    line = _line_patterns()
    items = []
    for name, msg in msgs:
        for lo in range(0, len(patterns), 400):
            items.append((name, msg, "all", lo, min(len(patterns), lo + 400)))
    # structured codewords: complete pattern set in thorough, the row/column line patterns in quick
    for name, msg in _structured_messages()[1:]:
        pats = "all" if not ctx.quick else "line"
        n = len(patterns) if pats == "all" else len(line)
        for lo in range(0, n, 400):
            items.append((name, msg, pats, lo, min(n, lo + 400)))

    def work(it, t: Tally):
        name, msg, which, lo, hi = it
        src = patterns if which == "all" else line
        for p in src[lo:hi]:
            ctx.run_case(sub.name, oracle_fault, {"msg": msg, "flips": p}, t)
            t.case(sub.name, nontrivial=(len(p) == 2), cls=f"weight_{len(p)}:{'structured' if name != 'sampled' else 'sampled'}")
        t.sample(sub.name, {"msg": msg, "flips": src[lo + (hi - lo) // 2]})

    ctx.shards(work, items)
    ctx.tally.exhaustive[sub.name] = True
    ctx.tally.extra["fault_patterns_per_codeword"] = len(patterns)
    ctx.tally.extra["line_patterns_per_structured_codeword_quick"] = len(line)
    ctx.tally.extra["codewords_under_complete_fault_enumeration"] = [m for n, m in msgs] + ([m for n, m in _structured_messages()[1:]] if not ctx.quick else [])
    ctx.tally.extra["structured_codewords"] = [n for n, m in _structured_messages()]
    ctx.tally.notes.append("exhaustive over all weight<=2 error patterns for each listed codeword (structured codewords in quick: all singles + all same-row and same-column pairs); messages are chosen, not enumerated (linearity clause)")


RESERVED_POSITIONS = [0] + [bptc_ref.bptc196_position(k) for k in (1, 2, 3)]  # R(3) and R(2..0) in transmit order


def drv_containers(ctx: Ctx, sub: SubCheck):
    from vp import containers as C

    rng = ctx.rng("containers")
    msgs = ["%024x" % ((1 << 96) - 1), "%024x" % 1, "%024x" % (1 << 95)] + ["%024x" % rng.getrandbits(96) for _ in range(ctx.pick(12, 200))]
    items = [(rep, msg) for rep in C.ALTERNATIVE for msg in msgs]

    def work(it, t: Tally):
        rep, msg = it
        r = ctx.rng(f"containers:{rep}:{msg}")
        flipsets = [[]] + [[r.randrange(196)] for _ in range(3)] + [sorted(r.sample(range(196), 2)) for _ in range(4)] + [[RESERVED_POSITIONS[1], RESERVED_POSITIONS[2]]]
        for fl in flipsets:
            case = {"msg": msg, "flips": fl, "rep": rep}
            ctx.run_case(sub.name, oracle_containers, case, t)
            declined = [k for k in ("_declined_encode", "_declined_decode") if case.get(k)]
            for d in declined:
                t.case(sub.name, nontrivial=False, cls=f"container_not_accepted.{d[10:]}.{rep}")
            t.case(sub.name, nontrivial=bool(fl), cls=f"{rep}.weight_{len(fl)}")
        t.sample(sub.name, {"msg": msg, "rep": rep})

    ctx.shards(work, items)


def drv_interleaved(ctx: Ctx, sub: SubCheck):
    from hypothesis import strategies as st

    pos = st.one_of(st.sampled_from(RESERVED_POSITIONS), st.integers(0, 195))
    flips = st.lists(pos, min_size=0, max_size=2, unique=True).map(sorted)
    op = st.one_of(
        st.builds(lambda m: {"k": "encode", "m": m}, st.integers(0, 3)),
        st.builds(lambda m, f: {"k": "decode", "m": m, "flips": f}, st.integers(0, 3), flips),
        st.builds(lambda m: {"k": "decode_norepair", "m": m}, st.integers(0, 3)),
        st.builds(lambda m, f: {"k": "repair", "m": m, "flips": f}, st.integers(0, 3), flips),
        st.builds(lambda m, f: {"k": "repair_deinterleaved", "m": m, "flips": f}, st.integers(0, 3), flips),
    )
    strat = st.fixed_dictionaries({"pool": st.lists(st.integers(0, 2**96 - 1).map(lambda v: "%024x" % v), min_size=2, max_size=4), "ops": st.lists(op, min_size=2, max_size=10)})

    def rec(c, tt):
        kinds = [o["k"] for o in c["ops"]]
        dec_then_enc = any(a != "encode" and b == "encode" for a, b in zip(kinds, kinds[1:]))
        reserved = any(set(o.get("flips", [])) & set(RESERVED_POSITIONS) for o in c["ops"])
        tt.case(sub.name, key=c, nontrivial=dec_then_enc, cls="decode_or_repair_then_encode" if dec_then_enc else "other")
        if reserved:
            tt.case(sub.name, nontrivial=False, cls="reserved_position_received_inverted", n=0)

    def hyp(shard, t: Tally):
        ctx.hypothesis(sub.name, strat, oracle_interleaved, ctx.pick(60, 1200), tally=t, shard=shard, record=rec)

    ctx.shards(hyp, list(range(16)))
    # directed: every pair of reserved positions received inverted, in every repair entry point, immediately followed by encode
    msgs = ["%024x" % ((1 << 96) - 1), "%024x" % 0x0123456789ABCDEF01234567]
    for fl in [[p] for p in RESERVED_POSITIONS] + [sorted(p) for p in itertools.combinations(RESERVED_POSITIONS, 2)]:
        for k in ("decode", "repair", "repair_deinterleaved"):
            for follow in ("encode", "decode_norepair"):
                case = {"pool": msgs, "ops": [{"k": k, "m": 0, "flips": fl}, {"k": follow, "m": 1}, {"k": k, "m": 1, "flips": fl}, {"k": follow, "m": 0}]}
                ctx.run_case(sub.name, oracle_interleaved, case)
                ctx.tally.case(sub.name, key=case, nontrivial=True, cls="directed_reserved_then_" + follow)


# Preludes (vp/core.py): between the two judgements of a case every sibling of the two Hamming codes BPTC(196,96) is built
# on - all five Hamming classes share HammingCommon - repairs a single error of its own, and half of the generic prelude
# calls come from the block-code / BPTC groups of the C19 catalogue (seeded change C02-7: a repair table shared by all
# Hamming classes and keyed on the code dimension, which (15,11,3) and (16,11,4) have in common).
PRELUDE_GROUPS = ("fec", "bptc")
_SIBLING_CODES = {"h743": 4, "h1393": 9, "h15113": 11, "h16114": 11, "h17123": 12}


def prelude_for(sub, case, rng):
    calls = []
    for code, k in _SIBLING_CODES.items():
        bits = "".join(rng.choice("01") for _ in range(k))
        calls.append({"e": "hamming.encode_then_repair", "a": {"cb": {"code": code, "bits": bits}, "flip": rng.randrange(17)}})
    return calls


SUBCHECKS = [
    SubCheck("containers", oracle_containers, drv_containers, "message / received word in little-endian or frozen bitarrays and numpy arrays: same results as the bit sequence demands"),
    SubCheck("interleaved", oracle_interleaved, drv_interleaved, "histories of encode / decode / repair calls over a small pool (errors biased to the reserved positions): every call gives its reference result"),
    SubCheck("roundtrip", oracle_roundtrip, drv_roundtrip, "encode == reference, decode∘encode == id (repair on/off), repair leaves codewords alone"),
    SubCheck("linearity", oracle_linearity, drv_linearity, "encode(a^b) == encode(a)^encode(b) on random pairs"),
    SubCheck("fault", oracle_fault, drv_fault, "all 19306 error patterns of weight <= 2 are corrected"),
]
PREDICATES = {}
